------------------------------ MODULE RotGrid ------------------------------
(* The candidate set of a rotation search requested as (max, step) RANGES
   (acryo/_rotation.py: normalize_rotations -> _seq_of_max_and_step_to_quat; reached through
   Model(template, rotations=...), Model.with_params(rotations=...), loader.align(..., rotations=...),
   TemplateMatcher(..., rotation=...)).  C06 quantifies over "rotation sets given as (max, step) ranges
   or Rotation objects"; AlignCand.tla treats the set as given - this module says WHICH set a range
   request denotes and in which order, so that "candidate k" of AlignCand has a meaning for ranges.

   A request is either one pair <<max, step>> (used for all three axes) or a triple of pairs in z, y, x
   order, in degrees.  One step of the code per definition:
     Halfwidth   n = int(max / step)            (0 when step = 0)
     AxisAngles  linspace(-n step, n step, 2n+1)
     Grid        itertools.product(z angles, y angles, x angles): x runs fastest
     RotOf       from_euler_xyz_coords(angles, "zyx"): Rz(az) o Ry(ay) o Rx(ax), each elementary rotation
                 right-handed for the handedness of Zyx (z = y x x), i.e. its rotation vector is angle * e_axis
   A set given as Rotation OBJECT(s) is the sequence of those rotations as it stands; one object that is not stacked is a set of
   one rotation (the harness gives the one-candidate requests in that form as well).
   Angles are integers (degrees); on requests whose steps are multiples of 90 the candidates are exact
   signed permutation matrices (Zyx.Rot24M) and the whole candidate list is decided exactly.  *)
EXTENDS Integers, Sequences, FiniteSets, TLC, Json, Zyx

CONSTANTS AxisReqs,        \* the <<max, step>> pairs requests are built from
          PlantLimit       \* grids of at most this many candidates are searched for every planted candidate

VARIABLE req               \* [form : {"triple", "scalar"}, r : <<rz, ry, rx>>]

(* ---------------------------------------------------------------- the grid *)
Halfwidth(p) == IF p[2] = 0 THEN 0 ELSE p[1] \div p[2]
NAxis(p) == 2 * Halfwidth(p) + 1
AxisAngles(p) == [j \in 1..NAxis(p) |-> (j - 1 - Halfwidth(p)) * p[2]]
Count(r) == NAxis(r[1]) * NAxis(r[2]) * NAxis(r[3])
(* zero-based flat index -> one-based positions along z, y, x: the LAST axis runs fastest *)
PosZ(r, f) == (f \div (NAxis(r[2]) * NAxis(r[3]))) + 1
PosY(r, f) == ((f \div NAxis(r[3])) % NAxis(r[2])) + 1
PosX(r, f) == (f % NAxis(r[3])) + 1
Grid(r) == [i \in 1..Count(r) |-> <<AxisAngles(r[1])[PosZ(r, i - 1)], AxisAngles(r[2])[PosY(r, i - 1)], AxisAngles(r[3])[PosX(r, i - 1)]>>]
CentreIndex(r) == (Count(r) + 1) \div 2

(* ------------------------------------------------- exact rotations for quarter turns *)
RzQ == <<<<1,0,0>>, <<0,0,-1>>, <<0,1,0>>>>      \* +90 about z: y -> x
RyQ == <<<<0,0,1>>, <<0,1,0>>, <<-1,0,0>>>>      \* +90 about y: x -> z
RxQ == <<<<0,-1,0>>, <<1,0,0>>, <<0,0,1>>>>      \* +90 about x: z -> y
MPow(M, n) == LET k == n % 4 IN
  IF k = 0 THEN MId ELSE IF k = 1 THEN M ELSE IF k = 2 THEN MMul(M, M) ELSE MMul(M, MMul(M, M))
IsQuarterTriple(t) == \A a \in 1..3 : t[a] % 90 = 0
IsQuarterReq(r) == \A a \in 1..3 : r[a][2] % 90 = 0
RotOf(t) == MMul(MMul(MPow(RzQ, t[1] \div 90), MPow(RyQ, t[2] \div 90)), MPow(RxQ, t[3] \div 90))
Mats(r) == [i \in 1..Count(r) |-> RotOf(Grid(r)[i])]
(* several angle triples may denote the same rotation (gimbal lock, +-180): Emit names the FIRST such candidate *)

(* ------------------------------------------------------------------ machine *)
Reqs == {[form |-> "triple", r |-> <<a, b, c>>] : a \in AxisReqs, b \in AxisReqs, c \in AxisReqs}
   \cup {[form |-> "scalar", r |-> <<a, a, a>>] : a \in AxisReqs}
Init == req \in Reqs
Next == UNCHANGED req
Spec == Init /\ [][Next]_req

(* --------------------------------------------------------------- properties *)
R == req.r
AbsA(x) == IF x < 0 THEN -x ELSE x
(* the grid of the current request, evaluated once per state: G[1] = angle triples, G[2] = count *)
GridOK == LET g == Grid(R) n == Count(R) c == CentreIndex(R) IN
   /\ Len(g) = NAxis(R[1]) * NAxis(R[2]) * NAxis(R[3]) /\ n >= 1 /\ n % 2 = 1            \* CountIsProduct
   /\ g[c] = <<0, 0, 0>>                                                                   \* IdentityAtCentre
   /\ \A i \in 1..n : g[n + 1 - i] = VNeg(g[i])                                            \* Antisymmetric
   /\ Cardinality({g[i] : i \in 1..n}) = n                                                 \* NoRepeatedTriple
   \* ProductOrder: x fastest, z slowest
   /\ \A i \in 1..n : (i - 1) = ((PosZ(R, i - 1) - 1) * NAxis(R[2]) + (PosY(R, i - 1) - 1)) * NAxis(R[3]) + (PosX(R, i - 1) - 1)
   /\ \A i \in 1..(n - 1) : PosX(R, i) # 1 => (g[i + 1][1] = g[i][1] /\ g[i + 1][2] = g[i][2] /\ g[i + 1][3] = g[i][3] + R[3][2])
(* every angle is a multiple of the step within +-max, and the outermost multiple that fits is present *)
WithinMaxAndMaximal == \A a \in 1..3 :
   LET p == R[a] n == Halfwidth(p) IN
     /\ \A j \in 1..NAxis(p) : AbsA(AxisAngles(p)[j]) <= p[1]
     /\ (p[2] > 0 => (n * p[2] <= p[1] /\ (n + 1) * p[2] > p[1]))
     /\ (p[2] = 0 => NAxis(p) = 1)
Elementary ==
   /\ RzQ \in Rot24M /\ RyQ \in Rot24M /\ RxQ \in Rot24M
   /\ MApply(RzQ, <<1,0,0>>) = <<1,0,0>> /\ MApply(RzQ, <<0,1,0>>) = <<0,0,1>>     \* about z: y -> x
   /\ MApply(RyQ, <<0,1,0>>) = <<0,1,0>> /\ MApply(RyQ, <<0,0,1>>) = <<1,0,0>>     \* about y: x -> z
   /\ MApply(RxQ, <<0,0,1>>) = <<0,0,1>> /\ MApply(RxQ, <<1,0,0>>) = <<0,1,0>>     \* about x: z -> y
   /\ MPow(RzQ, -1) = MT(RzQ) /\ MPow(RyQ, 3) = MT(RyQ) /\ MPow(RxQ, 4) = MId
QuarterCandidatesInRot24 == IsQuarterReq(R) =>
   LET g == Grid(R) m == Mats(R) n == Count(R) IN
   /\ \A i \in 1..n : m[i] \in Rot24M
   /\ m[CentreIndex(R)] = MId
   \* negating all three angles inverts the rotation only when at most one axis turns (Rz Ry Rx does not commute)
   /\ \A i \in 1..n : m[n + 1 - i] # MT(m[i]) => Cardinality({a \in 1..3 : g[i][a] # 0}) >= 2
(* the scalar form is the isotropic triple *)
ScalarIsIsotropic == req.form = "scalar" => (R[1] = R[2] /\ R[2] = R[3])
(* AlignCand's hand-written range sets are this module's grids *)
RangeZis == Mats(<<<<90,90>>, <<0,0>>, <<0,0>>>>) = << <<<<1,0,0>>,<<0,0,1>>,<<0,-1,0>>>>, <<<<1,0,0>>,<<0,1,0>>,<<0,0,1>>>>, <<<<1,0,0>>,<<0,0,-1>>,<<0,1,0>>>> >>
RangeXis == Mats(<<<<0,0>>, <<0,0>>, <<90,90>>>>) = << <<<<0,1,0>>,<<-1,0,0>>,<<0,0,1>>>>, <<<<1,0,0>>,<<0,1,0>>,<<0,0,1>>>>, <<<<0,-1,0>>,<<1,0,0>>,<<0,0,1>>>> >>
TypeOK == req \in Reqs

Planted(r) == IF IsQuarterReq(r) /\ Count(r) <= PlantLimit /\ Count(r) > 1 THEN 1..Count(r) ELSE {}
Emit == LET m == IF IsQuarterReq(R) /\ Count(R) <= 125 THEN Mats(R) ELSE <<>> IN
        PrintT(ToJson([form |-> req.form, r |-> R, count |-> Count(R), centre |-> CentreIndex(R),
                        grid |-> Grid(R), quarter |-> IsQuarterReq(R), mats |-> m,
                        plant |-> [k \in Planted(R) |-> CHOOSE f \in 1..k : m[f] = m[k] /\ \A h \in 1..(f - 1) : m[h] # m[k]]]))
=============================================================================
