CONSTANTS
  MaxDepth = 3
  MaxRows = 6
  MaxImgs = 4
  SmallInit = TRUE
SPECIFICATION Spec
ACTION_CONSTRAINT EmitFork
CHECK_DEADLOCK FALSE
