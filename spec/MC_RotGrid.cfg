CONSTANTS
  AxisReqs <- AxisReqsDef
  PlantLimit = 27
SPECIFICATION Spec
INVARIANT TypeOK
INVARIANT GridOK
INVARIANT WithinMaxAndMaximal
INVARIANT Elementary
INVARIANT QuarterCandidatesInRot24
INVARIANT ScalarIsIsotropic
INVARIANT RangeZis
INVARIANT RangeXis
INVARIANT Emit
CHECK_DEADLOCK FALSE
