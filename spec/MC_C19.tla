------------------------------- MODULE MC_C19 -------------------------------
EXTENDS Pipe
VARIABLES cfg, done
Ops == {"add", "sub", "mul", "div", "lt", "le", "gt", "ge", "eq", "ne"}
P0 == {[t |-> "prov", id |-> "a"], [t |-> "prov", id |-> "b"]}
S0 == {[t |-> "sc", v |-> 2], [t |-> "sc", v |-> -3]}
C0 == {[t |-> "conv", id |-> "addk"], [t |-> "conv", id |-> "mul2"], [t |-> "conv", id |-> "thr"]}
P1 == P0 \cup {x \in {[t |-> "bin", op |-> o, l |-> l, r |-> r] : o \in Ops, l \in P0 \cup S0, r \in P0 \cup S0} : ~(x.l.t = "sc" /\ x.r.t = "sc")}
         \cup {[t |-> "neg", e |-> p] : p \in P0} \cup {[t |-> "app", c |-> c, e |-> p] : c \in C0, p \in P0}
C1 == C0 \cup {[t |-> "ccomp", f |-> f, g |-> g] : f \in C0, g \in C0}
         \cup {[t |-> "cbin", op |-> o, l |-> l, r |-> r] : o \in Ops, l \in C0, r \in C0 \cup P0 \cup S0}
         \* scalar on the left; a PROVIDER on the left of a converter has no documented meaning and is not claimed
         \cup {[t |-> "cbin", op |-> o, l |-> l, r |-> r] : o \in Ops, l \in S0, r \in C0}
         \cup {[t |-> "cneg", e |-> c] : c \in C0}
(* depth-2 programs: a depth-1 converter on a base provider, a base converter on a depth-1 provider,
   operators between a depth-1 provider and a base one, and all associativity triples *)
P2 == {[t |-> "app", c |-> c, e |-> p] : c \in C1, p \in P0}
   \cup {[t |-> "app", c |-> c, e |-> p] : c \in C0, p \in P1}
   \cup {[t |-> "bin", op |-> o, l |-> l, r |-> r] : o \in {"sub", "div", "lt", "ge"}, l \in {[t |-> "app", c |-> c, e |-> p] : c \in C0, p \in P0}, r \in P0 \cup S0}
   \cup {[t |-> "bin", op |-> o, l |-> l, r |-> r] : o \in {"sub", "div", "gt", "le"}, l \in S0, r \in {[t |-> "app", c |-> c, e |-> p] : c \in C0, p \in P0}}
(* arithmetic on the result of a COMPARISON (a truth-valued image counts as 0 / 1, as it does voxel-wise in numpy): masks are combined
   this way (1 - (a == b), 2 * (a < b), (a >= b) - 3) *)
Cmps == {[t |-> "bin", op |-> o, l |-> [t |-> "prov", id |-> "a"], r |-> r] : o \in {"eq", "lt", "ge"}, r \in {[t |-> "prov", id |-> "b"], [t |-> "sc", v |-> 2]}}
P3 == {[t |-> "bin", op |-> o, l |-> l, r |-> r] : o \in {"add", "sub", "mul"}, l \in S0, r \in Cmps}
  \cup {[t |-> "bin", op |-> o, l |-> l, r |-> r] : o \in {"add", "sub", "mul"}, l \in Cmps, r \in S0 \cup P0}
Assoc == {[f |-> f, g |-> g, h |-> h, p |-> p] : f \in C0, g \in C0, h \in C0, p \in P0}
Progs == [kind : {"prog"}, e : P1 \cup P2 \cup P3, s2 : {1, 2, 4}]
Init == cfg \in Progs \cup [kind : {"assoc"}, e : Assoc, s2 : {1, 4}] /\ done = FALSE
Next == ~done /\ done' = TRUE /\ UNCHANGED cfg
Spec == Init /\ [][Next]_<<cfg, done>>
(* associativity and "@ is nested application" on the denotation *)
AssocLaw == cfg.kind = "assoc" =>
   LET a == cfg.e IN
   EvalP([t |-> "app", c |-> [t |-> "ccomp", f |-> [t |-> "ccomp", f |-> a.f, g |-> a.g], g |-> a.h], e |-> a.p], cfg.s2)
     = EvalP([t |-> "app", c |-> [t |-> "ccomp", f |-> a.f, g |-> [t |-> "ccomp", f |-> a.g, g |-> a.h]], e |-> a.p], cfg.s2)
(* reflected operators: scalar - p = -(p - scalar), scalar / p = 1 / (p / scalar) on the denotation *)
ReflectLaw == (cfg.kind = "prog" /\ cfg.e.t = "bin" /\ cfg.e.op = "sub" /\ cfg.e.l.t = "sc" /\ DefinedP(cfg.e, cfg.s2)) =>
   \A i \in 1..NVox : REq(EvalP(cfg.e, cfg.s2)[i], RSub(<<0, 1>>, EvalP([t |-> "bin", op |-> "sub", l |-> cfg.e.r, r |-> cfg.e.l], cfg.s2)[i]))
Emit == done => PrintT(ToJson(
   IF cfg.kind = "prog" THEN [kind |-> "prog", e |-> cfg.e, s2 |-> cfg.s2, defined |-> DefinedP(cfg.e, cfg.s2),
                              value |-> IF DefinedP(cfg.e, cfg.s2) THEN EvalP(cfg.e, cfg.s2) ELSE <<>>]
   ELSE [kind |-> "assoc", e |-> cfg.e, s2 |-> cfg.s2, defined |-> TRUE,
         value |-> EvalP([t |-> "app", c |-> [t |-> "ccomp", f |-> cfg.e.f, g |-> [t |-> "ccomp", f |-> cfg.e.g, g |-> cfg.e.h]], e |-> cfg.e.p], cfg.s2)]))
(* physical-unit tables, emitted once *)
Units == [kind |-> "units",
          radius |-> [i \in 1..13 |-> [s2 \in 1..4 |-> RadiusPx(i - 1, s2)]],        \* r2 = i - 1 (doubled nm), s2 = doubled scale
          ball |-> [i \in 1..4 |-> BallCount(i - 1)]]
(* Gaussian provider geometry per axis: (shape, scale, shift) in tenths of nm; quotients integral and not *)
GaussAxes == {a \in [shape10 : {30, 33, 41, 45, 50, 52, 60, 70}, scale10 : {4, 5, 6, 7, 10}, shift10 : {-5, 0, 3}] : ~RoundTie(a.shape10, a.scale10)}
GaussTable == [kind |-> "gauss",
               axes |-> ({[shape10 |-> a.shape10, scale10 |-> a.scale10, shift10 |-> a.shift10,
                                   n |-> GaussShapePx(a.shape10, a.scale10), c |-> GaussCentre(a.shape10, a.scale10, a.shift10)] : a \in GaussAxes})]
GaussLaw == \A a \in GaussAxes : GaussShapePx(a.shape10, a.scale10) >= 1 /\ GaussSymmetric(a.shape10, a.scale10)
(* point clouds in quarter pixels, explicit centres; every (a - c) component is odd, so no atom sits on a bin edge *)
Clouds == << <<<<1, 3, -5>>, <<9, -7, 3>>, <<-11, 5, 7>>, <<3, 3, 3>>>>,
             <<<<21, 1, 1>>, <<-19, 3, -1>>, <<1, 15, 9>>, <<5, -13, -9>>, <<7, 7, -3>>>>,
             <<<<1, 1, 1>>, <<-1, -1, -1>>>> >>
Centres == {<<0, 0, 0>>, <<2, -4, 6>>, <<-8, 8, 0>>}
AtomCases == {[cloud |-> i, c4 |-> c] : i \in 1..Len(Clouds), c \in Centres}
AtomsLaw == \A x \in AtomCases : OffEdges(Clouds[x.cloud], x.c4) /\ AtomsSize(Clouds[x.cloud], x.c4) >= 1
AtomsTable == [kind |-> "atoms",
               cases |-> {[atoms4 |-> Clouds[x.cloud], c4 |-> x.c4, w |-> [i \in 1..Len(Clouds[x.cloud]) |-> 1 + (i % 3)],
                           hist |-> AtomsHist(Clouds[x.cloud], [i \in 1..Len(Clouds[x.cloud]) |-> 1 + (i % 3)], x.c4)] : x \in AtomCases}]
(* rescale decisions: <<o, s>> pairs in 1/1000 nm at very different absolute sizes, tolerances 0, 1 % (the default), 5 % *)
ScalePairs == {<<108, 100>>, <<1080, 1000>>, <<10800, 10000>>, <<262, 270>>, <<2620, 2700>>, <<1000, 1000>>, <<1009, 1000>>, <<100900, 100000>>,
               <<1011, 1000>>, <<101, 100>>, <<520, 500>>, <<52, 50>>, <<5200, 5000>>, <<27, 25>>, <<500, 1000>>, <<2000, 1000>>, <<96, 100>>, <<9600, 10000>>,
               <<995, 1000>>, <<199, 200>>}
RescaleCases == {c \in [o : {p[1] : p \in ScalePairs}, s : {p[2] : p \in ScalePairs}, tolm : {0, 10, 50}] :
                    <<c.o, c.s>> \in ScalePairs /\ ~OnToleranceEdge(c.o, c.s, c.tolm) /\ \A n \in {12, 16, 20} : ~RoundTie(n * c.o, c.s)}
RescaleLaw == /\ \A c \in RescaleCases, lam \in {1, 4, 10, 25} : KeepAsIs(lam * c.o, lam * c.s, c.tolm) = KeepAsIs(c.o, c.s, c.tolm)
              /\ \A c \in RescaleCases : KeepAsIs(c.o, c.s, c.tolm) => \A n \in {12, 16, 20} : AbsD(RoundDiv(n * c.o, c.s) - n) <= 1
              \* both outcomes occur at every absolute size, so a decision taken on the DIFFERENCE in nm cannot pass
              /\ \E a, b \in RescaleCases : a.s < 300 /\ b.s < 300 /\ KeepAsIs(a.o, a.s, a.tolm) /\ ~KeepAsIs(b.o, b.s, b.tolm) /\ AbsD(b.o - b.s) < 10
RescaleTable == [kind |-> "rescale",
                 cases |-> {[o |-> c.o, s |-> c.s, tolm |-> c.tolm, keep |-> KeepAsIs(c.o, c.s, c.tolm),
                             lens |-> [i \in 1..3 |-> RoundDiv((8 + 4 * i) * c.o, c.s)]] : c \in RescaleCases}]
EmitUnits == (done /\ cfg = CHOOSE c \in [kind : {"assoc"}, e : Assoc, s2 : {1}] : TRUE) => (PrintT(ToJson(Units)) /\ PrintT(ToJson(GaussTable)) /\ PrintT(ToJson(AtomsTable)) /\ PrintT(ToJson(RescaleTable)))
=============================================================================
