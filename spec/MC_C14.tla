------------------------------- MODULE MC_C14 -------------------------------
EXTENDS Simulator
VARIABLES cfg, done
TS == <<10, 11, 12>>
Shapes == {<<3,3,3>>, <<4,4,4>>, <<3,4,5>>, <<6,5,4>>}
R90z == <<<<1,0,0>>,<<0,0,-1>>,<<0,1,0>>>>
R120 == <<<<0,1,0>>,<<0,0,1>>,<<1,0,0>>>>
R180y == <<<<-1,0,0>>,<<0,1,0>>,<<0,0,-1>>>>
(* grid-coincident positions: P2 has the parity of (shape-1) on every axis; classes per axis *)
AxisPos(s, n) == {x \in {2 * 4 + ((s - 1) % 2), 2 * 5 + ((s - 1) % 2), ((s - 1) % 2), -2 + ((s - 1) % 2), 2 * (n - 1) - ((s - 1) % 2), 2 * (n + 6) + ((s - 1) % 2), -2 * 8 + ((s - 1) % 2)} : TRUE}
PosClasses(shape) == {<<a, b, c>> : a \in {2 * 4 + ((shape[1] - 1) % 2), ((shape[1] - 1) % 2), 2 * (TS[1] + 6) + ((shape[1] - 1) % 2)},
                                    b \in {2 * 5 + ((shape[2] - 1) % 2), 2 * (TS[2] - 1) - ((shape[2] - 1) % 2)},
                                    c \in {2 * 6 + ((shape[3] - 1) % 2), -2 + ((shape[3] - 1) % 2), -2 * 9 + ((shape[3] - 1) % 2)}}
Mol(P2, R) == [P2 |-> P2, R |-> R]
Rots(shape) == IF shape = <<3,3,3>> THEN {MId, R90z, R120, R180y} ELSE {MId}
Cases == UNION {[shape : {sh}, p : PosClasses(sh), R : Rots(sh), second : {"none", "same_component", "other_component"},
                 order : {0, 1, 3}, s2 : {1, 2, 4}] : sh \in Shapes}
Init == cfg \in Cases /\ done = FALSE
Next == ~done /\ done' = TRUE /\ UNCHANGED cfg
Spec == Init /\ [][Next]_<<cfg, done>>
(* the second molecule (if any) overlaps the first one's neighbourhood so that additivity is exercised *)
SecondP2(c) == <<c.p[1] + 2, c.p[2] - 2, c.p[3] + 4>>
Laws == /\ GridCoincident(cfg.p, cfg.R, cfg.shape)
        /\ \A s \in 1..6, p2 \in -4..4 : CentreWrongIffEven(p2, s)
        \* an interior molecule pastes every voxel exactly once
        /\ (cfg.p = <<2 * 4 + ((cfg.shape[1] - 1) % 2), 2 * 5 + ((cfg.shape[2] - 1) % 2), 2 * 6 + ((cfg.shape[3] - 1) % 2)>> =>
              Len(Paste(cfg.p, cfg.R, cfg.shape, TS)) = cfg.shape[1] * cfg.shape[2] * cfg.shape[3])
Emit == done => PrintT(ToJson([cfg |-> cfg, tshape |-> TS,
                               paste1 |-> Paste(cfg.p, cfg.R, cfg.shape, TS),
                               p_second |-> SecondP2(cfg),
                               paste2 |-> IF cfg.second = "none" THEN <<>> ELSE Paste(SecondP2(cfg), MId, cfg.shape, TS)]))
=============================================================================
