------------------------------- MODULE MC_C14 -------------------------------
EXTENDS Simulator
VARIABLES cfg, done
TS == <<10, 11, 12>>
Shapes == {<<3,3,3>>, <<4,4,4>>, <<3,4,5>>, <<6,5,4>>}
R90z == <<<<1,0,0>>,<<0,0,-1>>,<<0,1,0>>>>
R120 == <<<<0,1,0>>,<<0,0,1>>,<<1,0,0>>>>
R180y == <<<<-1,0,0>>,<<0,1,0>>,<<0,0,-1>>>>
(* grid-coincident positions: P2 has the parity of (shape-1) on every axis; classes per axis *)
AxisPos(s, n) == {x \in {2 * 4 + ((s - 1) % 2), 2 * 5 + ((s - 1) % 2), ((s - 1) % 2), -2 + ((s - 1) % 2), 2 * (n - 1) - ((s - 1) % 2), 2 * (n + 6) + ((s - 1) % 2), -2 * 8 + ((s - 1) % 2)} : TRUE}
PosClasses(shape) == {<<a, b, c>> : a \in {2 * 4 + ((shape[1] - 1) % 2), ((shape[1] - 1) % 2), 2 * (TS[1] + 6) + ((shape[1] - 1) % 2)},
                                    b \in {2 * 5 + ((shape[2] - 1) % 2), 2 * (TS[2] - 1) - ((shape[2] - 1) % 2)},
                                    c \in {2 * 6 + ((shape[3] - 1) % 2), -2 + ((shape[3] - 1) % 2), -2 * 9 + ((shape[3] - 1) % 2)}}
Mol(P2, R) == [P2 |-> P2, R |-> R]
Rots(shape) == IF shape = <<3,3,3>> THEN {MId, R90z, R120, R180y} ELSE {MId}
StdCases == UNION {[shape : {sh}, p : PosClasses(sh), R : Rots(sh), second : {"none", "same_component", "other_component"},
                 order : {0, 1, 3}, s2 : {1, 2, 4}, ts : {TS}] : sh \in Shapes}
(* volumes THINNER than the template along one axis: the template overhangs BOTH faces of that axis (a slab, a projection-like
   volume); <<shape, volume, P2>> with P2 grid-coincident *)
Thin == {<< <<4,4,4>>, <<2,11,12>>, <<1, 11, 13>> >>, << <<6,5,4>>, <<2,11,12>>, <<1, 10, 13>> >>, << <<6,5,4>>, <<3,11,12>>, <<3, 10, 13>> >>,
         << <<3,4,5>>, <<10,11,3>>, <<8, 11, 2>> >>, << <<3,3,3>>, <<10,1,12>>, <<8, 0, 12>> >>, << <<3,4,5>>, <<1,2,3>>, <<0, 1, 2>> >>}
ThinCases == UNION {[shape : {t[1]}, p : {t[3]}, R : Rots(t[1]), second : {"none", "same_component", "other_component"},
                     order : {0, 1, 3}, s2 : {1, 2}, ts : {t[2]}] : t \in Thin}
OverhangsBoth(c) == \E a \in 1..3 : \E n, m \in 1..Len(VoxSeq(c.shape)) :
                       /\ C2(c.p, c.R, c.shape, VoxSeq(c.shape)[n])[a] < 0
                       /\ C2(c.p, c.R, c.shape, VoxSeq(c.shape)[m])[a] >= 2 * c.ts[a]
Cases == StdCases \cup ThinCases
Init == cfg \in Cases /\ done = FALSE
Next == ~done /\ done' = TRUE /\ UNCHANGED cfg
Spec == Init /\ [][Next]_<<cfg, done>>
(* the second molecule (if any) overlaps the first one's neighbourhood so that additivity is exercised *)
SecondP2(c) == <<c.p[1] + 2, c.p[2] - 2, c.p[3] + 4>>
Laws == /\ GridCoincident(cfg.p, cfg.R, cfg.shape)
        /\ \A s \in 1..6, p2 \in -4..4 : CentreWrongIffEven(p2, s)
        \* an interior molecule pastes every voxel exactly once
        /\ (cfg.ts = TS /\ cfg.p = <<2 * 4 + ((cfg.shape[1] - 1) % 2), 2 * 5 + ((cfg.shape[2] - 1) % 2), 2 * 6 + ((cfg.shape[3] - 1) % 2)>> =>
              Len(Paste(cfg.p, cfg.R, cfg.shape, cfg.ts)) = cfg.shape[1] * cfg.shape[2] * cfg.shape[3])
        \* the thin-volume cases really overhang both faces of an axis, and still paste something
        /\ (cfg \in ThinCases => (OverhangsBoth(cfg) /\ Len(Paste(cfg.p, cfg.R, cfg.shape, cfg.ts)) > 0))
Emit == done => PrintT(ToJson([cfg |-> cfg, tshape |-> cfg.ts,
                               paste1 |-> Paste(cfg.p, cfg.R, cfg.shape, cfg.ts),
                               p_second |-> SecondP2(cfg),
                               paste2 |-> IF cfg.second = "none" THEN <<>> ELSE Paste(SecondP2(cfg), MId, cfg.shape, cfg.ts)]))
=============================================================================
