------------------------------ MODULE Sampling ------------------------------
(* Sub-volume sampling (acryo/_utils.py: prepare_affine, prepare_affine_cornersafe,
   make_slice_and_pad, compose_matrices; loader/_loader.py: construct_loading_tasks;
   backend/_api.py: rotated_crop).

   All coordinates are doubled so that half-pixel positions and even boxes stay integral:
     P2        = 2 * (molecule position in pixels)            (z,y,x)
     U2(k, s)  = 2k - (s-1) = 2 * (k - (s-1)/2)               offset of voxel k from the box centre
     C2(k)     = P2 + R * U2(k)                               2 * sampling coordinate   (R in Rot24)
   P layer (the property): voxel k shows the tomogram interpolated at C2(k)/2.
     grid point (all C2 even)                -> exactly that tomogram voxel, any order
     half-grid point, order 1                -> mean of the 2^h surrounding voxels
     otherwise                               -> only finiteness is specified
   I layer (the code): the crop window computed per axis and make_slice_and_pad. *)
EXTENDS Integers, Sequences, FiniteSets, TLC, SequencesExt, Zyx

Trunc2(v2) == IF v2 >= 0 THEN v2 \div 2 ELSE -((-v2) \div 2)     \* Python int(v2 / 2)
Even(n) == n % 2 = 0

U2(k, s) == 2 * k - (s - 1)
C2(P2, R, shape, k) == VAdd(P2, MApply(R, <<U2(k[1], shape[1]), U2(k[2], shape[2]), U2(k[3], shape[3])>>))
InBounds2(c2, tshape) == \A a \in 1..3 : c2[a] >= 0 /\ c2[a] <= 2 * (tshape[a] - 1)
OnGrid(c2) == \A a \in 1..3 : Even(c2[a])
(* neighbours of a (half-)grid coordinate: floor and ceil per axis *)
Nbrs(c2) == {<<z, y, x>> : z \in {c2[1] \div 2, (c2[1] + 1) \div 2},
                           y \in {c2[2] \div 2, (c2[2] + 1) \div 2},
                           x \in {c2[3] \div 2, (c2[3] + 1) \div 2}}
Lin(v, tshape) == (v[1] * tshape[2] + v[2]) * tshape[3] + v[3]

(* region in which the rule is guaranteed: the whole box if corner_safe; otherwise the voxels that
   survive the rotation, i.e. whose rotated offset R u still lies within the box extents
   (this contains the inscribed ball |u| <= (min(s)-1)/2 for every rotation) *)
MinS(shape) == IF shape[1] <= shape[2] /\ shape[1] <= shape[3] THEN shape[1] ELSE IF shape[2] <= shape[3] THEN shape[2] ELSE shape[3]
Abs(x) == IF x < 0 THEN -x ELSE x
Guaranteed(R, shape, cs, k) ==
  cs \/ LET ru == MApply(R, <<U2(k[1], shape[1]), U2(k[2], shape[2]), U2(k[3], shape[3])>>)
         IN \A a \in 1..3 : Abs(ru[a]) <= shape[a] - 1
InBall(shape, k) == LET u == <<U2(k[1], shape[1]), U2(k[2], shape[2]), U2(k[3], shape[3])>>
                    IN Dot(u, u) <= (MinS(shape) - 1) * (MinS(shape) - 1)

(* expected source of voxel k: sequence of linear tomogram indices (1 entry: exact voxel; 2^h
   entries: their mean, order 1 only), or <<>> when only finiteness is specified *)
Expect(P2, R, shape, tshape, order, cs, k) ==
  LET c2 == C2(P2, R, shape, k) IN
  IF ~Guaranteed(R, shape, cs, k) \/ ~InBounds2(c2, tshape) THEN <<>>
  ELSE IF OnGrid(c2) THEN <<Lin(<<c2[1] \div 2, c2[2] \div 2, c2[3] \div 2>>, tshape)>>
  ELSE IF order = 1 THEN SetToSortSeq({Lin(v, tshape) : v \in Nbrs(c2)}, LAMBDA a, b : a < b)
  ELSE <<>>

(* bounding box (doubled) of all sampling coordinates, per axis *)
Corner2(P2, R, shape, sg) == VAdd(P2, MApply(R, <<sg[1] * (shape[1] - 1), sg[2] * (shape[2] - 1), sg[3] * (shape[3] - 1)>>))
Corners2(P2, R, shape) == {Corner2(P2, R, shape, sg) : sg \in Signs3}
BoxOverlaps(P2, R, shape, tshape) ==
  \A a \in 1..3 : (\E c \in Corners2(P2, R, shape) : c[a] >= 0) /\ (\E c \in Corners2(P2, R, shape) : c[a] <= 2 * (tshape[a] - 1))
SomeVoxelInBounds(P2, R, shape, tshape) ==
  \E k \in (0..(shape[1]-1)) \X (0..(shape[2]-1)) \X (0..(shape[3]-1)) : InBounds2(C2(P2, R, shape, k), tshape)

(* ------------------------------------------------------------------ I layer *)
(* prepare_affine, one axis: margin = max(order, 1); x0 = int(c - s/2 - margin); x1 = int(x0 + s + 2*margin + 1)
   (the margin was `order` itself until the order-0 repair, see SamplingQ.tla) *)
Margin(order) == IF order = 0 THEN 1 ELSE order
WinLo(p2, s, order) == Trunc2(p2 - s - 2 * Margin(order))
WinHi(p2, s, order) == WinLo(p2, s, order) + s + 2 * Margin(order) + 1
(* make_slice_and_pad outcome per axis: "raise" or [lo, hi, padlo, padhi] *)
SliceAndPad(z0, z1, size) ==
  IF z0 >= size \/ z1 <= 0 THEN [raise |-> TRUE, lo |-> 0, hi |-> 0, padlo |-> 0, padhi |-> 0]
  ELSE [raise |-> FALSE, lo |-> IF z0 < 0 THEN 0 ELSE z0, hi |-> IF z1 > size THEN size ELSE z1,
        padlo |-> IF z0 < 0 THEN -z0 ELSE 0, padhi |-> IF z1 > size THEN z1 - size ELSE 0]
(* named historical deviation (acryo 0.4.16): strict comparisons let an abutting window through,
   producing an empty slice whose mean (the pad value) is NaN *)
Raises_v0416(z0, z1, size) == (z0 >= 0 /\ z0 > size) \/ (z1 <= size /\ z1 < 0)
AbutsOnly(z0, z1, size) == (z1 = 0 \/ z0 = size)
(* I => P, per axis: for the identity orientation the window contains every source voxel the rule
   needs (with the spline support `order` on both sides), and an empty intersection raises *)
WindowCovers(p2, s, order) ==
  LET lo == WinLo(p2, s, order) hi == WinHi(p2, s, order) IN
  \A k \in 0..(s - 1) : LET c2 == p2 + U2(k, s) IN
      /\ lo <= (c2 \div 2) - (order \div 2)             \* lowest sample the interpolant reads
      /\ ((c2 + 1) \div 2) + (order \div 2) <= hi - 1   \* highest sample the interpolant reads
EmptyRaises(p2, s, order, size) ==
  LET lo == WinLo(p2, s, order) hi == WinHi(p2, s, order) IN
  (hi <= 0 \/ lo >= size) => SliceAndPad(lo, hi, size).raise
V0416DiffersOnlyWhenAbutting(p2, s, order, size) ==
  LET lo == WinLo(p2, s, order) hi == WinHi(p2, s, order) IN
  (Raises_v0416(lo, hi, size) # SliceAndPad(lo, hi, size).raise) => AbutsOnly(lo, hi, size)
WindowRaises(P2, shape, tshape, order) ==
  \E a \in 1..3 : SliceAndPad(WinLo(P2[a], shape[a], order), WinHi(P2[a], shape[a], order), tshape[a]).raise
=============================================================================
