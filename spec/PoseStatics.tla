------------------------------ MODULE PoseStatics ------------------------------
(* Static pose facts of C11, in exact arithmetic: the axes of an orientation, reconstruction of
   the orientation from any two axes (single molecules and mixed batches), local sampling
   coordinates and affine matrices.  One state per case; TLC checks the laws and emits the
   expected observables for replay on the real Molecules API. *)
EXTENDS Integers, Sequences, FiniteSets, TLC, Json, Zyx

CONSTANTS Rots, BatchRots
VARIABLES cfg, done

(* FromAxes: the unique rotation whose z,y,x axes are the given (possibly unnormalised) vectors.
   Given two axes the third follows from right-handedness  z = y x x,  y = x x z,  x = z x y. *)
Third(kind, a, b) == CASE kind = "zy" -> CrossT(b, a)        \* x = z x y  (a = z, b = y)  ... see Handed below
                       [] kind = "zx" -> CrossT(b, a)        \* y = x x z  (a = z, b = x)
                       [] kind = "yx" -> CrossT(a, b)        \* z = y x x  (a = y, b = x)
(* the matrix whose columns are the axes z,y,x (numerators over d) is the rotation itself *)
ColsToRot(z, y, x, d) == Rot(<<<<z[1], y[1], x[1]>>, <<z[2], y[2], x[2]>>, <<z[3], y[3], x[3]>>>>, d)
AxesRoundTrip(R) == REq(ColsToRot(AxisZ(R), AxisY(R), AxisX(R), R.d), R)
(* handedness: each axis is the cross product of the other two in the order z = y x x *)
Handed(R) == /\ VScale(R.d, AxisZ(R)) = CrossT(AxisY(R), AxisX(R))
             /\ VScale(R.d, AxisY(R)) = CrossT(AxisX(R), AxisZ(R))
             /\ VScale(R.d, AxisX(R)) = CrossT(AxisZ(R), AxisY(R))

(* local sampling coordinates (doubled): 2*(p/scale) + R (2k - (shape-1)), numerator over R.d *)
Local2(R, p2, shape, k) == VAdd(VScale(R.d, p2), MApply(R.m, <<2*k[1] - (shape[1]-1), 2*k[2] - (shape[2]-1), 2*k[3] - (shape[3]-1)>>))
Corners(shape) == {<<a, b, c>> : a \in {0, shape[1]-1}, b \in {0, shape[2]-1}, c \in {0, shape[3]-1}}

Cases == [kind : {"single"}, R : Rots, R2 : {RId}] \cup [kind : {"batch"}, R : BatchRots, R2 : BatchRots]
Init == cfg \in Cases /\ done = FALSE
Next == ~done /\ done' = TRUE /\ UNCHANGED cfg
Spec == Init /\ [][Next]_<<cfg, done>>
Laws == IsRotation(cfg.R) /\ Handed(cfg.R) /\ AxesRoundTrip(cfg.R)
Shape == <<3, 4, 5>>
P2 == <<8, -6, 11>>              \* 2 * position in pixels
CornerSeq == <<<<0,0,0>>, <<0,0,4>>, <<0,3,0>>, <<2,0,0>>, <<2,3,4>>, <<1,1,2>>>>
Emit == done => PrintT(ToJson([cfg |-> cfg,
          axes |-> [z |-> AxisZ(cfg.R), y |-> AxisY(cfg.R), x |-> AxisX(cfg.R), d |-> cfg.R.d],
          axes2 |-> [z |-> AxisZ(cfg.R2), y |-> AxisY(cfg.R2), x |-> AxisX(cfg.R2), d |-> cfg.R2.d],
          local |-> [i \in 1..Len(CornerSeq) |-> [k |-> CornerSeq[i], c2n |-> Local2(cfg.R, P2, Shape, CornerSeq[i])]],
          p2 |-> P2, shape |-> Shape]))
=============================================================================
