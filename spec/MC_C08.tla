------------------------------- MODULE MC_C08 -------------------------------
(* One state per (shape, orientation, tilt pair, axis, kind); invariants are the statements of C08
   that the specification itself must satisfy; Emit prints the expected mask for replay. *)
EXTENDS Wedge
CONSTANTS MaxN, Thorough
VARIABLES cfg, done
Tans == {<<-1, 0>>, <<-2, 1>>, <<-1, 1>>, <<-1, 2>>, <<0, 1>>, <<1, 2>>, <<1, 1>>, <<2, 1>>, <<1, 0>>}
TanPairs == {p \in Tans \X Tans : Below(p[1], p[2])}
QuickPairs == {<<<<-2, 1>>, <<2, 1>>>>, <<<<-1, 1>>, <<1, 2>>>>, <<<<-1, 0>>, <<1, 1>>>>, <<<<0, 1>>, <<1, 0>>>>, <<<<-1, 2>>, <<1, 1>>>>}
RotQs == {RotOfQuat(q) : q \in {<<2,1,0,0>>, <<3,0,1,0>>, <<1,1,1,0>>, <<2,1,1,1>>, <<3,1,0,2>>, <<1,0,0,2>>}}
Shapes == {<<a, b, c>> : a \in 1..MaxN, b \in 1..MaxN, c \in 1..MaxN}
Cfgs == [shape : Shapes, R : Rot24 \cup RotQs, tp : IF Thorough THEN TanPairs ELSE QuickPairs, axis : {"y", "x"}, kind : {"single"}]
   \cup [shape : Shapes, R : {RId, RotOfQuat(<<2,1,1,1>>), Rot(<<<<0,1,0>>,<<0,0,1>>,<<1,0,0>>>>, 1)}, tp : QuickPairs, axis : {"y"}, kind : {"dual", "none"}]
Init == cfg \in Cfgs /\ done = FALSE
Next == ~done /\ done' = TRUE /\ UNCHANGED cfg
Spec == Init /\ [][Next]_<<cfg, done>>

XPair == <<<<-1, 1>>, <<1, 1>>>>          \* the x-tilt series of the dual-axis cases: (-45, 45)
M(c) == CASE c.kind = "single" -> Mask(c.shape, c.R, c.tp[1], c.tp[2], c.axis)
          [] c.kind = "none" -> [i \in 1..c.shape[1] |-> [j \in 1..c.shape[2] |-> [k \in 1..c.shape[3] |-> 1]]]
          [] c.kind = "dual" -> LET a == Mask(c.shape, c.R, c.tp[1], c.tp[2], "y") b == Mask(c.shape, c.R, XPair[1], XPair[2], "x")
                                IN [i \in 1..c.shape[1] |-> [j \in 1..c.shape[2] |-> [k \in 1..c.shape[3] |-> Union2(a[i][j][k], b[i][j][k])]]]
Idx(s) == (1..s[1]) \X (1..s[2]) \X (1..s[3])
DCKept == M(cfg)[1][1][1] = 1
(* symmetric under k -> -k wherever no coordinate sits on the Nyquist bin of an even axis; on
   Nyquist bins the definition itself is not symmetric (the bin stands for +N/2 and -N/2 at once) *)
Symmetric == \A x \in Idx(cfg.shape) : HasNyq(cfg.shape, x) \/
   M(cfg)[x[1]][x[2]][x[3]] = M(cfg)[Neg(x[1], cfg.shape[1])][Neg(x[2], cfg.shape[2])][Neg(x[3], cfg.shape[3])]
NyquistOnlyAsymmetry == TRUE
GridLemma == \A n \in 1..(2 * MaxN) : GridWrongOnlyForOdd(n)
Emit == done => PrintT(ToJson([cfg |-> cfg, mask |-> M(cfg), xpair |-> XPair]))
=============================================================================
