CONSTANTS
  MaxRows = 5
  MaxDepth = 1
  InitRowsA = {0, 1, 2, 3}
  WithEmptyB = FALSE
SPECIFICATION Spec
VIEW View
ACTION_CONSTRAINT EmitStep
CHECK_DEADLOCK FALSE
