-------------------------------- MODULE Motion --------------------------------
(* Rigid-motion algebra of Molecules (acryo/molecules/core.py: x/y/z, rotate_by*,
   rotate_by_rotvec_internal, translate, translate_internal, from_axes, affine_matrix,
   local_coordinates; _rotation.py: axes_to_rotator).

   A pose is [p |-> integer vector (z,y,x), R |-> rotation record of Zyx.tla].
     world rotation W:      R' = W o R,  p' = p          (rotate_by*, "with their position unchanged")
     internal rotation V:   R' = R o V,  p' = p          (rotate_by_rotvec_internal)
     world translation t:   p' = p + t
     internal translation:  p' = p + R t                 (numerator over R.d)
   Positions are kept as numerators over the common denominator den (initially 1) so that
   internal translations under rational rotations stay exact. *)
EXTENDS Integers, Sequences, FiniteSets, TLC, Json, Zyx

CONSTANTS MaxDepth, InitRots, WorldGens, InternalGens, Shifts

VARIABLES pose, orig, depth, hist, traj
vars == <<pose, orig, depth, hist, traj>>

Pose(p, den, R) == [p |-> p, den |-> den, R |-> R]

RotateWorld(q, W) == Pose(q.p, q.den, RMul(W, q.R))
RotateInternal(q, V) == Pose(q.p, q.den, RMul(q.R, V))
TranslateWorld(q, t) == Pose(VAdd(q.p, VScale(q.den, t)), q.den, q.R)
(* p/den + R.m t / R.d  =  (p * R.d + den * R.m t) / (den * R.d) *)
TranslateInternal(q, t) == Pose(VAdd(VScale(q.R.d, q.p), VScale(q.den, RApplyN(q.R, t))), q.den * q.R.d, q.R)

ApplyOp(q, op) ==
  CASE op.name = "rotate_world"       -> RotateWorld(q, op.rot)
    [] op.name = "rotate_internal"    -> RotateInternal(q, op.rot)
    [] op.name = "translate"          -> TranslateWorld(q, op.t)
    [] op.name = "translate_internal" -> TranslateInternal(q, op.t)

Ops == {[name |-> "rotate_world", rot |-> W, copy |-> c, via |-> v] : W \in WorldGens, c \in BOOLEAN, v \in {"rotator", "matrix", "quat", "rotvec"}}
  \cup {[name |-> "rotate_internal", rot |-> V, copy |-> c, via |-> "rotvec"] : V \in InternalGens, c \in BOOLEAN}
  \cup {[name |-> "translate", t |-> t, copy |-> c, via |-> ""] : t \in Shifts, c \in BOOLEAN}
  \cup {[name |-> "translate_internal", t |-> t, copy |-> c, via |-> ""] : t \in Shifts, c \in BOOLEAN}

Init == /\ pose \in {Pose(<<3, -2, 5>>, 1, R) : R \in InitRots}
        /\ orig = pose /\ depth = 0 /\ hist = <<>> /\ traj = <<>>
(* copy=True: the call returns a new object and the receiver keeps its pose; the session goes on
   with the returned object.  copy=False: the receiver itself is updated and returned. *)
Step(op) == /\ depth < MaxDepth
            /\ pose' = ApplyOp(pose, op)
            /\ orig' = pose                          \* what the receiver looked like before the call
            /\ depth' = depth + 1
            /\ hist' = Append(hist, op)
            /\ traj' = Append(traj, [pre |-> pose, post |-> ApplyOp(pose, op),
                                     receiver_after |-> IF op.copy THEN pose ELSE ApplyOp(pose, op)])
DoStep == \E op \in Ops : Step(op)
Next == DoStep
Spec == Init /\ [][Next]_vars
View == <<pose, depth>>

(* ------------------------------------------------------------- properties *)
Orthonormal == IsRotation(pose.R)
Handed == RightHanded(pose.R)
(* world rotations compose on the left and never move positions; internal ones on the right *)
LeftRightLaw == \A W \in WorldGens, V \in InternalGens :
   /\ REq(RotateInternal(RotateWorld(pose, W), V).R, RotateWorld(RotateInternal(pose, V), W).R)
   /\ RotateWorld(pose, W).p = pose.p /\ RotateInternal(pose, V).p = pose.p
(* an internal translation along the molecule's own axis is a world translation along that axis *)
InternalFrameLaw == \A t \in Shifts :
   LET a == TranslateInternal(pose, t) b == TranslateWorld(Pose(VScale(pose.R.d, pose.p), pose.den * pose.R.d, pose.R), <<0,0,0>>)
   IN a.p = VAdd(b.p, VScale(pose.den, RApplyN(pose.R, t)))
Laws == Orthonormal /\ Handed /\ LeftRightLaw /\ InternalFrameLaw

(* expected observables of a pose, exact: axes as numerators over R.d *)
Axes(q) == [z |-> AxisZ(q.R), y |-> AxisY(q.R), x |-> AxisX(q.R), d |-> q.R.d]
EmitProgram == depth = MaxDepth => PrintT(ToJson([init |-> traj[1].pre, prog |-> hist, traj |-> traj]))
EmitStep == PrintT(ToJson([init |-> pose, prog |-> <<hist'[Len(hist')]>>, traj |-> <<traj'[Len(traj')]>>]))
=============================================================================
