CONSTANTS
  Truths <- TruthsDef
  SearchSet <- SearchDef
  Perturbs <- PerturbsDef
  Scales2 = {1, 2, 4}
  Kinds = {"single", "batch", "group", "notemplate", "multi", "stack"}
  Models = {"ZNCC", "NCC", "PCC"}
  Orders = {1, 3}
SPECIFICATION Spec
INVARIANT PoseRecovered
INVARIANT FitShowsTemplate
INVARIANT FeaturesDescribePose
INVARIANT V0416WrongIffShiftMoved
INVARIANT Emit
CHECK_DEADLOCK FALSE
