----------------------------- MODULE SamplingMC -----------------------------
(* Model-checking instances for C02.
   Mode "axis":  every (position, box length, order, tomogram length) on one axis - the I-layer
                 lemmas about the crop window and make_slice_and_pad.
   Mode "cases": the 3-D configurations that are emitted for replay, with the expected source of
                 every voxel computed exactly. *)
EXTENDS Sampling, Json

CONSTANTS Mode, TShape, Boxes, Orders, Thorough
VARIABLES cfg, done
vars == <<cfg, done>>

TShapeDef == <<6, 7, 8>>
BoxesDef == {<<1,1,1>>, <<3,3,3>>, <<4,4,4>>, <<3,4,5>>, <<5,3,3>>, <<2,3,4>>}
BoxesThorough == BoxesDef \cup {<<5,5,5>>, <<2,2,2>>, <<4,3,3>>, <<3,3,6>>}

(* ---- axis mode ---- *)
AxisCfgs == [p2 : -30..50, s : 1..6, order : Orders, size : {1, 4, 7}]

(* ---- cases mode ---- *)
Interior == <<6, 6, 6>>                       \* 2 * voxel 3
FamilyRule ==                                  \* every orientation x box x position parity, interior
  [P2 : {<<Interior[1] + a, Interior[2] + b, Interior[3] + c>> : a \in {0, 1}, b \in {0, 1}, c \in {0, 1}},
   R : Rot24M, shape : Boxes, order : Orders, cs : BOOLEAN, fam : {"rule"}]
BoundaryRots == {MId, <<<<1,0,0>>,<<0,0,-1>>,<<0,1,0>>>>, <<<<0,1,0>>,<<0,0,1>>,<<1,0,0>>>>, <<<<-1,0,0>>,<<0,1,0>>,<<0,0,-1>>>>}
BoundaryBoxes == {<<3,3,3>>, <<4,4,4>>, <<3,4,5>>}
Sweep(a) == {x \in (-22)..(2 * TShape[a] + 20) : x <= 6 \/ x >= 2 * TShape[a] - 8}
SweepPos == UNION {{[i \in 1..3 |-> IF i = a THEN x ELSE Interior[i]] : x \in Sweep(a)} : a \in 1..3}
CornerPos == {<<z, y, x>> : z \in {0, -1, 2 * (TShape[1] - 1), 2 * TShape[1] - 1},
                            y \in {0, 2 * (TShape[2] - 1) + 1}, x \in {-1, 2 * (TShape[3] - 1)}}
FamilyBoundary ==
  [P2 : SweepPos \cup CornerPos, R : BoundaryRots, shape : BoundaryBoxes, order : Orders, cs : BOOLEAN, fam : {"boundary"}]
Cases == FamilyRule \cup FamilyBoundary

Init == /\ cfg \in (IF Mode = "axis" THEN AxisCfgs ELSE Cases) /\ done = FALSE
Finish == ~done /\ done' = TRUE /\ UNCHANGED cfg
Next == Finish
Spec == Init /\ [][Next]_vars

(* ---- axis lemmas ---- *)
AxisWindowCovers == Mode = "axis" => WindowCovers(cfg.p2, cfg.s, cfg.order)
AxisEmptyRaises == Mode = "axis" => EmptyRaises(cfg.p2, cfg.s, cfg.order, cfg.size)
AxisV0416 == Mode = "axis" => V0416DiffersOnlyWhenAbutting(cfg.p2, cfg.s, cfg.order, cfg.size)

(* ---- case-level expectations ---- *)
Voxels(shape) == (0..(shape[1]-1)) \X (0..(shape[2]-1)) \X (0..(shape[3]-1))
VoxSeq(shape) == [n \in 1..(shape[1] * shape[2] * shape[3]) |->
                    <<(n - 1) \div (shape[2] * shape[3]), ((n - 1) \div shape[3]) % shape[2], (n - 1) % shape[3]>>]
Outcome(c) ==
  IF SomeVoxelInBounds(c.P2, c.R, c.shape, TShape) THEN "ok"           \* must load; in-bounds voxels obey the rule
  ELSE "err_or_finite"                                                  \* nothing to show: raise, or finite fill
ExpectAll(c) == [n \in 1..Len(VoxSeq(c.shape)) |-> Expect(c.P2, c.R, c.shape, TShape, c.order, c.cs, VoxSeq(c.shape)[n])]

(* P-level sanity: with identity orientation, integer position, odd box, the expectation is the block *)
BlockLaw == (Mode = "cases" /\ cfg.R = MId /\ OnGrid(cfg.P2) /\ \A a \in 1..3 : cfg.shape[a] % 2 = 1) =>
  \A k \in Voxels(cfg.shape) :
     LET v == <<cfg.P2[1] \div 2 + k[1] - (cfg.shape[1] - 1) \div 2, cfg.P2[2] \div 2 + k[2] - (cfg.shape[2] - 1) \div 2,
                cfg.P2[3] \div 2 + k[3] - (cfg.shape[3] - 1) \div 2>>
     IN (\A a \in 1..3 : v[a] >= 0 /\ v[a] < TShape[a]) => Expect(cfg.P2, cfg.R, cfg.shape, TShape, cfg.order, TRUE, k) = <<Lin(v, TShape)>>
BallIsGuaranteed == Mode = "cases" => \A k \in Voxels(cfg.shape) : InBall(cfg.shape, k) => Guaranteed(cfg.R, cfg.shape, FALSE, k)
(* the I layer refines P at case level: whenever the loader's window raises, no voxel is in bounds *)
RaiseOnlyWhenNothingToShow == (Mode = "cases" /\ cfg.R = MId /\ ~cfg.cs) =>
  (WindowRaises(cfg.P2, cfg.shape, TShape, cfg.order) => ~SomeVoxelInBounds(cfg.P2, cfg.R, cfg.shape, TShape))

Emit == (Mode = "cases" /\ done) =>
  PrintT(ToJson([cfg |-> cfg, tshape |-> TShape, outcome |-> Outcome(cfg), expect |-> ExpectAll(cfg)]))
=============================================================================
