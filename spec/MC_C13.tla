------------------------------- MODULE MC_C13 -------------------------------
EXTENDS Serial
(* ---------------------------------------------------------------- generator *)
VARIABLES cfg, done
Suffixes == {".csv", ".txt", "", ".pq", ".parquet", ".dat", ".PARQUET", ".Pq"}
Cases == [n : 0..4, lattice : {"d4", "d6", "wide", "int"}, rots : {"rot24", "pi", "rotq", "tiny", "random"},
          feats : {"none", "ints", "mixed", "nulls", "special"}, prec : {-1, 2, 4, 6, 8, 9}, via : {"file", "csv", "parquet", "frame"},
          suffix : Suffixes, layout : {"c", "f"}, prep : {"none", "inplace"}]     \* layout: memory order of the position array handed to Molecules
Valid(c) == /\ (c.via = "frame" => c.suffix = "" /\ c.prec = -1)
            /\ (c.via = "parquet" => c.prec = -1 /\ c.suffix \in {".pq", ".x"} \cup {".parquet"})
            /\ (c.via = "csv" => c.suffix = ".csv")
            /\ (c.prec \in {8, 9} => c.via = "csv" /\ c.feats \in {"none", "mixed"} /\ c.layout = "c")     \* decimals beyond float32: a Float64 feature
            /\ (c.via = "file" => c.prec \in {-1, 4})
            \* prep = "inplace": the table is shifted in place before it is saved (exact formats only: the shifted coordinates are
            \* not on the decimal lattices of the csv cases)
            /\ (c.prep = "inplace" => (c.via \in {"parquet", "frame"} \/ (c.via = "file" /\ c.suffix \in {".pq", ".parquet"})) /\ c.n > 0 /\ c.layout = "c")       \* to_file uses the default precision (4)
Init == cfg \in {c \in Cases : Valid(c)} /\ done = FALSE
Next == ~done /\ done' = TRUE /\ UNCHANGED cfg
Spec == Init /\ [][Next]_<<cfg, done>>
(* laws of the acceptor: identical data is accepted, a half-unit-too-far value is not *)
AcceptorLaws ==
  /\ \A p \in {2, 4} : WithinPrec(1234567, 1234567 - (1234567 % Pow10(6 - p)), p) \/ WithinPrec(1234567, 1234567 - (1234567 % Pow10(6 - p)) + Pow10(6 - p), p)
  /\ ~WithinPrec(1234567, 1234567 + Pow10(4), 2)
  /\ FormatOf(".pq") = "parquet" /\ FormatOf(".csv") = "csv" /\ FormatOf("") = "csv"
Emit == done => PrintT(ToJson([cfg |-> cfg, format |-> IF cfg.via = "file" THEN FormatOf(cfg.suffix) ELSE cfg.via]))
=============================================================================
