CONSTANTS
  N = 3
  W = 2
SPECIFICATION Spec
INVARIANT ResultsIndependentOfOrder
INVARIANT AtMostW
INVARIANT EmitSchedule
CHECK_DEADLOCK FALSE
