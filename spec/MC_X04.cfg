CONSTANTS
  MaxDepth = 4
  MaxLen = 6
SPECIFICATION Spec
VIEW View
INVARIANT OrderIsSubmissionOrder
CHECK_DEADLOCK FALSE
