SPECIFICATION Spec
INVARIANT AssocLaw
INVARIANT ReflectLaw
INVARIANT GaussLaw
INVARIANT Emit
INVARIANT EmitUnits
CHECK_DEADLOCK FALSE
