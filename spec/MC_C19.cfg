SPECIFICATION Spec
INVARIANT AssocLaw
INVARIANT ReflectLaw
INVARIANT Emit
INVARIANT EmitUnits
CHECK_DEADLOCK FALSE
