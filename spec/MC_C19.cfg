SPECIFICATION Spec
INVARIANT AssocLaw
INVARIANT ReflectLaw
INVARIANT GaussLaw
INVARIANT AtomsLaw
INVARIANT Emit
INVARIANT EmitUnits
CHECK_DEADLOCK FALSE
