SPECIFICATION Spec
INVARIANT AssocLaw
INVARIANT ReflectLaw
INVARIANT GaussLaw
INVARIANT AtomsLaw
INVARIANT RescaleLaw
INVARIANT Emit
INVARIANT EmitUnits
CHECK_DEADLOCK FALSE
