------------------------------- MODULE Zyx -------------------------------
(* Exact rigid-motion algebra in acryo's z,y,x convention.

   A vector is a triple <<z, y, x>> of integers.  A rotation is a record
   [m |-> 3x3 integer matrix, d |-> positive integer]: the real matrix is m/d
   acting on (z,y,x) triples, exactly what scipy's Rotation does when acryo calls
   rot.apply on a z,y,x array.  Rot24 (d = 1) are the 24 proper signed permutation
   matrices; RotQ are rational rotations built from integer quaternions. *)
EXTENDS Integers, Sequences, FiniteSets, TLC

Vec(a, b, c) == <<a, b, c>>
Dot(a, b) == a[1]*b[1] + a[2]*b[2] + a[3]*b[3]
VAdd(a, b) == <<a[1]+b[1], a[2]+b[2], a[3]+b[3]>>
VSub(a, b) == <<a[1]-b[1], a[2]-b[2], a[3]-b[3]>>
VScale(k, a) == <<k*a[1], k*a[2], k*a[3]>>
VNeg(a) == VScale(-1, a)
(* ordinary cross product on triples *)
CrossT(a, b) == <<a[2]*b[3]-a[3]*b[2], a[3]*b[1]-a[1]*b[3], a[1]*b[2]-a[2]*b[1]>>

Row(M, i) == M[i]
Col(M, j) == <<M[1][j], M[2][j], M[3][j]>>
MApply(M, v) == <<Dot(M[1], v), Dot(M[2], v), Dot(M[3], v)>>
MMul(A, B) == [i \in 1..3 |-> [j \in 1..3 |-> Dot(A[i], Col(B, j))]]
MT(A) == [i \in 1..3 |-> [j \in 1..3 |-> A[j][i]]]
MId == <<<<1,0,0>>, <<0,1,0>>, <<0,0,1>>>>
Det(M) == Dot(M[1], CrossT(M[2], M[3]))
MScale(k, A) == [i \in 1..3 |-> [j \in 1..3 |-> k * A[i][j]]]

(* ---- the 24 proper signed permutation matrices ---- *)
Perms3 == {<<1,2,3>>, <<1,3,2>>, <<2,1,3>>, <<2,3,1>>, <<3,1,2>>, <<3,2,1>>}
Signs3 == {<<a,b,c>> : a \in {-1,1}, b \in {-1,1}, c \in {-1,1}}
SPM(p, s) == [i \in 1..3 |-> [j \in 1..3 |-> IF p[i] = j THEN s[i] ELSE 0]]
Rot24M == {M \in {SPM(p, s) : p \in Perms3, s \in Signs3} : Det(M) = 1}

Rot(M, d) == [m |-> M, d |-> d]
RId == Rot(MId, 1)
Rot24 == {Rot(M, 1) : M \in Rot24M}

(* ---- rational rotations from integer quaternions (w, a, b, c); a,b,c along z,y,x ---- *)
QNorm2(q) == q[1]*q[1] + q[2]*q[2] + q[3]*q[3] + q[4]*q[4]
QMat(q) == LET w == q[1] a == q[2] b == q[3] c == q[4] IN
  <<<<w*w+a*a-b*b-c*c, 2*(a*b-w*c),     2*(a*c+w*b)>>,
    <<2*(a*b+w*c),     w*w-a*a+b*b-c*c, 2*(b*c-w*a)>>,
    <<2*(a*c-w*b),     2*(b*c+w*a),     w*w-a*a-b*b+c*c>>>>
RotOfQuat(q) == Rot(QMat(q), QNorm2(q))

(* ---- algebra on rotations (reduced by the common divisor; compare with REq) ---- *)
RECURSIVE GCD(_, _)
AbsI(x) == IF x < 0 THEN -x ELSE x
GCD(a, b) == IF AbsI(b) = 0 THEN AbsI(a) ELSE GCD(AbsI(b), AbsI(a) % AbsI(b))
MGcd(M, d) == GCD(GCD(GCD(GCD(M[1][1], M[1][2]), GCD(M[1][3], M[2][1])), GCD(GCD(M[2][2], M[2][3]), GCD(M[3][1], M[3][2]))), GCD(M[3][3], d))
RNorm(A) == LET g == MGcd(A.m, A.d) IN Rot([i \in 1..3 |-> [j \in 1..3 |-> A.m[i][j] \div g]], A.d \div g)
RMul(A, B) == RNorm(Rot(MMul(A.m, B.m), A.d * B.d))
RInv(A) == Rot(MT(A.m), A.d)
REq(A, B) == MScale(B.d, A.m) = MScale(A.d, B.m)
(* R v as a pair <<numerator vector, denominator>> *)
RApplyN(A, v) == MApply(A.m, v)
IsRotation(A) == /\ A.d > 0
                 /\ MMul(A.m, MT(A.m)) = MScale(A.d * A.d, MId)
                 /\ Det(A.m) = A.d * A.d * A.d

(* acryo's axes of a molecule with rotation A (numerators over A.d) *)
AxisZ(A) == RApplyN(A, <<1,0,0>>)
AxisY(A) == RApplyN(A, <<0,1,0>>)
AxisX(A) == RApplyN(A, <<0,0,1>>)
(* right-handed in the documented convention: z = y x x (ordinary cross on triples) *)
RightHanded(A) == VScale(A.d, AxisZ(A)) = CrossT(AxisY(A), AxisX(A))

(* rotation class of a Rot24 element by its trace: 3 -> 0 deg, 1 -> 90, 0 -> 120, -1 -> 180 *)
Trace3(M) == M[1][1] + M[2][2] + M[3][3]
AngleClass(A) == CASE Trace3(A.m) = 3 * A.d -> 0 [] Trace3(A.m) = A.d -> 90
                   [] Trace3(A.m) = 0 -> 120 [] Trace3(A.m) = -A.d -> 180 [] OTHER -> -1
=============================================================================
