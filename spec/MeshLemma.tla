------------------------------ MODULE MeshLemma ------------------------------
(* Unbounded-integer version of the C05 search-range lemma, for Apalache
   (apalache-mc check --init=Init --inv=InRange --length=1 MeshLemma.tla).

   Units: U = 1/400 px.  m = limit (any non-negative integer number of U, i.e. the 1/400-px lattice,
   unbounded), p = integer arg-max cell (px), j = refined mesh index (1/20 px = 20 U) or PCC window
   offset.  Init constrains (m, p, j) exactly as AlignSearch.tla does (coarse cell inside the cropped
   landscape, refined point on the clipped mesh / inside the restricted PCC window); InRange is the
   property.  With `asCoded` = TRUE the mesh bounds are rounded to nearest as in acryo 0.4.16 and
   Apalache returns a counterexample (m = 10 U = 0.025 px, shift 0.05 px). *)
EXTENDS Integers

VARIABLES
  \* @type: Int;
  m,
  \* @type: Int;
  p,
  \* @type: Int;
  j,
  \* @type: Str;
  model,
  \* @type: Bool;
  asCoded

Max2(a, b) == IF a > b THEN a ELSE b
Min2(a, b) == IF a < b THEN a ELSE b
FloorDiv(a, b) == a \div b
CeilDiv(a, b) == -((-a) \div b)
RoundDiv(a, b) == (2 * a + b) \div (2 * b)
IntOf(x) == x \div 400
CeilOf(x) == CeilDiv(x, 400)
PccCoarse(x) == (x + 279) \div 400              \* floor(m + 0.699)  (0.699 px = 279.6 U)
Left == Max2(-400 * p - m, -400)
Right == Min2(-400 * p + m, 400)
Lo == IF asCoded THEN RoundDiv(Left, 20) ELSE CeilDiv(Left, 20)
Hi == IF asCoded THEN RoundDiv(Right, 20) ELSE FloorDiv(Right, 20)
PccLo == Max2(15 - FloorDiv(400 * p + m, 20), 0) - 15
PccHi == Min2(15 + FloorDiv(m - 400 * p, 20), 29) - 15
Init == /\ m \in Nat /\ p \in Int /\ j \in Int /\ asCoded \in BOOLEAN /\ model \in {"ZNCC", "FSC", "PCC"}
        /\ (model = "ZNCC" => (p <= IntOf(m) /\ -p <= IntOf(m)))
        /\ (model = "FSC" => (p <= CeilOf(m) /\ -p <= CeilOf(m)))
        /\ (model = "PCC" => (p <= PccCoarse(m) /\ -p <= PccCoarse(m)))
        /\ (model # "PCC" => (Lo <= j /\ j <= Hi))
        /\ (model = "PCC" => (PccLo <= j /\ j <= PccHi /\ ~asCoded))
Next == UNCHANGED <<m, p, j, model, asCoded>>
Total == 400 * p + 20 * j
InRange == (~asCoded) => (Total <= m /\ -Total <= m)
InRangeAsCoded == asCoded => (Total <= m /\ -Total <= m)
(* the search is never empty: for every admissible coarse cell there is a fine candidate *)
NonEmptyMesh == (model # "PCC" /\ ~asCoded) => Lo <= Hi
NonEmptyPcc == model = "PCC" => PccLo <= PccHi
=============================================================================
