------------------------------ MODULE Trace_Align ------------------------------
(* Trace validation of alignment events recorded on the real code (harness/recorder.py).

   AlignReturn  (every model.align return, anywhere):            C05 / C06
     NoRaise   the call did not raise
     Finite    shift and score are finite
     InRange   |shift_i| <= max_shifts_i (fixed point 1e-3 px, one unit of slack = rounding)
     Decode    with K > 1 rotations the reported rotation is the candidate iopt div T
     LabelOK   0 <= label < T*K
   PostAlign    (every write-back of alignment results to molecules): C01 / C05 loader clause
     Displacement   the molecule moved by the reported shift in its own frame: R^-1 (p' - p)/scale = shift
     Orientation    R' = R o q  (angle error <= 200 micro-radians)
     Features       align-d* = round(shift * scale, 2), align-d*rot = round(rotvec(q), 5), score copied
   LoaderAlign  (every loader / group align call):                 C05 loader clause
     LoaderInRange  |R^-1 (p' - p)| <= the caller's max_shifts along each molecule axis
     SameMolecules  the result has as many molecules as the input *)
EXTENDS Integers, Sequences, FiniteSets, TLC, TLCExt, Json, IOUtils
Tr == ndJsonDeserialize(IOEnv.TRACE_FILE)
VARIABLES l, bad
Abs(x) == IF x < 0 THEN -x ELSE x

NoRaise(e) == e.error = ""
Finite(e) == NoRaise(e) => e.finite
InRange(e) == (NoRaise(e) /\ e.finite) => \A i \in 1..3 : Abs(e.shift[i]) <= e.max_shifts[i] + 1
Decode(e) == (NoRaise(e) /\ e.K > 1 /\ e.qidx >= -1) => (e.qidx = -1 \/ e.qidx = e.label \div e.T)
LabelOK(e) == NoRaise(e) => (e.label >= 0 /\ e.label < e.T * e.K)
AlignClauses(e) == {c \in {"NoRaise", "Finite", "InRange", "Decode", "LabelOK"} :
    ~ CASE c = "NoRaise" -> NoRaise(e) [] c = "Finite" -> Finite(e) [] c = "InRange" -> InRange(e)
        [] c = "Decode" -> Decode(e) [] c = "LabelOK" -> LabelOK(e)}

RowDisp(r) == \A i \in 1..3 : Abs(r.d_int[i] - r.shift[i]) <= 2          \* 2e-3 px (float32 positions)
RowRot(r) == r.rot_err_urad <= 200
(* round(x, 2) of a value given at 1e-3: within 5 units (+1) of the original *)
RowFeat(r) == /\ \A i \in 1..3 : Abs(r.feat_shift[i] - r.shift_nm[i]) <= 6
              /\ \A i \in 1..3 : Abs(r.feat_rot[i] - r.rotvec[i]) <= 2
              /\ r.score_ok
PostClauses(e) == {c \in {"Displacement", "Orientation", "Features"} :
    ~ CASE c = "Displacement" -> \A i \in 1..Len(e.rows) : RowDisp(e.rows[i])
        [] c = "Orientation" -> \A i \in 1..Len(e.rows) : RowRot(e.rows[i])
        [] c = "Features" -> \A i \in 1..Len(e.rows) : RowFeat(e.rows[i])}
(* loader level (C05, last sentence): an aligned molecule is displaced by at most the CALLER's max_shifts (nm)
   along each of its own axes:  |d_int (px)| * scale <= max_shifts (nm), fixed point 1e-3 with 2 units of slack *)
RowWithin(r, e) == \A i \in 1..3 : Abs(r[i]) * e.scale_milli <= (e.max_shifts_nm[i] + 2) * 1000
LoaderClauses(e) == {c \in {"LoaderInRange", "SameMolecules"} :
    ~ CASE c = "LoaderInRange" -> \A i \in 1..Len(e.rows) : RowWithin(e.rows[i], e)
        [] c = "SameMolecules" -> e.same_count}
Clauses(e) == CASE e.kind = "AlignReturn" -> AlignClauses(e) [] e.kind = "PostAlign" -> PostClauses(e)
                [] e.kind = "LoaderAlign" -> LoaderClauses(e) [] OTHER -> {}

Init == l = 1 /\ bad = <<>>
Next == /\ l <= Len(Tr)
        /\ bad' = IF Clauses(Tr[l]) = {} THEN bad ELSE Append(bad, [i |-> l, why |-> Clauses(Tr[l])])
        /\ l' = l + 1
Spec == Init /\ [][Next]_<<l, bad>>
Done == l = Len(Tr) + 1 => PrintT(ToJson([verdict |-> "done", n |-> Len(Tr), bad |-> bad]))
==============================================================================
