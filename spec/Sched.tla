--------------------------------- MODULE Sched ---------------------------------
(* Shared state between concurrently executed per-molecule tasks
   (acryo/alignment/_base.py: TemplateMaskCache, _get_template_and_mask_input;
    acryo/backend/_api.py: Backend.__hash__/__eq__; acryo/_dask.py; loader/_base.py).

   Every task of one loader call runs  model.align -> _get_template_and_mask_input(backend)
   -> TemplateMaskCache.get(backend).  The cache is a dict keyed by backend objects; the atomic
   steps of `get` are the primitive dict operations (each one is atomic under the interpreter
   lock, the sequence is not):

     lookup     out = dict.get(key)                       hit -> return
     snapshot   (design "fixed")  vals = list(dict.values())       one atomic step
     iter_new   (design "v0416")  it = iter(dict.values())
     iter_next  (design "v0416")  next(it)   raises RuntimeError iff the dict changed size since iter_new
     insert     dict[key] = converted value
   Keys:  design "v0416": Backend has __hash__ but no __eq__, every Backend() object is its own key;
          design "fixed": backends of the same array module are equal, so tasks hit the entry made
          when the model was constructed.
   `keymode` says what the tasks pass: one backend object shared by all tasks of a call ("shared", what
   loader.align does), one object per task ("pertask", what model.align() without backend does), or a
   backend of another array module ("other", the conversion path).

   C10 (this part): NoSpuriousError - no interleaving makes a task fail; and every task returns the
   same template (ResultsAgree). *)
EXTENDS Integers, Sequences, FiniteSets, TLC, Json

CONSTANTS Workers, Design, KeyMode
VARIABLES keys, pc, snap, got, hist
vars == <<keys, pc, snap, got, hist>>

InitKey == 0                                            \* the Backend() made in BaseAlignmentModel.__init__
KeyOf(w) == IF Design = "fixed" THEN (IF KeyMode = "other" THEN 900 ELSE InitKey)        \* equal numpy backends collapse
            ELSE (IF KeyMode = "pertask" THEN w ELSE 100)
InCache(k) == \E i \in 1..Len(keys) : keys[i] = k
Init == /\ keys = <<InitKey>> /\ pc = [w \in Workers |-> "lookup"] /\ snap = [w \in Workers |-> 0]
        /\ got = [w \in Workers |-> "none"] /\ hist = <<>>
Rec(w, a) == hist' = Append(hist, [w |-> w, a |-> a])
Lookup(w) == /\ pc[w] = "lookup"
             /\ IF InCache(KeyOf(w)) THEN pc' = [pc EXCEPT ![w] = "done"] /\ got' = [got EXCEPT ![w] = "template"]
                ELSE pc' = [pc EXCEPT ![w] = IF Design = "fixed" THEN "snapshot" ELSE "iter_new"] /\ UNCHANGED got
             /\ UNCHANGED <<keys, snap>> /\ Rec(w, "lookup")
Snapshot(w) == /\ pc[w] = "snapshot" /\ pc' = [pc EXCEPT ![w] = "insert"] /\ UNCHANGED <<keys, snap, got>> /\ Rec(w, "snapshot")
IterNew(w) == /\ pc[w] = "iter_new" /\ snap' = [snap EXCEPT ![w] = Len(keys)]
              /\ pc' = [pc EXCEPT ![w] = "iter_next"] /\ UNCHANGED <<keys, got>> /\ Rec(w, "iter_new")
IterNext(w) == /\ pc[w] = "iter_next"
               /\ pc' = [pc EXCEPT ![w] = IF Len(keys) # snap[w] THEN "error" ELSE "insert"]
               /\ UNCHANGED <<keys, snap, got>> /\ Rec(w, "iter_next")
Insert(w) == /\ pc[w] = "insert"
             /\ keys' = IF InCache(KeyOf(w)) THEN keys ELSE Append(keys, KeyOf(w))
             /\ pc' = [pc EXCEPT ![w] = "done"] /\ got' = [got EXCEPT ![w] = "template"]
             /\ UNCHANGED snap /\ Rec(w, "insert")
Next == \E w \in Workers : Lookup(w) \/ Snapshot(w) \/ IterNew(w) \/ IterNext(w) \/ Insert(w)
Spec == Init /\ [][Next]_vars

NoSpuriousError == \A w \in Workers : pc[w] # "error"
ResultsAgree == \A w \in Workers : pc[w] = "done" => got[w] = "template"
CacheBounded == Len(keys) <= 1 + Cardinality(Workers)
Terminal == \A w \in Workers : pc[w] \in {"done", "error"}
(* schedules for deterministic replay: the sequence of workers that moved *)
EmitSchedule == Terminal => PrintT(ToJson([design |-> Design, keymode |-> KeyMode, schedule |-> [i \in 1..Len(hist) |-> hist[i].w],
                                           steps |-> [i \in 1..Len(hist) |-> hist[i].a],
                                           error |-> \E w \in Workers : pc[w] = "error"]))
=============================================================================
