--------------------------------- MODULE Fsc ---------------------------------
(* Fourier shell correlation (acryo/_utils.py: fourier_shell_correlation; loader/_base.py: fsc, fsc_with_halfmaps).

   Shells:  bin k belongs to shell floor(|f| / dfreq), |f|^2 = sum_a (Freq_a / N_a)^2, dfreq = a/b;
            decided in integers:  L^2 * D * a^2 <= A * b^2 < (L+1)^2 * D * a^2
            with A = sum_a Freq_a^2 prod_{b#a} N_b^2, D = prod_a N_a^2.  Bins whose ratio is an exact
            integer are "boundary" (floating point may put them on either side).
            The reported shells are 0 .. Lmax-1 where Lmax is the largest label (the outermost shell
            is not reported); frequency of shell L is (L + 1/2) * dfreq.
   Values:  FSC_L = Re sum F1 conj(F2) / sqrt(sum |F1|^2 sum |F2|^2) over the shell, computed exactly
            on Gaussian integers for box lengths in {1, 2, 4} (twiddles are powers of -i). *)
EXTENDS Integers, Sequences, FiniteSets, TLC, Json, FiniteSetsExt

Freq(i, n) == IF i <= (n - 1) \div 2 THEN i ELSE i - n
Sq(x) == x * x
AOf(k, s) == Sq(k[1]) * Sq(s[2]) * Sq(s[3]) + Sq(k[2]) * Sq(s[1]) * Sq(s[3]) + Sq(k[3]) * Sq(s[1]) * Sq(s[2])
DOf(s) == Sq(s[1]) * Sq(s[2]) * Sq(s[3])
Bins(s) == (0..(s[1]-1)) \X (0..(s[2]-1)) \X (0..(s[3]-1))
KOf(b, s) == <<Freq(b[1], s[1]), Freq(b[2], s[2]), Freq(b[3], s[3])>>
(* label of a bin for dfreq = df[1]/df[2]: the L with L^2 <= ratio < (L+1)^2, ratio = A b^2 / (D a^2) *)
Label(b, s, df) == LET num == AOf(KOf(b, s), s) * Sq(df[2]) den == DOf(s) * Sq(df[1])
                   IN CHOOSE L \in 0..64 : Sq(L) * den <= num /\ num < Sq(L + 1) * den
(* with power-of-two box lengths and a dyadic shell width every quantity above is an exact binary
   floating-point number (sqrt of a perfect square and the quotient are correctly rounded), so the
   floating-point label equals the exact one and nothing is uncertain *)
Pow2(n) == n \in {1, 2, 4, 8, 16, 32}
DyadicExact(s, df) == Pow2(s[1]) /\ Pow2(s[2]) /\ Pow2(s[3]) /\ Pow2(df[2])
OnBoundary(b, s, df) == ~DyadicExact(s, df) /\ LET num == AOf(KOf(b, s), s) * Sq(df[2]) den == DOf(s) * Sq(df[1])
                            L == Label(b, s, df) IN L > 0 /\ Sq(L) * den = num
LMax(s, df) == Max({Label(b, s, df) : b \in Bins(s)})
Shell(s, df, L) == {b \in Bins(s) : Label(b, s, df) = L}

(* ---- exact DFT over Gaussian integers, N_a in {1,2,4} ---- *)
RotI(c, e) == CASE e % 4 = 0 -> c [] e % 4 = 1 -> <<c[2], -c[1]>> [] e % 4 = 2 -> <<-c[1], -c[2]>> [] e % 4 = 3 -> <<-c[2], c[1]>>
CAdd(a, b) == <<a[1] + b[1], a[2] + b[2]>>
CSum(S, f(_)) == FoldSet(LAMBDA x, acc : CAdd(f(x), acc), <<0, 0>>, S)
ISum(S, f(_)) == FoldSet(LAMBDA x, acc : f(x) + acc, 0, S)
Expo(x, k, s) == (4 \div s[1]) * x[1] * k[1] + (4 \div s[2]) * x[2] * k[2] + (4 \div s[3]) * x[3] * k[3]
Dft(img, s) == [k \in Bins(s) |-> CSum(Bins(s), LAMBDA x : RotI(<<img[x], 0>>, Expo(x, k, s)))]
ReCross(F, G, S) == ISum(S, LAMBDA k : F[k][1] * G[k][1] + F[k][2] * G[k][2])
Power(F, S) == ISum(S, LAMBDA k : F[k][1] * F[k][1] + F[k][2] * F[k][2])
=============================================================================
