CONSTANTS
  MaxDepth = 4
SPECIFICATION Spec
VIEW View
PROPERTY OnlyItsField
CHECK_DEADLOCK FALSE
