----------------------------- MODULE Molecules -----------------------------
(* Table algebra of acryo.Molecules (acryo/molecules/core.py, _group.py, _cut.py).

   A molecule row is [uid |-> n, f |-> [column |-> Int]].  `uid` stands for the
   (position, orientation) pair of the molecule: the harness gives every uid its own
   position and Rot24 orientation, so "position, orientation and features stay together"
   is exactly "the uid and the feature record of a row stay together".
   A table is [cols |-> sequence of feature names, rows |-> sequence of rows].
   Feature values are integers; Null (-99) denotes a polars null.  The harness maps
   column "v" to a nullable float, "s" to a nullable string, "k"/"w" to integers.

   Every public operation is a pure operator returning either the unique result table or,
   for operations whose result the property leaves open (sample, sort ties, null placement,
   order inside groups), the SET of permitted results.  Err(kind) is the rejected outcome. *)
EXTENDS Integers, Sequences, FiniteSets, TLC, SequencesExt, FiniteSetsExt

Null == -99
Err(kind) == [err |-> kind]
IsErr(x) == "err" \in DOMAIN x

Table(cols, rows) == [cols |-> cols, rows |-> rows]
NRows(t) == Len(t.rows)
Uids(t) == [i \in 1..NRows(t) |-> t.rows[i].uid]
HasCol(t, c) == \E i \in 1..Len(t.cols) : t.cols[i] = c
ColSet(t) == {t.cols[i] : i \in 1..Len(t.cols)}
Val(r, c) == r.f[c]

Min2(a, b) == IF a < b THEN a ELSE b
Max2(a, b) == IF a > b THEN a ELSE b

(* -------------------------------------------------------------- selection *)
Head_(t, n) == Table(t.cols, SubSeq(t.rows, 1, Min2(n, NRows(t))))
Tail_(t, n) == Table(t.cols, SubSeq(t.rows, Max2(NRows(t) - n + 1, 1), NRows(t)))

(* predicates are named; a predicate that evaluates to null drops the row (polars) *)
Holds(pred, r) ==
  CASE pred.op = "ge"      -> Val(r, pred.col) # Null /\ Val(r, pred.col) >= pred.c
    [] pred.op = "eq"      -> Val(r, pred.col) # Null /\ Val(r, pred.col) = pred.c
    [] pred.op = "notnull" -> Val(r, pred.col) # Null
    [] pred.op = "isnull"  -> Val(r, pred.col) = Null
Filter_(t, pred) == IF ~HasCol(t, pred.col) THEN Err("ColumnNotFound")
                    ELSE Table(t.cols, SelectSeq(t.rows, LAMBDA r : Holds(pred, r)))

(* subset(spec): int / slice / index list / boolean mask (numpy semantics, 0-based) *)
SubsetInt(t, i) == IF i < 0 \/ i >= NRows(t) THEN Err("IndexError")
                   ELSE Table(t.cols, <<t.rows[i + 1]>>)
SubsetSlice(t, a, b) == Table(t.cols, SubSeq(t.rows, Min2(a, NRows(t)) + 1, Min2(b, NRows(t))))
(* slice(a, b, step), step >= 1: rows a, a+step, ... below min(b, n) *)
SubsetSliceStep(t, a, b, step) ==
  LET hi == Min2(b, NRows(t))
      idx == SelectSeq([i \in 1..NRows(t) |-> i - 1], LAMBDA i : i >= a /\ i < hi /\ (i - a) % step = 0)
  IN Table(t.cols, [j \in 1..Len(idx) |-> t.rows[idx[j] + 1]])
SubsetList(t, idx) == IF \E i \in 1..Len(idx) : idx[i] < 0 \/ idx[i] >= NRows(t) THEN Err("IndexError")
                      ELSE Table(t.cols, [i \in 1..Len(idx) |-> t.rows[idx[i] + 1]])
SubsetMask(t, mask) == IF Len(mask) # NRows(t) THEN Err("IndexError")
                       ELSE Table(t.cols, SelectSeq([i \in 1..NRows(t) |-> [r |-> t.rows[i], m |-> mask[i]]],
                                                    LAMBDA x : x.m))
MaskedRows(t, mask) == LET sel == SelectSeq([i \in 1..NRows(t) |-> i], LAMBDA i : mask[i])
                       IN Table(t.cols, [j \in 1..Len(sel) |-> t.rows[sel[j]]])

(* ----------------------------------------------- permitted-set operations *)
CountIn(s, x) == Cardinality({i \in 1..Len(s) : s[i] = x})
IsPermOf(a, b) == /\ Len(a) = Len(b)
                  /\ \A x \in {a[i] : i \in 1..Len(a)} \cup {b[i] : i \in 1..Len(b)} : CountIn(a, x) = CountIn(b, x)
RECURSIVE IdxPerms(_)
IdxPerms(S) == IF S = {} THEN {<<>>} ELSE UNION {{<<x>> \o p : p \in IdxPerms(S \ {x})} : x \in S}
Perms(s) == {[i \in 1..Len(s) |-> s[p[i]]] : p \in IdxPerms(1..Len(s))}

(* sort: any permutation whose non-null keys are monotone, with the nulls together at one end *)
SortedBy(rows, col, desc) ==
  LET n == Len(rows)
      key(i) == Val(rows[i], col)
      nulls == {i \in 1..n : key(i) = Null}
      mono == \A i, j \in (1..n) \ nulls : i < j => (IF desc THEN key(i) >= key(j) ELSE key(i) <= key(j))
      atend == \/ \A i \in nulls, j \in (1..n) \ nulls : i < j
               \/ \A i \in nulls, j \in (1..n) \ nulls : i > j
  IN mono /\ atend
SortAllowed(t, col, desc) ==
  IF ~HasCol(t, col) THEN {Err("ColumnNotFound")}
  ELSE {Table(t.cols, r) : r \in {p \in Perms(t.rows) : SortedBy(p, col, desc)}}

(* sample(n): any n distinct rows in any order; more than available is refused *)
Injections(n, m) == {q \in [1..n -> 1..m] : \A i, j \in 1..n : i # j => q[i] # q[j]}
SampleAllowed(t, n) ==
  IF n > NRows(t) THEN {Err("ShapeError")}
  ELSE {Table(t.cols, [i \in 1..n |-> t.rows[q[i]]]) : q \in Injections(n, NRows(t))}

(* ------------------------------------------------------------ combination *)
(* concatenation of feature schemas: union of columns in first-appearance order, nulls filled *)
UnionCols(c1, c2) == c1 \o SelectSeq(c2, LAMBDA c : \A i \in 1..Len(c1) : c1[i] # c)
Widen(r, cols) == [uid |-> r.uid,
                   f |-> [c \in {cols[i] : i \in 1..Len(cols)} |-> IF c \in DOMAIN r.f THEN r.f[c] ELSE Null]]
ConcatWith_(a, b) ==
  LET cols == IF NRows(a) = 0 /\ Len(a.cols) = 0 THEN b.cols
              ELSE IF NRows(b) = 0 /\ Len(b.cols) = 0 THEN a.cols ELSE UnionCols(a.cols, b.cols)
  IN Table(cols, [i \in 1..(NRows(a) + NRows(b)) |->
                     Widen(IF i <= NRows(a) THEN a.rows[i] ELSE b.rows[i - NRows(a)], cols)])
(* The feature schema of a concatenation with an EMPTY operand is not fixed by the property
   (the code keeps the non-empty operand's columns): both readings are permitted. *)
ConcatAllowed(a, b) == {ConcatWith_(a, b)} \cup (IF NRows(a) = 0 THEN {b} ELSE {}) \cup (IF NRows(b) = 0 THEN {a} ELSE {})
(* append (mutating): other may only carry a subset of self's feature columns *)
AppendAllowed(a, b) ==
  IF NRows(a) > 0 /\ ~(ColSet(b) \subseteq ColSet(a)) THEN {Err("ValueError")}
  ELSE ConcatAllowed(a, b)

(* ---------------------------------------------------------------- features *)
WithFeature_(t, newcol, srccol, delta) ==     \* with_features((pl.col(src) + delta).alias(new))
  IF ~HasCol(t, srccol) THEN Err("ColumnNotFound")
  ELSE LET cols == IF HasCol(t, newcol) THEN t.cols ELSE Append(t.cols, newcol)
       IN Table(cols, [i \in 1..NRows(t) |->
             [uid |-> t.rows[i].uid,
              f |-> [c \in {cols[j] : j \in 1..Len(cols)} |->
                       IF c = newcol THEN (IF Val(t.rows[i], srccol) = Null THEN Null ELSE Val(t.rows[i], srccol) + delta)
                       ELSE t.rows[i].f[c]]]])
DropFeature_(t, col) ==
  IF ~HasCol(t, col) THEN Err("ColumnNotFound")
  ELSE LET cols == SelectSeq(t.cols, LAMBDA c : c # col)
       IN Table(cols, [i \in 1..NRows(t) |->
             [uid |-> t.rows[i].uid, f |-> [c \in {cols[j] : j \in 1..Len(cols)} |-> t.rows[i].f[c]]]])

(* ------------------------------------------------------------------ groups *)
(* a grouping result is a sequence of [key, tab]; the property fixes only the partition *)
KeysOf(t, col) == {Val(t.rows[i], col) : i \in 1..NRows(t)}
GroupRows(t, col, key) == SelectSeq(t.rows, LAMBDA r : Val(r, col) = key)
IsGrouping(t, col, groups) ==
  /\ {groups[i].key : i \in 1..Len(groups)} = KeysOf(t, col)
  /\ \A i, j \in 1..Len(groups) : i # j => groups[i].key # groups[j].key
  /\ \A i \in 1..Len(groups) : IsPermOf(groups[i].tab.rows, GroupRows(t, col, groups[i].key))
(* canonical grouping: first-appearance order of keys, input order inside groups *)
FirstKeys(t, col) ==
  LET ks == [i \in 1..NRows(t) |-> Val(t.rows[i], col)]
  IN SelectSeq([i \in 1..NRows(t) |-> [i |-> i, k |-> ks[i]]],
               LAMBDA x : \A j \in 1..(x.i - 1) : ks[j] # x.k)
GroupBy_(t, col) == [g \in 1..Len(FirstKeys(t, col)) |->
                       [key |-> FirstKeys(t, col)[g].k, tab |-> Table(t.cols, GroupRows(t, col, FirstKeys(t, col)[g].k))]]
ConcatGroups(cols, groups) ==
  Table(cols, FoldLeft(LAMBDA acc, g : acc \o g.tab.rows, <<>>, groups))

(* cutby(col, bins): row goes to the interval (bins[b], bins[b+1]] that contains its value;
   values outside every interval and nulls belong to no interval *)
CutBin(bins, x) == IF x = Null THEN 0
                   ELSE LET bs == {b \in 1..(Len(bins) - 1) : bins[b] < x /\ x <= bins[b + 1]}
                        IN IF bs = {} THEN 0 ELSE CHOOSE b \in bs : TRUE
IsCutting(t, col, bins, groups) ==
  /\ \A i \in 1..Len(groups) : groups[i].bin \in 1..(Len(bins) - 1)
  /\ \A i, j \in 1..Len(groups) : i # j => groups[i].bin # groups[j].bin
  /\ \A b \in 1..(Len(bins) - 1) :
       LET want == SelectSeq(t.rows, LAMBDA r : CutBin(bins, Val(r, col)) = b)
           have == {i \in 1..Len(groups) : groups[i].bin = b}
       IN IF Len(want) = 0 THEN have = {}
          ELSE have # {} /\ IsPermOf(groups[CHOOSE i \in have : TRUE].tab.rows, want)

(* ------------------------------------------------------------------ laws *)
(* checked by TLC on every reachable table: these are the algebraic statements of C12 *)
RowsOf(t) == {t.rows[i] : i \in 1..NRows(t)}
WellFormed(t) == \A i \in 1..NRows(t) : DOMAIN t.rows[i].f = ColSet(t)
GroupLaw(t, col) == HasCol(t, col) =>
  /\ IsGrouping(t, col, GroupBy_(t, col))
  /\ IsPermOf(ConcatGroups(t.cols, GroupBy_(t, col)).rows, t.rows)
SelectionLaw(t) ==
  /\ \A n \in 0..(NRows(t) + 1) : Head_(t, n).rows \o Tail_(t, NRows(t) - Min2(n, NRows(t))).rows = t.rows
  /\ \A n \in 0..NRows(t) : \A s \in SampleAllowed(t, n) : RowsOf(s) \subseteq RowsOf(t) /\ NRows(s) = n
=============================================================================
