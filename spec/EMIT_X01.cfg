CONSTANTS
  MaxDepth = 1
SPECIFICATION Spec
VIEW View
ACTION_CONSTRAINT EmitStep
CHECK_DEADLOCK FALSE
