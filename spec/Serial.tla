-------------------------------- MODULE Serial --------------------------------
(* Molecules (de)serialisation (acryo/molecules/core.py: to_dataframe, to_csv, to_parquet, to_file,
   from_dataframe, from_csv, from_parquet, from_file).

   Numbers are integers in units of 10^-6 (positions, float features: value * 10^6); orientation
   differences are geodesic angles in micro-radians (the harness measures them between the stored
   and the reloaded rotation).  Precision None is written as -1.

   P layer:
     format      chosen by suffix: .pq/.parquet -> parquet, anything else -> csv
     columns     z, y, x, zvec, yvec, xvec followed by the feature columns in order
     parquet / data frame   positions and features exact; orientation to float32 rotvec precision
     csv         every float rounded to `prec` decimals (either neighbour at a tie) *)
EXTENDS Integers, Sequences, FiniteSets, TLC, Json

CoordCols == <<"z", "y", "x", "zvec", "yvec", "xvec">>
FormatOf(suffix) == IF suffix \in {".pq", ".parquet"} THEN "parquet" ELSE "csv"
(* suffixes that differ from the parquet ones only in letter case: the property does not say whether the dispatch is case
   sensitive, only that to_file and from_file agree (the file reloads); either format is accepted for them *)
CaseVariants == {".PARQUET", ".Parquet", ".PQ", ".Pq"}
FormatsAllowed(suffix) == IF suffix \in CaseVariants THEN {"parquet", "csv"} ELSE {FormatOf(suffix)}
Pow10(n) == CASE n = 0 -> 1 [] n = 1 -> 10 [] n = 2 -> 100 [] n = 3 -> 1000 [] n = 4 -> 10000 [] n = 5 -> 100000 [] n = 6 -> 1000000
Abs(x) == IF x < 0 THEN -x ELSE x

(* |got - orig| <= half a unit in the last kept decimal (+1 for the float32 cast of the reader) *)
(* q = the float32 quantum at that magnitude in micro-units (positions are float32) *)
WithinPrecQ(orig_u, got_u, prec, q) ==
  IF prec < 0 \/ prec >= 6 THEN Abs(got_u - orig_u) <= 1 + q
  ELSE 2 * Abs(got_u - orig_u) <= Pow10(6 - prec) + 2 + 2 * q
WithinPrec(orig_u, got_u, prec) == WithinPrecQ(orig_u, got_u, prec, 0)
(* orientation tolerance in micro-radians: float32 rotation vector (8 urad) or rounded rotvec *)
AngleTol(fmt, prec) == IF fmt # "csv" \/ prec < 0 \/ prec >= 6 THEN 8
                       ELSE Pow10(6 - prec) + 8          \* sqrt(3)/2 * 10^-prec rad < 10^-prec rad
(* a feature value: [t |-> "int"|"str"|"bool"|"float"|"null", x |-> Int] *)
FeatOk(o, g, fmt, prec) ==
  IF o.t = "float" THEN g.t = "float" /\ (IF fmt = "csv" THEN WithinPrec(o.x, g.x, prec) ELSE Abs(o.x - g.x) <= 1)
  ELSE o = g

(* a double-precision feature in [0, 2), in NANO units: csv keeps it to half a unit of the requested decimal also beyond the 6th
   (Pow10 up to 6: precisions 3..9), every other format exactly *)
HpOk(o_n, g_n, fmt, prec) ==
  IF fmt # "csv" \/ prec < 0 \/ prec >= 9 THEN Abs(g_n - o_n) <= 1
  ELSE IF prec < 3 THEN TRUE
  ELSE 2 * Abs(g_n - o_n) <= Pow10(9 - prec) + 2
RowOk(o, g, fmt, prec) ==
  /\ \A a \in 1..3 : IF fmt = "csv" THEN WithinPrecQ(o.pos[a], g.pos[a], prec, o.q[a]) ELSE o.pos[a] = g.pos[a]
  /\ g.angle_urad <= AngleTol(fmt, prec)
  /\ DOMAIN o.f = DOMAIN g.f /\ \A c \in DOMAIN o.f : FeatOk(o.f[c], g.f[c], fmt, prec)
  /\ HpOk(o.hp, g.hp, fmt, prec)

(* event: [via, suffix, prec, cols (features of the original), header (columns of the stored frame),
           stored_as ("csv"|"parquet"|"frame"), rows, back, err] *)
Accepts(e) ==
  /\ e.err = ""
  /\ (e.via = "file" => e.stored_as \in FormatsAllowed(e.suffix))
  /\ e.header = CoordCols \o e.cols
  /\ e.cols_back = e.cols                         \* the features come back in their original order
  /\ Len(e.back) = Len(e.rows)
  /\ \A i \in 1..Len(e.rows) : RowOk(e.rows[i], e.back[i], IF e.stored_as = "csv" THEN "csv" ELSE "exact", e.prec)
Why(e) == IF e.err # "" THEN "UnexpectedError"
          ELSE IF Accepts(e) THEN "ok"
          ELSE IF e.via = "file" /\ e.stored_as \notin FormatsAllowed(e.suffix) THEN "WrongFormatForSuffix"
          ELSE IF e.header # CoordCols \o e.cols \/ e.cols_back # e.cols THEN "ColumnLayout"
          ELSE IF Len(e.back) # Len(e.rows) THEN "RowCount"
          ELSE IF \E i \in 1..Len(e.rows) : \E a \in 1..3 : ~(IF e.stored_as = "csv" THEN WithinPrecQ(e.rows[i].pos[a], e.back[i].pos[a], e.prec, e.rows[i].q[a]) ELSE e.rows[i].pos[a] = e.back[i].pos[a]) THEN "Position"
          ELSE IF \E i \in 1..Len(e.rows) : e.back[i].angle_urad > AngleTol(IF e.stored_as = "csv" THEN "csv" ELSE "exact", e.prec) THEN "Orientation"
          ELSE IF \E i \in 1..Len(e.rows) : ~HpOk(e.rows[i].hp, e.back[i].hp, IF e.stored_as = "csv" THEN "csv" ELSE "exact", e.prec) THEN "DoublePrecisionFeature"
          ELSE "Features"

=============================================================================
