CONSTANTS
  MaxDepth = 1
  MaxRows = 6
  MaxImgs = 3
  SmallInit = FALSE
SPECIFICATION Spec
VIEW View
ACTION_CONSTRAINT EmitStep
CHECK_DEADLOCK FALSE
