------------------------------ MODULE SamplingQ ------------------------------
(* Sub-volume sampling at QUARTER-pixel positions, identity orientation (acryo/_utils.py: prepare_affine; the doubled lattice of
   Sampling.tla cannot tell "off the grid but not half way" from a tie).  Coordinates are quadrupled:
     P4 = 4 * (molecule position in pixels);   C4(k) = P4 + 2 * (2k - (s - 1))  = 4 * sampling coordinate of voxel k.
   P layer (the property, "the tomogram interpolated at the loader's spline order"):
     order 0: the nearest voxel, unless the coordinate is exactly half way (a tie: not claimed);
     order 1: the (tri)linear mix of floor and floor + 1 with weights (4 - w) / 4 and w / 4, w = C4 mod 4.
   I layer: the crop window [lo, hi) read from the tomogram, lo = int(c - s/2 - mg), hi = lo + s + 2 mg + 1 with a margin mg.
     An interpolator that treats every coordinate above the LAST voxel centre of its input as outside (scipy, mode="constant")
     needs  C4(s - 1) <= 4 (hi - 1); with mg = order (named historical rule) this fails for order 0 whenever the fractional part of
     c - s/2 exceeds 1/2 (HighFaceLostAtOrder0); the code's rule is mg = max(order, 1). *)
EXTENDS Integers, Sequences, FiniteSets, TLC, Json

Trunc4(v4) == IF v4 >= 0 THEN v4 \div 4 ELSE -((-v4) \div 4)          \* Python int(v4 / 4)
C4(p4, s, k) == p4 + 2 * (2 * k - (s - 1))
WinLo(p4, s, mg) == Trunc4(p4 - 2 * s - 4 * mg)
WinHi(p4, s, mg) == WinLo(p4, s, mg) + s + 2 * mg + 1
MarginCode(order) == IF order = 0 THEN 1 ELSE order
MarginHist(order) == order
(* what the interpolant reads: order 0 the coordinate itself must not exceed the last centre; order 1 also floor + 1 when w > 0 *)
HighestRead4(c4, order) == IF order = 0 THEN c4 ELSE IF c4 % 4 = 0 THEN c4 ELSE 4 * ((c4 \div 4) + 1)
LowestRead4(c4, order) == IF order = 0 THEN c4 ELSE 4 * (c4 \div 4)
WindowCoversQ(p4, s, order, mg) ==
  \A k \in 0..(s - 1) : LET c4 == C4(p4, s, k) IN c4 >= 0 =>        \* a sample below voxel 0 is outside the tomogram: finite fill
     /\ 4 * WinLo(p4, s, mg) <= LowestRead4(c4, order)
     /\ HighestRead4(c4, order) <= 4 * (WinHi(p4, s, mg) - 1)

(* P layer, one axis: the voxels a sample mixes, as <<index, weight in quarters>> *)
Mix1(c4, order) ==
  IF order = 0 THEN (IF c4 % 4 = 2 THEN <<>> ELSE <<<<(c4 + 2) \div 4, 4>>>>)
  ELSE IF c4 % 4 = 0 THEN <<<<c4 \div 4, 4>>>> ELSE <<<<c4 \div 4, 4 - (c4 % 4)>>, <<(c4 \div 4) + 1, c4 % 4>>>>
InBounds4(c4, n) == c4 >= 0 /\ c4 <= 4 * (n - 1)
=============================================================================
