----------------------------- MODULE MC_C05cases -----------------------------
(* Configurations replayed for C05: every model x data class x limit vector (on and off the 1/20-px
   grid, zero, sub-pixel, anisotropic, larger than the box) x box x rotation search x driver. *)
EXTENDS Integers, Sequences, FiniteSets, TLC, Json
VARIABLES cfg, done
Lat == {0, 2, 30, 33, 50, 72, 75, 100, 101, 149, 250, 300, 1200}
LimVecs == {<<a, a, a>> : a \in Lat} \cup {<<a, b, a>> : a \in Lat, b \in {0, 33, 75, 149, 300}} \cup {<<0, a, b>> : a \in {33, 100}, b \in {72, 250}}
Cases == [model : {"ZNCC", "NCC", "PCC", "FSC"}, lim : LimVecs, data : {"noise", "zero", "constant", "unrelated", "beyond"},
          box : {<<4,4,4>>, <<5,5,5>>, <<8,8,8>>, <<6,7,9>>}, rot : BOOLEAN,
          driver : {"model", "loader_scalar_or_tuple", "loader_nm", "loader_multi", "loader_list_nm", "loader_list_coarse", "group", "group_multi", "no_template", "group_no_template"}]
MaxLim(c) == IF c.lim[1] >= c.lim[2] /\ c.lim[1] >= c.lim[3] THEN c.lim[1] ELSE IF c.lim[2] >= c.lim[3] THEN c.lim[2] ELSE c.lim[3]
Valid(c) == /\ (c.model = "FSC" => MaxLim(c) <= 300)                  \* the FSC scan is cubic in the range
            /\ (MaxLim(c) = 1200 => c.box \in {<<4,4,4>>, <<5,5,5>>})
            /\ (c.driver # "model" => c.box \in {<<5,5,5>>, <<8,8,8>>} /\ c.data \in {"noise", "beyond"})
            /\ (c.rot => c.box # <<4,4,4>>)
Init == cfg \in {c \in Cases : Valid(c)} /\ done = FALSE
Next == ~done /\ done' = TRUE /\ UNCHANGED cfg
Spec == Init /\ [][Next]_<<cfg, done>>
Emit == done => PrintT(ToJson([cfg |-> cfg]))
=============================================================================
