------------------------------- MODULE Binning -------------------------------
(* Binned loaders (acryo/_utils.py: bin_image; loader/_loader.py, _batch.py: binning).

   P layer:  Bin_b(img)[j] = sum of img over the block b*j .. b*j+b-1 on every axis (an incomplete
             remainder is dropped); scale' = b*scale; pos' = pos - (b-1)/2*scale, i.e. the same
             physical point.  Consequence (BinIdentity): for a molecule on the binned grid,
             voxel k of a sub-volume of the binned loader is the block sum of the b-times larger
             sub-volume of the original loader at the same molecule.
   Positions are doubled (P2 = 2 * pixel position) so half pixels stay integral. *)
EXTENDS Integers, Sequences, FiniteSets, TLC, Json, Zyx

CONSTANTS Cases

(* one axis; q2 = 2 * (binned pixel position of the molecule) *)
BinnedLen(n, b) == n \div b
OrigP2(q2, b) == b * q2 + (b - 1)                   \* 2 * (b*q + (b-1)/2): the original pixel position
BinnedP2FromOrig(p2, b) == p2 - (b - 1)             \* 2 * (p - (b-1)/2) in original pixels; divide by b for binned pixels
(* binned voxel k (box length s) samples binned index J2/2 *)
J2(q2, k, s) == q2 + 2 * k - (s - 1)
(* original voxel m of a box of length b*s at the same molecule samples original index M2/2 *)
M2(p2, m, bs) == p2 + 2 * m - (bs - 1)
(* BinIdentity on one axis: block k of the large original box = the block that binned voxel k sums *)
AxisIdentity(q2, b, s) ==
  \A k \in 0..(s - 1) : \A t \in 0..(b - 1) :
     M2(OrigP2(q2, b), b * k + t, b * s) = b * J2(q2, k, s) + 2 * t
(* the documented molecule update is the inverse of OrigP2 *)
AxisPosUpdate(q2, b) == BinnedP2FromOrig(OrigP2(q2, b), b) = b * q2
(* binning composes: binning(b1) then binning(b2) is binning(b1 b2) - the same image length (the remainders dropped agree), the
   same blocks (block k of the second binning is the union of b2 consecutive blocks of the first) and the same position shift
   (p - (b1-1)/2 in original pixels, then - (b2-1)/2 in b1-pixels, is p - (b1 b2 - 1)/2) *)
ChainLaw == \A n \in 1..40, b1 \in 1..4, b2 \in 1..4 :
   /\ BinnedLen(BinnedLen(n, b1), b2) = BinnedLen(n, b1 * b2)
   /\ \A p2 \in {0, 7, 18} : BinnedP2FromOrig(p2, b1) - b1 * (b2 - 1) = BinnedP2FromOrig(p2, b1 * b2)

VARIABLES cfg, done
Init == cfg \in Cases /\ done = FALSE
Next == ~done /\ done' = TRUE /\ UNCHANGED cfg
Spec == Init /\ [][Next]_<<cfg, done>>

OnBinnedGrid(c) == \A a \in 1..3 : J2(c.q2[a], 0, c.s[a]) % 2 = 0
Identity == \A a \in 1..3 : AxisIdentity(cfg.q2[a], cfg.b, cfg.s[a]) /\ AxisPosUpdate(cfg.q2[a], cfg.b)

(* expected source block (inclusive original index ranges) of every binned voxel, row-major *)
VoxSeq(shape) == [n \in 1..(shape[1] * shape[2] * shape[3]) |->
                    <<(n - 1) \div (shape[2] * shape[3]), ((n - 1) \div shape[3]) % shape[2], (n - 1) % shape[3]>>]
RotK(c, k) ==   \* binned index sampled by voxel k under orientation R (Rot24, grid case only)
  LET u == <<2 * k[1] - (c.s[1] - 1), 2 * k[2] - (c.s[2] - 1), 2 * k[3] - (c.s[3] - 1)>>
      j2 == VAdd(c.q2, MApply(c.R, u))
  IN <<j2[1] \div 2, j2[2] \div 2, j2[3] \div 2>>
Block(c, k) == LET j == RotK(c, k) IN
  [a \in 1..3 |-> <<c.b * j[a], c.b * j[a] + c.b - 1>>]
InBinned(c, k) == LET j == RotK(c, k) IN \A a \in 1..3 : j[a] >= 0 /\ j[a] < BinnedLen(c.n[a], c.b)
Expect(c) == [i \in 1..Len(VoxSeq(c.s)) |-> IF InBinned(c, VoxSeq(c.s)[i]) THEN Block(c, VoxSeq(c.s)[i]) ELSE <<>>]
BlocksInside == done => \A i \in 1..Len(VoxSeq(cfg.s)) :
   LET e == Expect(cfg)[i] IN e # <<>> => \A a \in 1..3 : e[a][1] >= 0 /\ e[a][2] < cfg.n[a]
Emit == done => PrintT(ToJson([cfg |-> cfg,
                               binned_shape |-> [a \in 1..3 |-> BinnedLen(cfg.n[a], cfg.b)],
                               orig_p2 |-> [a \in 1..3 |-> OrigP2(cfg.q2[a], cfg.b)],
                               binned_p2_orig_px |-> [a \in 1..3 |-> BinnedP2FromOrig(OrigP2(cfg.q2[a], cfg.b), cfg.b)],
                               expect |-> Expect(cfg)]))
=============================================================================
