CONSTANTS
  MaxRows = 6
  MaxDepth = 6
  InitRowsA = {2, 3, 4, 6}
  WithEmptyB = FALSE
SPECIFICATION Spec
INVARIANT EmitProgram
CHECK_DEADLOCK FALSE
