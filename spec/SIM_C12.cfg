CONSTANTS
  MaxRows = 5
  MaxDepth = 6
  InitRowsA = {2, 3, 4}
  WithEmptyB = FALSE
SPECIFICATION Spec
INVARIANT EmitProgram
CHECK_DEADLOCK FALSE
