CONSTANTS
  MaxRows = 5
  MaxDepth = 6
  InitRowsA = {2, 3, 4}
SPECIFICATION Spec
INVARIANT EmitProgram
CHECK_DEADLOCK FALSE
