----------------------------- MODULE TblMachine -----------------------------
(* A user session on two Molecules objects A and B: every finite sequence of table
   operations (C12: "after any sequence of such operations").  The result of an
   operation becomes the new A (so that operations chain); `swap` exchanges A and B so
   that both operands acquire a history.  hist is observation only (hidden by VIEW). *)
EXTENDS TblOps, Json

CONSTANTS MaxRows,      \* bound on the size of any table
          MaxDepth,     \* bound on the number of operations
          InitRowsA,    \* sizes of the initial A tables
          WithEmptyB    \* whether the second operand may be an empty table

VARIABLES A, B, depth, hist, start
vars == <<A, B, depth, hist, start>>

(* initial rows: uid i has s = pattern(i), v = pattern(i) with a null; k is chosen freely
   so that duplicates and every order occur *)
VPat(i) == CASE i % 3 = 0 -> Null [] i % 3 = 1 -> 1 [] OTHER -> 2
SPat(i) == CASE i % 4 = 0 -> Null [] i % 4 = 1 -> 1 [] i % 4 = 2 -> 2 [] OTHER -> 1
Row0(i, k) == [uid |-> i, f |-> [k |-> k, v |-> VPat(i), s |-> SPat(i)]]
Cols0 == <<"k", "v", "s">>
(* a table WITHOUT feature columns (built with features=None): appending featured molecules to it must be rejected *)
BareTabs == IF 2 \in InitRowsA THEN {Table(<<>>, <<[uid |-> 1, f |-> <<>>], [uid |-> 2, f |-> <<>>]>>)} ELSE {}
InitTabs0 == UNION {{Table(Cols0, [i \in 1..n |-> Row0(i, ks[i])]) : ks \in [1..n -> 0..2]} : n \in InitRowsA}
(* B: two rows with a subset of A's columns (so that append is allowed) or an extra column *)
InitTabs == InitTabs0 \cup BareTabs
EmptyB == {Table(<<"k", "v">>, <<>>), Table(<<>>, <<>>)}
InitB0 == { Table(<<"k", "v">>, <<[uid |-> 11, f |-> [k |-> 1, v |-> 2]], [uid |-> 12, f |-> [k |-> 0, v |-> Null]]>>),
           Table(<<"k", "e">>, <<[uid |-> 13, f |-> [k |-> 2, e |-> 7]]>>) }

Preds == {[op |-> "ge", col |-> "k", c |-> 1], [op |-> "ge", col |-> "k", c |-> 2],
          [op |-> "notnull", col |-> "v", c |-> 0], [op |-> "isnull", col |-> "s", c |-> 0],
          [op |-> "eq", col |-> "s", c |-> 1], [op |-> "ge", col |-> "v", c |-> 2]}

Ops(a) ==
       {[name |-> "head", n |-> n] : n \in 0..3}
  \cup {[name |-> "tail", n |-> n] : n \in 0..3}
  \cup {[name |-> "filter", pred |-> p] : p \in {q \in Preds : HasCol(a, q.col)}}
  \cup {[name |-> "subset_int", i |-> i] : i \in 0..NRows(a)}
  \cup {[name |-> "subset_slice", a |-> x, b |-> y, step |-> st] : x \in 0..2, y \in 1..4, st \in 1..3}
  \cup {[name |-> "peek", q |-> q] : q \in {[name |-> "head", n |-> 2], [name |-> "tail", n |-> 2], [name |-> "filter", pred |-> [op |-> "ge", col |-> "k", c |-> 1]]}}
  \cup {[name |-> "subset_list", idx |-> idx] : idx \in {<<0>>, <<1, 0>>, <<2, 2>>, <<0, 2, 1>>}}
  \cup {[name |-> "subset_mask", mask |-> m] : m \in [1..NRows(a) -> BOOLEAN]}
  \cup {[name |-> "sort", col |-> c, desc |-> d] : c \in {"k", "v"} \cap ColSet(a), d \in BOOLEAN}
  \cup {[name |-> "sample", n |-> n] : n \in 0..Min2(NRows(a) + 1, 3)}
  \cup {[name |-> nm] : nm \in {"concat_with", "concat", "append", "append_extra"}}
  \cup {[name |-> "with_feature", new |-> "w", src |-> "k", delta |-> 10]}
  \cup {[name |-> "drop_feature", col |-> c] : c \in {"s", "w"} \cap ColSet(a)}
  \cup {[name |-> "group_by", col |-> c] : c \in {"k", "s"} \cap ColSet(a)}
  \cup {[name |-> "cutby", col |-> "k", bins |-> <<-1, 0, 2>>], [name |-> "cutby", col |-> "v", bins |-> <<0, 1, 2>>]}
  \cup {[name |-> "reject", kind |-> kd] : kd \in RejectKinds}

InitB == IF WithEmptyB THEN InitB0 \cup EmptyB ELSE InitB0
Init == /\ A \in InitTabs /\ B \in InitB /\ depth = 0 /\ hist = <<>> /\ start = [A |-> A, B |-> B]

Apply(op) == \E o \in Outcomes(op, A, B) :
               /\ depth < MaxDepth
               /\ IF o.err # "" \/ op.name = "peek" THEN A' = o.A ELSE A' = o.res
               /\ B' = o.B
               /\ NRows(A') <= MaxRows
               /\ depth' = depth + 1
               /\ hist' = Append(hist, op) /\ UNCHANGED start
Swap == /\ depth < MaxDepth /\ A' = B /\ B' = A /\ depth' = depth + 1 /\ hist' = Append(hist, [name |-> "swap"]) /\ UNCHANGED start
DoApply == \E op \in Ops(A) : Apply(op)
Next == DoApply \/ Swap
Spec == Init /\ [][Next]_vars
View == <<A, B, depth, start>>

(* ------------------------------------------------------------ properties *)
(* Every row anywhere is an original row: same uid => same original feature values *)
OrigV(u) == CASE u = 11 -> 2 [] u \in {12, 13, 14, 15} -> Null [] OTHER -> VPat(u)
OrigS(u) == IF u > 10 THEN Null ELSE SPat(u)
RowIntact(r) ==
  \* rows of a table that started without feature columns acquire nulls when they are concatenated with featured rows
  /\ ("v" \in DOMAIN r.f => (r.f["v"] = OrigV(r.uid) \/ (start.A.cols = <<>> /\ r.uid < 10 /\ r.f["v"] = Null)))
  /\ ("s" \in DOMAIN r.f => (r.f["s"] = OrigS(r.uid) \/ (start.A.cols = <<>> /\ r.uid < 10 /\ r.f["s"] = Null)))
  /\ ("e" \in DOMAIN r.f => r.f["e"] = IF r.uid = 13 THEN 7 ELSE Null)
  /\ ("w" \in DOMAIN r.f /\ "k" \in DOMAIN r.f => r.f["w"] \in {Null, r.f["k"] + 10})
RowsIntact == \A t \in {A, B} : \A i \in 1..NRows(t) : RowIntact(t.rows[i])
LengthsAgree == WellFormed(A) /\ WellFormed(B)
GroupsPartition == GroupLaw(A, "k") /\ (HasCol(A, "s") => GroupLaw(A, "s"))
Selection == SelectionLaw(A)
(* generator and acceptor describe the same relation *)
GenSound == \A op \in Ops(A) : \A o \in Outcomes(op, A, B) : Accepts(op, A, B, o)

(* emit one program per maximal behaviour (simulation mode) *)
EmitProgram == depth = MaxDepth => PrintT(ToJson([init |-> start, prog |-> hist]))
(* emit every explored (state, operation) pair once (exhaustive mode) *)
(* "query - mutate - query" sandwiches: a derived table is looked at and discarded, the receiver is then changed IN PLACE
   (append), and every operation follows.  This is the shape in which state hidden inside the object (a cache of derived
   data that the mutation forgets to drop) becomes observable; as an ACTION_CONSTRAINT it restricts TLC to these programs. *)
Sandwich == CASE depth = 0 -> hist'[1].name \in {"peek", "group_by", "cutby"}
              [] depth = 1 -> hist'[2].name = "append"
              [] OTHER -> TRUE
EmitSandwich == Sandwich /\ (depth' = MaxDepth => PrintT(ToJson([init |-> start, prog |-> hist'])))
(* "derive, then append to the result in place": two-step programmes from every initial table, with empty second operands too *)
AliasShape == CASE depth = 0 -> hist'[1].name \notin {"reject", "peek", "append", "append_extra", "group_by", "cutby"}
                [] OTHER -> hist'[2].name = "append_extra"
EmitAlias == AliasShape /\ (depth' = MaxDepth => PrintT(ToJson([init |-> start, prog |-> hist'])))
EmitStep == PrintT(ToJson([A |-> A, B |-> B, op |-> hist'[Len(hist')]]))
=============================================================================
