----------------------------- MODULE SimRegistry -----------------------------
(* The component registry of a TomogramSimulator (acryo/simulator.py: add_molecules, replace, copy, subset,
   collect_molecules, simulate) as a state machine.   EXTENDED COVERAGE (bin/check X03), not a listed property.

   A simulator is [reg |-> sequence of [name, comp], order, scale4] where comp identifies (molecules, image); the
   registry keeps insertion order, names are unique.  Two simulators are alive: the receiver `cur` and `other`
   (what a copy / replace / subset left behind, or was derived); operations on one never change the other.
     add(name, comp, overwrite)   name new: appended;  name present: error unless overwrite, then replaced IN PLACE
                                  (same position in the order)
     copy / replace(order|scale)  a new simulator with the same registry (independent of the old one)
     subset(names)                a new simulator with the named components, in the RECEIVER's order
     collect                      the molecules of all components, in registry order
     simulate                     the sum over the components of their own simulations (order of registration irrelevant) *)
EXTENDS Integers, Sequences, FiniteSets, TLC, Json, SequencesExt

CONSTANTS MaxDepth
VARIABLES cur, other, depth, hist
vars == <<cur, other, depth, hist>>

Names == {"a", "b", "c"}
Comps == 1..3                        \* three distinct (molecules, image) pairs of the harness
Sim(reg, order, scale4) == [reg |-> reg, order |-> order, scale4 |-> scale4]
NoSim == Sim(<<>>, -1, 0)
NamesOf(s) == {s.reg[i].name : i \in 1..Len(s.reg)}
IndexOf(s, n) == CHOOSE i \in 1..Len(s.reg) : s.reg[i].name = n

Add(s, n, c, ow) ==
  IF n \in NamesOf(s) THEN (IF ow THEN [s EXCEPT !.reg[IndexOf(s, n)] = [name |-> n, comp |-> c]] ELSE s)
  ELSE [s EXCEPT !.reg = Append(s.reg, [name |-> n, comp |-> c])]
AddFails(s, n, ow) == n \in NamesOf(s) /\ ~ow
Subset(s, ns) == [s EXCEPT !.reg = SelectSeq(s.reg, LAMBDA e : e.name \in ns)]

Ops(s) == {[name |-> "add", n |-> n, c |-> c, ow |-> ow] : n \in Names, c \in Comps, ow \in BOOLEAN}
     \cup {[name |-> "copy"], [name |-> "replace_order", v |-> 1], [name |-> "replace_scale", v |-> 2], [name |-> "swap"]}
     \cup {[name |-> "subset", ns |-> ns] : ns \in {{"a"}, {"b", "a"}, {"c", "a"}, {"a", "b", "c"}, {}}}
     \cup {[name |-> "collect"], [name |-> "simulate"]}

Do(op) ==
  /\ depth < MaxDepth
  /\ CASE op.name = "add" -> cur' = Add(cur, op.n, op.c, op.ow) /\ UNCHANGED other
       [] op.name = "copy" -> cur' = cur /\ other' = cur
       [] op.name = "replace_order" -> cur' = [cur EXCEPT !.order = op.v] /\ other' = cur
       [] op.name = "replace_scale" -> cur' = [cur EXCEPT !.scale4 = op.v] /\ other' = cur
       [] op.name = "subset" -> cur' = Subset(cur, op.ns) /\ other' = cur
       [] op.name = "swap" -> other # NoSim /\ cur' = other /\ other' = cur
       [] OTHER -> UNCHANGED <<cur, other>>
  /\ depth' = depth + 1 /\ hist' = Append(hist, op)
Init == cur = Sim(<<>>, 3, 4) /\ other = NoSim /\ depth = 0 /\ hist = <<>>
Next == \E op \in Ops(cur) : Do(op)
Spec == Init /\ [][Next]_vars

NamesUnique == \A s \in {cur, other} : \A i, j \in 1..Len(s.reg) : s.reg[i].name = s.reg[j].name => i = j
(* an operation on the receiver never changes the other simulator (only swap exchanges them) *)
OtherUntouched == [][hist'[Len(hist')].name \notin {"copy", "replace_order", "replace_scale", "subset", "swap"} => other' = other]_vars
RECURSIVE IsSubseqOf(_, _)
IsSubseqOf(s, t) == IF s = <<>> THEN TRUE ELSE IF t = <<>> THEN FALSE
                    ELSE IF Head(s) = Head(t) THEN IsSubseqOf(Tail(s), Tail(t)) ELSE IsSubseqOf(s, Tail(t))
SubsetKeepsOrder == \A ns \in SUBSET Names : IsSubseqOf(Subset(cur, ns).reg, cur.reg)
View == <<cur, other, depth>>
EmitProgram == depth = MaxDepth => PrintT(ToJson([prog |-> hist, final |-> [cur |-> cur, other |-> other]]))
=============================================================================
