------------------------------- MODULE TaskStream -------------------------------
(* Random streams of concurrently running per-molecule tasks (acryo/loader/_mock.py: simulate_noise).
   Task i must receive the draws of ITS stream: Value(seed_i, k) for its k-th draw.  In the design of the
   code every task owns a generator created from its seed (Design = "private").  The hazard design
   (Design = "shared": one process-global stream that each task re-seeds and then draws from, two separate
   steps) lets another task's Seed fall between a task's Seed and its Draw; TLC must reject it. *)
EXTENDS Integers, Sequences, FiniteSets, TLC
CONSTANTS N, W, Design
VARIABLES pc, stream, got, running
vars == <<pc, stream, got, running>>
Tasks == 1..N
SeedOf(i) == 100 * i
Value(s, k) == s + k                      \* k-th draw of a stream seeded with s (injective in (s, k) for k < 100)
\* stream[0] is the global stream, stream[i] the private one of task i; a stream is <<seed, number of draws so far>>
Which(i) == IF Design = "shared" THEN 0 ELSE i
Init == pc = [i \in Tasks |-> "new"] /\ stream = [s \in 0..N |-> <<0, 0>>] /\ got = [i \in Tasks |-> -1] /\ running = {}
Start(i) == pc[i] = "new" /\ Cardinality(running) < W /\ running' = running \cup {i} /\ pc' = [pc EXCEPT ![i] = "seed"] /\ UNCHANGED <<stream, got>>
Seed(i) == pc[i] = "seed" /\ stream' = [stream EXCEPT ![Which(i)] = <<SeedOf(i), 0>>] /\ pc' = [pc EXCEPT ![i] = "draw"] /\ UNCHANGED <<got, running>>
Draw(i) == /\ pc[i] = "draw"
           /\ LET s == stream[Which(i)] IN got' = [got EXCEPT ![i] = Value(s[1], s[2] + 1)] /\ stream' = [stream EXCEPT ![Which(i)] = <<s[1], s[2] + 1>>]
           /\ pc' = [pc EXCEPT ![i] = "done"] /\ running' = running \ {i}
Next == \E i \in Tasks : Start(i) \/ Seed(i) \/ Draw(i)
Spec == Init /\ [][Next]_vars
EachTaskDrawsItsOwnNoise == \A i \in Tasks : pc[i] = "done" => got[i] = Value(SeedOf(i), 1)
AtMostW == Cardinality(running) <= W
=============================================================================
