CONSTANTS
  Limits = {0}
  Models = {"ZNCC"}
SPECIFICATION Spec4
INVARIANT TruePeakReachable
INVARIANT Emit
CHECK_DEADLOCK FALSE
