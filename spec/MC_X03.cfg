CONSTANTS
  MaxDepth = 3
SPECIFICATION Spec
VIEW View
INVARIANT NamesUnique
INVARIANT SubsetKeepsOrder
PROPERTY OtherUntouched
CHECK_DEADLOCK FALSE
