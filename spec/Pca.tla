--------------------------------- MODULE Pca ---------------------------------
(* PCA classification bookkeeping (acryo/classification/pca.py: PcaClassifier; _dask_pca.py: DaskPCA;
   loader/_base.py: LoaderBase.classify).

   Exact family (block-orthogonal integer designs): image i = sum_j A[i][j] * indicator(B_j) with the
   columns of A zero-mean and mutually orthogonal and the voxel blocks B_j disjoint.  Then the centred
   data matrix is X = A B^T and its singular value decomposition is explicit:
        sigma_j^2 = |B_j| * sum_i A[i][j]^2,    component j = indicator(B_j) / sqrt|B_j|  (up to sign),
        projection of image i on component j:   A[i][j] * sqrt|B_j|   (squared: A[i][j]^2 * |B_j|)
   unique whenever the sigma_j^2 are pairwise distinct.  A mask restricts every block to the voxels
   where the mask is 1.  Nothing here depends on how the stack is cut into chunks: a chunking is any
   partition of the rows (and, separately, of the voxels) and the result must be the same for all.

   classify: adds exactly one integer label per molecule, in molecule order, and changes nothing else;
   images from clearly separated groups get different labels. *)
EXTENDS Integers, Sequences, FiniteSets, TLC, Json, FiniteSetsExt

ISum(S, f(_)) == FoldSet(LAMBDA x, acc : f(x) + acc, 0, S)
Col(A, j) == [i \in 1..Len(A) |-> A[i][j]]
DotV(u, v) == ISum(1..Len(u), LAMBDA i : u[i] * v[i])
ZeroMean(A, J) == \A j \in 1..J : ISum(1..Len(A), LAMBDA i : A[i][j]) = 0
Orthogonal(A, J) == \A j, k \in 1..J : j # k => DotV(Col(A, j), Col(A, k)) = 0
Sigma2(A, sizes, j) == sizes[j] * DotV(Col(A, j), Col(A, j))
Distinct(A, sizes, J) == \A j, k \in 1..J : j # k => Sigma2(A, sizes, j) # Sigma2(A, sizes, k)
(* soft masks: voxel v of block j carries the weight m_v in {1/2, 1}; the masked block vector is w_j = m restricted to B_j, so
        sigma_j^2 = |w_j|^2 * sum_i A[i][j]^2,   component j = w_j / |w_j|,   projection^2 = A[i][j]^2 * |w_j|^2,
   with |w_j|^2 = (#half)/4 + (#one).  W4 = 4 |w_j|^2 keeps everything integral; the mask enters the data exactly once
   (fit AND transform see mask * image). *)
W4(sizes, soft, j) == IF soft THEN (sizes[j] \div 2) + 4 * (sizes[j] - (sizes[j] \div 2)) ELSE 4 * sizes[j]
Sigma2x4(A, sizes, soft, j) == W4(sizes, soft, j) * DotV(Col(A, j), Col(A, j))
DistinctW(A, sizes, soft, J) == \A j, k \in 1..J : j # k => Sigma2x4(A, sizes, soft, j) # Sigma2x4(A, sizes, soft, k)
RankW(A, sizes, soft, J, j) == 1 + Cardinality({k \in 1..J : Sigma2x4(A, sizes, soft, k) > Sigma2x4(A, sizes, soft, j)})
(* order of the components: by decreasing sigma^2 *)
Rank(A, sizes, J, j) == 1 + Cardinality({k \in 1..J : Sigma2(A, sizes, k) > Sigma2(A, sizes, j)})
(* all ways to cut n rows into consecutive chunks *)
RECURSIVE Compositions(_)
Compositions(n) == IF n = 0 THEN {<<>>} ELSE UNION {{<<k>> \o c : c \in Compositions(n - k)} : k \in 1..n}
=============================================================================
