SPECIFICATION Spec
INVARIANT Law
INVARIANT AcceptorComplete
INVARIANT Emit
CHECK_DEADLOCK FALSE
