------------------------------- MODULE MC_C04 -------------------------------
(* C04: a sub-volume that is the template displaced by d, |d_i| <= m_i, must come back as
   shift = d (within tol), identity rotation, normalised score >= 0.9.
   Units 1/100 px; d on the 1/4-px lattice over the CLOSED box [-m, m]^3 (faces, edges and corners
   included).  For every case the I layer (AlignSearch.tla) gives, per axis, the distance from d to the
   nearest shift the search can return at all: a gap above the tolerance is a candidate violation that
   the replay must confirm on the real code. *)
EXTENDS AlignSearch, Sequences, Json
VARIABLES cfg, done
LimVecs == {<<100,100,100>>, <<150,150,150>>, <<200,200,200>>, <<300,300,300>>, <<100,250,150>>, <<190,175,190>>}
(* displacements: all 8 corners of the closed box, the 6 face centres, and interior quarter-pixel points *)
DsFor(lv) == {<<a * lv[1], b * lv[2], c * lv[3]>> : a \in {-1, 1}, b \in {-1, 1}, c \in {-1, 1}}
        \cup {<<lv[1], 0, 0>>, <<-lv[1], 0, 25>>, <<0, lv[2], 0>>, <<50, -lv[2], 0>>, <<0, 0, lv[3]>>, <<0, -75, -lv[3]>>}
        \cup {<<0, 0, 0>>, <<25, -50, 75>>, <<-75, 25, 50>>, <<100, -100, 0>>, <<lv[1] - 25, 25 - lv[2], lv[3] - 50>>, <<-25, 75, -100>>}
(* search ranges at or beyond half the box (and beyond the whole box on some axes): the particle itself moves little *)
WideLims == {<<600, 800, 1300>>, <<1600, 650, 700>>}
DsWide == {<<0, 0, 0>>, <<25, -50, 75>>, <<-75, 25, 50>>, <<100, -100, 0>>, <<-150, -125, -100>>, <<-25, 75, -100>>, <<-200, 150, -175>>, <<-100, -200, -50>>}
Boxes == {<<12,12,12>>, <<13,13,13>>, <<12,13,14>>, <<13,16,12>>}
Cases == UNION {[model : {"ZNCC", "NCC", "PCC", "FSC"}, lim : {lv}, d : DsFor(lv),
                 box : Boxes, mask : {"none", "soft"}, cutoff : {0, 40}, tilt : {"none", "id", "rotq"}, bg : {0, 2, 100}] : lv \in LimVecs}
         \cup [model : {"ZNCC", "NCC", "PCC"}, lim : WideLims, d : DsWide, box : Boxes, mask : {"none"}, cutoff : {0}, tilt : {"none"}, bg : {0}]
Valid(c) == (c.model = "FSC" => c.lim \in {<<100,100,100>>, <<150,150,150>>, <<200,200,200>>, <<100,250,150>>})
            /\ \A a \in 1..3 : c.d[a] <= c.lim[a] /\ -c.d[a] <= c.lim[a]
            \* bg: the density sits on a constant background (same in template and sub-volume); plain cases only
            /\ (c.bg # 0 => (c.mask = "none" /\ c.cutoff = 0 /\ c.tilt = "none"))
            \* a background fifty times the density (data that were never mean-subtracted): two boxes, interior and edge displacements
            /\ (c.bg = 100 => (c.box \in {<<13,13,13>>, <<12,13,14>>} /\ c.lim \in {<<200,200,200>>, <<100,250,150>>}))
            \* with a soft mask the displaced particle must stay mostly inside the mask (radius >= 5 px): |d| <= 3.5 px
            /\ (c.mask = "soft" => c.d[1] * c.d[1] + c.d[2] * c.d[2] + c.d[3] * c.d[3] <= 350 * 350)
Tol(c) == IF c.model = "FSC" \/ c.mask = "soft" THEN 50 ELSE 10
Gap(mm, mdl, x) == LET R == Reachable(mm, mdl) IN
   CHOOSE g \in 0..(mm + 100) : (\E r \in R : r - x = g \/ x - r = g) /\ \A r \in R : (r - x >= g \/ x - r >= g)
Init4 == cfg \in {c \in Cases : Valid(c)} /\ done = FALSE /\ m = 0 /\ model = "ZNCC" /\ pc = "x" /\ p = 0 /\ j = 0
Next4 == ~done /\ done' = TRUE /\ UNCHANGED <<cfg, m, model, pc, p, j>>
Spec4 == Init4 /\ [][Next4]_<<cfg, done, m, model, pc, p, j>>
Gaps(c) == <<Gap(c.lim[1], c.model, c.d[1]), Gap(c.lim[2], c.model, c.d[2]), Gap(c.lim[3], c.model, c.d[3])>>
(* ZNCC/NCC/FSC can always return a point within half a mesh step of the truth *)
TruePeakReachable == (cfg.model # "PCC") => \A a \in 1..3 : Gaps(cfg)[a] <= 2
Emit == done => PrintT(ToJson([cfg |-> cfg, tol |-> Tol(cfg), gap |-> Gaps(cfg)]))
=============================================================================
