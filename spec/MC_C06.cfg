CONSTANTS
  MaxT = 3
  MaxK = 4
  Shifts = {"0", "a", "b", "c"}
  Drivers = {"model", "model_range", "loader_stack", "loader_multi", "loader_range", "group_list", "group_map", "group_map_hetero", "group_map_factory"}
  Models = {"ZNCC", "NCC", "PCC"}
  IncludeBig = TRUE
SPECIFICATION Spec
INVARIANT TypeOK
INVARIANT CandidateOrder
INVARIANT Correct
INVARIANT DecodeBijective
INVARIANT V0416WrongExactlyWhen
INVARIANT SharedCountWrongExactlyWhen
INVARIANT Emit
CHECK_DEADLOCK FALSE
