CONSTANTS
  Mode = "cases"
  TShape <- TShapeDef
  Boxes <- BoxesDef
  Orders = {0, 1, 3}
  Thorough = FALSE
SPECIFICATION Spec
INVARIANT BlockLaw
INVARIANT BallIsGuaranteed
INVARIANT RaiseOnlyWhenNothingToShow
INVARIANT Emit
CHECK_DEADLOCK FALSE
