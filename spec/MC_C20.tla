------------------------------- MODULE MC_C20 -------------------------------
EXTENDS Picker
CONSTANTS MaxN, MaxD
VARIABLES cfg, done
(* all partitions of n into at most 3 chunks, each at least d (dask merges smaller ones) *)
Parts(n, d) == {<<n>>} \cup {<<a, n - a>> : a \in {y \in 1..(n-1) : y >= d /\ n - y >= d}}
                      \cup {<<a, b, n - a - b>> : a \in {y \in 1..(n-2) : y >= d}, b \in {y \in 1..(n-2) : y >= d}}
PartsOk(n, d) == {p \in Parts(n, d) : \A i \in 1..Len(p) : p[i] >= d}
Init == cfg \in {c \in [n : 6..MaxN, d : 1..MaxD] : c.d <= c.n} /\ done = FALSE
Next == ~done /\ done' = TRUE /\ UNCHANGED cfg
Spec == Init /\ [][Next]_<<cfg, done>>
ExactlyOnceAtTruePosition == \A c \in PartsOk(cfg.n, cfg.d) : \A x \in 0..(cfg.n - 1) :
     ReportCount(c, cfg.d, x) = 1 /\ Reported(c, cfg.d, x) = {x}
V0416Characterised == \A c \in PartsOk(cfg.n, cfg.d) : \A x \in 0..(cfg.n - 1) :
     /\ (Len(c) = 1 => Reported_v0416(c, cfg.d, x) = {x})
     /\ (ReportCount_v0416(c, cfg.d, x) > 1 <=> \E i \in 1..(Len(c) - 1) : x >= StartOf(c, i + 1) - cfg.d /\ x < StartOf(c, i + 1) + cfg.d)
     /\ (\A i \in 2..Len(c) : (Sees(c, cfg.d, i, x) => (Local(c, cfg.d, i, x) + StartOf(c, i) + 2 * cfg.d * (i - 1) - cfg.d) # x))
(* whatever dask merges, the repaired rule is exact on the merged partition; trimming/offsetting with the INPUT chunks is
   wrong for some particle as soon as a merge happened *)
SmallParts(n, d) == {p \in {<<a, n - a>> : a \in 1..(n-1)} \cup {q \in {<<a, b, n - a - b>> : a \in 1..(n-2), b \in 1..(n-2)} : q[3] >= 1} :
                       \E i \in 1..Len(p) : p[i] < d}
MergeExact == \A c \in SmallParts(cfg.n, cfg.d) : \A m \in LegalMerges(c, cfg.d) : \A x \in 0..(cfg.n - 1) :
     ReportCount(m, cfg.d, x) = 1 /\ Reported(m, cfg.d, x) = {x}
InputChunksHazard == \A c \in SmallParts(cfg.n, cfg.d) : \A m \in LegalMerges(c, cfg.d) :
     (m # c /\ Len(m) > 1) => \E x \in 0..(cfg.n - 1) : ReportedFromInputChunks(c, m, cfg.d, x) # {x}
MergesExist == (cfg.d >= 2 /\ cfg.n >= 3 * cfg.d) => \E c \in SmallParts(cfg.n, cfg.d) : \E m \in LegalMerges(c, cfg.d) : m # c /\ Len(m) > 1
(* an axis shorter than the overlap depth: the depth used on that axis is the extent itself (pad and un-pad by the SAME amount) *)
ClipDepth(n, d) == IF d > n THEN n ELSE d
ThinAxis == \A n \in 1..6, d \in 1..9 : \A x \in 0..(n - 1) :
     ReportCount(<<n>>, ClipDepth(n, d), x) = 1 /\ Reported(<<n>>, ClipDepth(n, d), x) = {x}
Extents == <<40, 44, 48>>
(* half-pixel picks (even templates): exactly one owner for every doubled coordinate, also ON a chunk boundary; the closed window
   duplicates exactly the picks on an inner boundary *)
ExactlyOneOwnerHalfPixel == \A c \in PartsOk(cfg.n, cfg.d) : \A x2 \in (-1)..(2 * cfg.n - 2) : Cardinality(Owners2(c, x2)) = 1
ClosedWindowHazard == \A c \in PartsOk(cfg.n, cfg.d) : \A x2 \in (-1)..(2 * cfg.n - 2) :
     (Cardinality(Owners2Closed(c, x2)) > 1) <=> (\E i \in 2..Len(c) : x2 = 2 * StartOf(c, i) - 1)
(* the landscape edge is outside the keep-window for every template size with the code's depth rule; the historical rule leaves
   the FIRST sample inside the window exactly for even sizes *)
LandscapeEdge == \A s \in 2..14 : \A ci \in DepthRule(s)..24 :
     /\ EdgeOutsideWindow(s, DepthRule(s), ci) /\ WindowCovered(s, DepthRule(s), ci)
     /\ (EdgeOutsideWindow(s, DepthRuleCeil(s), ci) <=> s % 2 = 1)
     /\ (s % 2 = 0 => InWindow2(LandFirst2(s, DepthRuleCeil(s)), ci))
(* chunkings for the even-template layout: a boundary 1.5 and 0.5 px before and after the centre of a particle, on every axis *)
EvenPlants2 == <<<<23, 21, 27>>, <<47, 59, 67>>, <<63, 25, 73>>, <<25, 69, 31>>, <<55, 61, 29>>>>      \* doubled centres, 8^3 template
EvenFamilies == {[a \in 1..3 |-> IF a = ax THEN <<(EvenPlants2[p][ax] + k) \div 2, Extents[ax] - (EvenPlants2[p][ax] + k) \div 2>> ELSE <<Extents[a]>>] :
                    ax \in 1..3, p \in {1, 2}, k \in {-3, -1, 1, 3}}
                \cup {<<<<12, 12, 16>>, <<10, 11, 23>>, <<14, 20, 14>>>>, <<<<13, 11, 16>>, <<44>>, <<34, 14>>>>}
EmitEven == (done /\ cfg.n = 6 /\ cfg.d = 1) => \A f \in EvenFamilies : PrintT(ToJson([even |-> TRUE, extents |-> Extents, chunks |-> f, plants2 |-> EvenPlants2]))
(* side maxima: with a margin mg every side maximum within r <= mg of its main peak is suppressed under every chunking; for r > mg
   some chunking reports it (the unchanged code has mg = 1 whatever min_distance is: the known finding) *)
SideMaxima == \A mg \in 1..3, r \in 1..4 : \A c \in PartsOk(cfg.n, cfg.d) :
     LET allsup == \A x \in 0..(cfg.n - 1), y \in 0..(cfg.n - 1) : (x # y /\ x - y <= r /\ y - x <= r) => SideSuppressed(c, mg, x, y)
     IN (r <= mg => allsup) /\ ((r > mg /\ Len(c) > 1 /\ \A i \in 1..Len(c) : c[i] > r) => ~allsup)
SlabExtents == <<4, 44, 48>>
SlabFamilies == {<<<<4>>, <<44>>, <<48>>>>, <<<<4>>, <<22, 22>>, <<24, 24>>>>, <<<<2, 2>>, <<44>>, <<16, 16, 16>>>>}
BallNotCube == \A r10 \in {10, 16, 25, 40, 60} : CornerOffset(r10) \in DiagonalOffsets(r10) /\ ~InBall(CornerOffset(r10), r10)
(* 3-D chunkings to replay: products of 1-D partitions of the image extents used by the harness *)
ChunkFamilies == {<<<<40>>, <<44>>, <<48>>>>, <<<<20, 20>>, <<44>>, <<48>>>>, <<<<40>>, <<22, 22>>, <<24, 24>>>>, <<<<13, 13, 14>>, <<15, 15, 14>>, <<16, 16, 16>>>>,
                  <<<<25, 15>>, <<30, 14>>, <<11, 37>>>>, <<<<8, 8, 8, 8, 8>>, <<44>>, <<12, 12, 12, 12>>>>, <<<<33, 7>>, <<9, 35>>, <<48>>>>,
                  \* chunks smaller than the overlap depth (4 for LoG/DoG, 6 for the template matcher): dask merges them
                  <<<<12, 12, 13, 3>>, <<44>>, <<5, 43>>>>, <<<<3, 37>>, <<2, 2, 40>>, <<16, 16, 16>>>>, <<<<40>>, <<20, 21, 3>>, <<4, 4, 4, 36>>>>}
EmitSlab == (done /\ cfg.n = 6 /\ cfg.d = 1) => \A f \in SlabFamilies : PrintT(ToJson([slab |-> TRUE, extents |-> SlabExtents, chunks |-> f]))
Emit == (done /\ cfg.n = 6 /\ cfg.d = 1) => \A f \in ChunkFamilies : PrintT(ToJson([extents |-> Extents, chunks |-> f,
              corner |-> [log25 |-> CornerOffset(25), zncc60 |-> CornerOffset(60)]]))
=============================================================================
