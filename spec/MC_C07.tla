------------------------------- MODULE MC_C07 -------------------------------
EXTENDS Score
VARIABLES cfg, done
Shapes == {<<2,2,2>>, <<3,3,3>>, <<2,3,4>>, <<4,4,4>>}
Img(seed, s) == [x \in Vox(s) |-> ((x[1] * 7 + x[2] * 13 + x[3] * 29 + seed * 31 + ((x[1] * x[2] + x[3] * seed) % 3)) % 5)]
(* masks with weights 0,1,2 (the harness passes weight/2: none = all 2, binary = 0/2, soft = 0/1/2) *)
MaskOf(kind, s) == [x \in Vox(s) |->
   CASE kind = "none" -> 2
     [] kind = "binary" -> IF (x[1] + x[2] + x[3]) % 3 = 0 THEN 0 ELSE 2
     [] kind = "soft" -> (x[1] + 2 * x[2] + x[3]) % 3]
Cases == [s : Shapes, seed : 1..5, mask : {"none", "binary", "soft"}, model : {"ZNCC", "NCC"}, gain : {1, 3}, shift : {<<0,0,0>>, <<1,0,-1>>, <<0,-1,1>>}]
Init == cfg \in {c \in Cases : (c.shift # <<0,0,0>> => (c.s \in {<<3,3,3>>, <<4,4,4>>} /\ c.mask = "none" /\ c.model = "ZNCC" /\ c.gain = 1))} /\ done = FALSE
Next == ~done /\ done' = TRUE /\ UNCHANGED cfg
Spec == Init /\ [][Next]_<<cfg, done>>
S == Vox(cfg.s)
A == [x \in S |-> cfg.gain * Img(cfg.seed, cfg.s)[x]]
B == Img(cfg.seed + 50, cfg.s)
M == MaskOf(cfg.mask, cfg.s)
(* a sub-volume that is the template displaced by shift (zero outside): sub(x) = B(x - shift) *)
Displaced == [x \in S |-> LET y == <<x[1] - cfg.shift[1], x[2] - cfg.shift[2], x[3] - cfg.shift[3]>> IN IF Inside(y, cfg.s) THEN B[y] ELSE 0]
Sub == IF cfg.shift = <<0,0,0>> THEN A ELSE Displaced
ScoreT == IF cfg.model = "ZNCC" THEN Zncc3(Masked(Sub, M, S), Masked(B, M, S), S) ELSE Ncc3(Masked(Sub, M, S), Masked(B, M, S), S)
SelfT == IF cfg.model = "ZNCC" THEN Zncc3(Masked(B, M, S), Masked(B, M, S), S) ELSE Ncc3(Masked(B, M, S), Masked(B, M, S), S)
Disps == {<<a, b, c>> : a \in -1..1, b \in -1..1, c \in -1..1}
Laws == /\ (cfg.s = <<2,2,2>> /\ cfg.gain = 1 => Bounded(ScoreT))          \* Cauchy-Schwarz (32-bit safe sizes only)
        /\ SelfT[1] = SelfT[2] /\ SelfT[2] = SelfT[3]                          \* score(a, a) = 1
        \* the landscape centre is the score itself (the centred window is n*a - sum a: same correlation)
        /\ (cfg.mask = "none" /\ cfg.model = "ZNCC" /\ cfg.s = <<3,3,3>> /\ cfg.gain = 1) =>
              LET c == Landscape3(Sub, B, cfg.s, <<0,0,0>>) n == 27 IN
              4 * c[1] = n * ScoreT[1] /\ 4 * c[2] = n * n * ScoreT[2] /\ 4 * c[3] = ScoreT[3]    \* mask "none" is the weight 2
SeqOf(f) == LET s == cfg.s IN [n \in 1..(s[1] * s[2] * s[3]) |-> f[<<(n - 1) \div (s[2] * s[3]), ((n - 1) \div s[3]) % s[2], (n - 1) % s[3]>>]]
DispSeq == [n \in 1..27 |-> <<((n - 1) \div 9) - 1, (((n - 1) \div 3) % 3) - 1, ((n - 1) % 3) - 1>>]
Emit == done => PrintT(ToJson([cfg |-> cfg, sub |-> SeqOf(Sub), tmpl |-> SeqOf(B), mask2 |-> SeqOf(M), score |-> ScoreT,
          landscape |-> IF cfg.mask = "none" /\ cfg.model = "ZNCC" /\ cfg.s \in {<<3,3,3>>, <<4,4,4>>}
                        THEN [n \in 1..27 |-> Landscape3(Sub, B, cfg.s, DispSeq[n])] ELSE <<>>]))
=============================================================================
