----------------------------- MODULE Trace_Serial -----------------------------
EXTENDS Serial, TLCExt, IOUtils
Tr == ndJsonDeserialize(IOEnv.TRACE_FILE)
VARIABLES l, bad
TInit == l = 1 /\ bad = <<>>
TNext == /\ l <= Len(Tr)
         /\ bad' = IF Why(Tr[l]) = "ok" THEN bad ELSE Append(bad, [i |-> l, why |-> Why(Tr[l]), ctx |-> "", id |-> Tr[l].id])
         /\ l' = l + 1
TSpec == TInit /\ [][TNext]_<<l, bad>>
Done == l = Len(Tr) + 1 => PrintT(ToJson([verdict |-> "done", n |-> Len(Tr), bad |-> bad]))
==============================================================================
