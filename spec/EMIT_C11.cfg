CONSTANTS
  MaxDepth = 1
  InitRots <- InitRotsDef
  WorldGens <- WorldGensDef
  InternalGens <- InternalGensDef
  Shifts <- ShiftsDef
SPECIFICATION Spec
VIEW View
ACTION_CONSTRAINT EmitStep
CHECK_DEADLOCK FALSE
