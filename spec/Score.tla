-------------------------------- MODULE Score --------------------------------
(* Correlation scores (acryo/backend/_zncc.py: ncc, zncc, ncc_landscape*; alignment/_concrete.py;
   alignment/_base.py: score, landscape, pre_transform).

   Images are functions from voxels (z,y,x triples, 0-based) to integers.  A score is a triple
   <<num, da, db>> meaning num / sqrt(da * db); triples keep everything in integers.
     NCC(a, b)   = sum a b / sqrt(sum a^2 sum b^2)
     ZNCC(a, b)  = NCC(a - mean a, b - mean b) = (n sum ab - sum a sum b) / sqrt((n sum a^2 - (sum a)^2)(n sum b^2 - (sum b)^2))
   With a mask m both images are multiplied by m first (Pearson over the whole box).
   The ZNCC landscape at displacement d is the ZNCC of the template with the window of the
   (mean-padded) sub-volume at offset d; its centre is the score itself and a sub-volume that is the
   template displaced by s has its maximum at d = s. *)
EXTENDS Integers, Sequences, FiniteSets, TLC, Json, FiniteSetsExt

Vox(s) == (0..(s[1]-1)) \X (0..(s[2]-1)) \X (0..(s[3]-1))
ISum(S, f(_)) == FoldSet(LAMBDA x, acc : f(x) + acc, 0, S)
Sq(x) == x * x
Ncc3(a, b, S) == <<ISum(S, LAMBDA x : a[x] * b[x]), ISum(S, LAMBDA x : Sq(a[x])), ISum(S, LAMBDA x : Sq(b[x]))>>
Zncc3(a, b, S) == LET n == Cardinality(S) sa == ISum(S, LAMBDA x : a[x]) sb == ISum(S, LAMBDA x : b[x]) IN
  <<n * ISum(S, LAMBDA x : a[x] * b[x]) - sa * sb, n * ISum(S, LAMBDA x : Sq(a[x])) - Sq(sa), n * ISum(S, LAMBDA x : Sq(b[x])) - Sq(sb)>>
Masked(a, m, S) == [x \in S |-> a[x] * m[x]]
(* Cauchy-Schwarz in integers: |score| <= 1 *)
Bounded(t) == Sq(t[1]) <= t[2] * t[3]
(* window of the sub-volume a (padded with its mean) at displacement d, centred to integers:
   n*a(x+d) - sum a inside the box, 0 (= the mean) outside *)
Inside(x, s) == \A i \in 1..3 : x[i] >= 0 /\ x[i] < s[i]
WindowC(a, s, d) == LET S == Vox(s) n == Cardinality(S) sa == ISum(S, LAMBDA x : a[x]) IN
  [x \in S |-> LET y == <<x[1] + d[1], x[2] + d[2], x[3] + d[3]>> IN IF Inside(y, s) THEN n * a[y] - sa ELSE 0]
Landscape3(a, b, s, d) == Zncc3(WindowC(a, s, d), b, Vox(s))
=============================================================================
