------------------------------- MODULE MC_C09 -------------------------------
(* Case generator and law check for C09: molecule counts 1..6, weights, coinciding markers,
   group keys, loader kinds, tomogram chunkings, n_set and seeds. *)
EXTENDS AvgOps
VARIABLES cfg, done
WPat == <<1, 2, 3, 1, 2, 1>>
(* marker offsets inside the 3x3x3 box (linear index 0..26); pattern "dup" makes rows 1 and 2 coincide *)
OffDistinct == <<0, 5, 13, 26, 9, 22>>
OffDup == <<4, 4, 13, 4, 9, 13>>
KeyPats == {<<0, 1, 0, 1, 0, 1>>, <<0, 0, 0, 1, 1, 1>>, <<1, 1, 1, 1, 1, 1>>}
Cases == [n : 1..6, kind : {"single", "batch", "mock"}, off : {"distinct", "dup"}, keys : KeyPats,
          chunks : {"numpy", "dask8", "dask5711"}, n_set : {1, 2}, seed : {0, 1, 7}]
SubsOf(c) == [i \in 1..c.n |-> [v |-> (IF c.off = "dup" THEN OffDup ELSE OffDistinct)[i], w |-> WPat[i]]]
Init == cfg \in {c \in Cases : (c.kind = "mock" => c.chunks = "numpy")} /\ done = FALSE
Next == ~done /\ done' = TRUE /\ UNCHANGED cfg
Spec == Init /\ [][Next]_<<cfg, done>>
Law == SplitLaw(SubsOf(cfg))
(* every bipartition the property permits is accepted, with exact half maps (acceptor is not vacuous) *)
HalfOf(subs, H) == LET vs == SetToSortSeq(Support(subs, H), LAMBDA a, b : a < b)
                   IN [j \in 1..Len(vs) |-> [v |-> vs[j], q |-> <<WeightAt(subs, H, vs[j]), Cardinality(H)>>]]
AcceptorComplete == LET subs == SubsOf(cfg) all == 1..cfg.n IN
  /\ IsAverageOf(HalfOf(subs, all), subs, all)
  /\ \A H0 \in SUBSET all : (cfg.n >= 2 /\ H0 # {} /\ H0 # all) => IsSplitOf(subs, H0, all \ H0, HalfOf(subs, H0), HalfOf(subs, all \ H0))
  /\ (cfg.n >= 2 => ~IsSplitOf(subs, all, {}, HalfOf(subs, all), <<>>))
Emit == done => PrintT(ToJson([cfg |-> cfg, subs |-> SubsOf(cfg), keys |-> [i \in 1..cfg.n |-> cfg.keys[i]]]))
=============================================================================
