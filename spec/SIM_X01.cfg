CONSTANTS
  MaxDepth = 6
SPECIFICATION Spec
INVARIANT EmitProgram
CHECK_DEADLOCK FALSE
