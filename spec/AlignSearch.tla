----------------------------- MODULE AlignSearch -----------------------------
(* Where a translational search can end up (acryo/backend/_zncc.py: pad/crop of the landscape;
   _upsample.py: upsample, _create_mesh; _pcc.py: subpixel_pcc; _fsc.py: fsc_landscape, subpixel_fsc).

   One axis, units of 1/100 px (limits m are on the 1/100-px lattice):
     coarse stage   the integer arg-max p may be ANY cell of the cropped landscape ("for every
                    sub-volume, including noise"): |p| <= int(m)   (ZNCC, NCC, PCC)
                                                     |p| <= ceil(m)  (FSC: the landscape is not cropped)
     fine stage     ZNCC/NCC/FSC: a mesh of 1/20-px steps around p, clipped to [-m - p, m - p] and to
                    [-1, 1]; the refined arg-max may be ANY mesh point
                    PCC: a 30-sample window of 1/20-px steps centred on p (index 15), restricted to
                    the samples inside [-m, m]
   C05 is the invariant InRange: |shift| <= m, together with NonEmpty (the search never runs out
   of candidates, i.e. cannot raise on a valid range). *)
EXTENDS Integers, FiniteSets, TLC

CONSTANTS Limits, Models
VARIABLES m, model, pc, p, j
vars == <<m, model, pc, p, j>>

FloorDiv(a, b) == a \div b
CeilDiv(a, b) == -((-a) \div b)
RoundDiv(a, b) == (2 * a + b) \div (2 * b)           \* round half up
Max2(a, b) == IF a > b THEN a ELSE b
Min2(a, b) == IF a < b THEN a ELSE b
IntOf(x) == x \div 100                                \* int(m) for m >= 0
CeilOf(x) == CeilDiv(x, 100)

(* PCC: the fine window spans -0.75 .. +0.70 px around the coarse peak, so the coarse peak may lie up to
   0.7 px outside the range (the fine stage brings the result back inside) *)
PccCoarse(mm) == (mm + 69) \div 100          \* floor(m + 0.7 - 0.001): the window reaches +0.70 px
CoarseRange(mm, mdl) == IF mdl = "FSC" THEN (-CeilOf(mm))..CeilOf(mm)
                        ELSE IF mdl = "PCC" THEN (-PccCoarse(mm))..PccCoarse(mm)
                        ELSE (-IntOf(mm))..IntOf(mm)
(* named historical deviation (acryo 0.4.16 + first PCC fix): coarse peak confined to +-int(m), which left
   displacements in (int(m) + 0.70, m] unreachable *)
CoarseRange_pccInt(mm) == (-IntOf(mm))..IntOf(mm)
(* mesh bounds in 1/20 px relative to p (p in px) *)
MeshLo(mm, pp) == CeilDiv(Max2(-100 * pp - mm, -100), 5)
MeshHi(mm, pp) == FloorDiv(Min2(-100 * pp + mm, 100), 5)
(* named historical deviation (acryo 0.4.16): the bounds were rounded to the nearest mesh point *)
MeshLo_v0416(mm, pp) == RoundDiv(Max2(-100 * pp - mm, -100), 5)
MeshHi_v0416(mm, pp) == RoundDiv(Min2(-100 * pp + mm, 100), 5)
(* PCC fine window: index i in 0..29, offset (i - 15)/20 px *)
PccLo(mm, pp) == Max2(15 - FloorDiv(100 * pp + mm, 5), 0)
PccHi(mm, pp) == Min2(15 + FloorDiv(mm - 100 * pp, 5), 29)
FineRange(mm, mdl, pp) == IF mdl = "PCC" THEN {i - 15 : i \in PccLo(mm, pp)..PccHi(mm, pp)} ELSE MeshLo(mm, pp)..MeshHi(mm, pp)
Shift(pp, jj) == 100 * pp + 5 * jj

Init == m \in Limits /\ model \in Models /\ pc = "coarse" /\ p = 0 /\ j = 0
Coarse == /\ pc = "coarse" /\ \E pp \in CoarseRange(m, model) : p' = pp
          /\ pc' = "fine" /\ UNCHANGED <<m, model, j>>
Fine == /\ pc = "fine" /\ \E jj \in FineRange(m, model, p) : j' = jj
        /\ pc' = "done" /\ UNCHANGED <<m, model, p>>
Next == Coarse \/ Fine
Spec == Init /\ [][Next]_vars

InRange == pc = "done" => (Shift(p, j) <= m /\ -Shift(p, j) <= m)
NonEmpty == pc = "fine" => FineRange(m, model, p) # {}
(* the zero shift is always a candidate (zero range => zero shift) *)
ZeroReachable == pc = "coarse" => (0 \in CoarseRange(m, model) /\ 0 \in FineRange(m, model, 0))
(* the exact limit itself is reachable when it lies on the 1/20-px grid (C04: edge of the range) *)
Reachable(mm, mdl) == UNION {{Shift(pp, jj) : jj \in FineRange(mm, mdl, pp)} : pp \in CoarseRange(mm, mdl)}
EdgeReachable == (pc = "coarse" /\ m % 5 = 0 /\ model \in {"ZNCC", "NCC"}) => (m \in Reachable(m, model) /\ -m \in Reachable(m, model))
(* PCC reaches the grid point next to either end of the range *)
PccEdgeGap(mm) == mm - (CHOOSE x \in Reachable(mm, "PCC") : \A y \in Reachable(mm, "PCC") : y <= x)
PccGapBounded == (pc = "coarse" /\ model = "PCC") => (PccEdgeGap(m) <= 4 /\ \E x \in Reachable(m, "PCC") : x + m <= 4)
(* characterisation of the historical mesh rounding: it overshoots exactly off the 1/20-px grid *)
V0416Overshoot(mm) == \E pp \in (-IntOf(mm))..IntOf(mm) : Shift(pp, MeshHi_v0416(mm, pp)) > mm
V0416OvershootIffOffGrid == pc = "coarse" => (V0416Overshoot(m) => m % 5 # 0)
=============================================================================
