------------------------------- MODULE TaskOrder -------------------------------
(* Execution orders of the per-molecule tasks of one loader call under a scheduler with W worker
   threads (acryo/_dask.py: DaskTaskList.compute; dask threaded / synchronous schedulers).
   Task i (map_i: align / score / apply of molecule i) may start when a worker is free and runs
   concurrently with the other started tasks until it ends.  A result is a function of the task's
   own inputs only, so every schedule must give the same results as the sequential one
   (ResultsIndependentOfOrder); the shared state that could break this is modelled in Sched.tla. *)
EXTENDS Integers, Sequences, FiniteSets, TLC, Json
CONSTANTS N, W
VARIABLES started, ended, result, hist
vars == <<started, ended, result, hist>>
Tasks == 1..N
F(i) == i * 10                                  \* the value task i must produce
Init == started = {} /\ ended = {} /\ result = [i \in Tasks |-> 0] /\ hist = <<>>
Start(i) == /\ i \notin started /\ Cardinality(started \ ended) < W
            /\ started' = started \cup {i} /\ hist' = Append(hist, [ev |-> "start", i |-> i]) /\ UNCHANGED <<ended, result>>
End(i) == /\ i \in started /\ i \notin ended
          /\ ended' = ended \cup {i} /\ result' = [result EXCEPT ![i] = F(i)]
          /\ hist' = Append(hist, [ev |-> "end", i |-> i]) /\ UNCHANGED started
Next == \E i \in Tasks : Start(i) \/ End(i)
Spec == Init /\ [][Next]_vars
ResultsIndependentOfOrder == ended = Tasks => \A i \in Tasks : result[i] = F(i)
AtMostW == Cardinality(started \ ended) <= W
EmitSchedule == ended = Tasks => PrintT(ToJson([n |-> N, w |-> W, events |-> hist]))
=============================================================================
