-------------------------------- MODULE Wedge --------------------------------
(* Missing-wedge masks (acryo/tilt/_single.py, _utils.py, _base.py, core.py;
   backend/_missing_wedge.py; _utils.py: missing_wedge_mask; alignment/_base.py).

   Exact integer geometry:
     Freq(i, n)     signed FFT frequency index of bin i on an axis of length n (numpy.fft.fftfreq * n)
     f = k / N      physical frequency of bin k (cycles per pixel), per axis
     w = R f        the same vector in the tomogram frame (R = molecule orientation, Zyx.tla record)
     a tilt angle with tan = t1/t2 (t2 >= 0; t = <<1,0>> is +90 deg, <<-1,0>> is -90 deg) gives the
     plane normal (-t2, 0, t1) for a tilt about y, (-t2, t1, 0) for a tilt about x   (z,y,x order)
     kept  <=>  sign(w.n0) * sign(w.n1) <= 0      (between the two planes, planes included)
   Everything is cleared of denominators, so Bit is decided by integer sign tests.
   Class 2 ("boundary") marks bins lying exactly on a plane: their value is not fixed by the
   property, except that the zero frequency is always kept. *)
EXTENDS Integers, Sequences, FiniteSets, TLC, Json, Zyx

Freq(i, n) == IF i <= (n - 1) \div 2 THEN i ELSE i - n
Sgn(x) == IF x > 0 THEN 1 ELSE IF x < 0 THEN -1 ELSE 0
Normal(t, axis) == IF axis = "y" THEN <<-t[2], 0, t[1]>> ELSE <<-t[2], t[1], 0>>
(* k_a / N_a cleared of denominators: multiply by N_1 N_2 N_3 *)
Phys(k, s) == <<k[1] * s[2] * s[3], k[2] * s[1] * s[3], k[3] * s[1] * s[2]>>
(* t0 below t1 as angles: tan0 < tan1 with the +-90 conventions *)
Below(t0, t1) == t0 # t1 /\ (IF t0[2] = 0 THEN t0[1] < 0 ELSE IF t1[2] = 0 THEN t1[1] > 0 ELSE t0[1] * t1[2] < t1[1] * t0[2])

Bit(s, R, t0, t1, axis, idx) ==      \* idx: 1-based bin index per axis
  LET k == <<Freq(idx[1] - 1, s[1]), Freq(idx[2] - 1, s[2]), Freq(idx[3] - 1, s[3])>>
      w == RApplyN(R, Phys(k, s))                     \* numerator of R f (positive common denominator)
      d0 == Dot(w, Normal(t0, axis))
      d1 == Dot(w, Normal(t1, axis))
  IN IF k = <<0, 0, 0>> THEN 1
     ELSE IF Sgn(d0) * Sgn(d1) < 0 THEN 1 ELSE IF Sgn(d0) * Sgn(d1) = 0 THEN 2 ELSE 0
Mask(s, R, t0, t1, axis) ==
  [i \in 1..s[1] |-> [j \in 1..s[2] |-> [k \in 1..s[3] |-> Bit(s, R, t0, t1, axis, <<i, j, k>>)]]]
(* union of a y-tilt and an x-tilt series: kept if kept by either; boundary if not kept but boundary in one *)
Union2(a, b) == IF a = 1 \/ b = 1 THEN 1 ELSE IF a = 2 \/ b = 2 THEN 2 ELSE 0
(* laws of the union: a member that keeps everything (no wedge) absorbs the union; the union is idempotent and commutative *)
UnionLaws == \A a \in 0..2, b \in 0..2 : Union2(1, b) = 1 /\ Union2(a, 1) = 1 /\ Union2(a, a) = a /\ Union2(a, b) = Union2(b, a)

Neg(i, n) == ((n - (i - 1)) % n) + 1                  \* bin of -k
IsNyq(i, n) == n % 2 = 0 /\ i - 1 = n \div 2
HasNyq(s, idx) == IsNyq(idx[1], s[1]) \/ IsNyq(idx[2], s[2]) \/ IsNyq(idx[3], s[3])

(* named historical deviations (acryo 0.4.16): index grid built with ceil(n/2) + fftshift, which is
   the FFT order only for even n; and the plane normal scaled by N (not 1/N) before the rotation *)
Freq_v0416(i, n) == LET c == (n + 1) \div 2          \* ceil(n/2)
                        sh == n \div 2                \* fftshift moves element j to (j + n div 2) mod n
                    IN ((i - sh + n) % n) - c
GridWrongOnlyForOdd(n) == (\E i \in 0..(n-1) : Freq_v0416(i, n) # Freq(i, n)) <=> (n % 2 = 1)
=============================================================================
