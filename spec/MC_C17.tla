------------------------------- MODULE MC_C17 -------------------------------
EXTENDS Fsc
VARIABLES cfg, done
DftShapes == {<<4,4,4>>, <<2,4,4>>, <<4,2,4>>, <<4,4,2>>, <<2,2,2>>, <<1,4,4>>, <<4,2,1>>}
LabelShapes == {<<a, b, c>> : a \in {3, 5, 6}, b \in {4, 5}, c \in {3, 6}} \cup {<<6,6,6>>, <<5,5,5>>, <<3,3,3>>}
MinS(s) == Min({s[1], s[2], s[3]})
DfsFor(s) == {<<1, MinS(s)>>, <<3, 2 * MinS(s)>>, <<1, 2>>}    \* 1/min, 1.5/min (the loader default), 1/2
(* deterministic small integer images *)
Img(seed, s) == [x \in Bins(s) |-> ((x[1] * 7 + x[2] * 13 + x[3] * 29 + seed * 31 + ((x[1] * x[2] * x[3] * seed) % 3)) % 5)]
Cases == UNION {[kind : {"values"}, s : {s}, df : DfsFor(s), seed : 1..6] : s \in DftShapes}
   \cup UNION {[kind : {"labels"}, s : {s}, df : DfsFor(s), seed : {0}] : s \in LabelShapes \cup DftShapes}
Init == cfg \in Cases /\ done = FALSE
Next == ~done /\ done' = TRUE /\ UNCHANGED cfg
Spec == Init /\ [][Next]_<<cfg, done>>

F1 == Dft(Img(cfg.seed, cfg.s), cfg.s)
F2 == Dft(Img(cfg.seed + 100, cfg.s), cfg.s)
F1x3 == Dft([x \in Bins(cfg.s) |-> 3 * Img(cfg.seed, cfg.s)[x]], cfg.s)
Shells == 0..(LMax(cfg.s, cfg.df) - 1)
(* laws on the exact values: symmetry, self-correlation, gain covariance, Parseval *)
Laws == cfg.kind = "values" =>
  /\ \A L \in Shells : LET S == Shell(cfg.s, cfg.df, L) IN
       /\ ReCross(F1, F2, S) = ReCross(F2, F1, S)
       /\ ReCross(F1, F1, S) = Power(F1, S)
       /\ ReCross(F1x3, F2, S) = 3 * ReCross(F1, F2, S) /\ Power(F1x3, S) = 9 * Power(F1, S)
  /\ Power(F1, Bins(cfg.s)) = cfg.s[1] * cfg.s[2] * cfg.s[3] * ISum(Bins(cfg.s), LAMBDA x : Sq(Img(cfg.seed, cfg.s)[x]))
ShellSeq == [L \in 1..LMax(cfg.s, cfg.df) |->
   LET S == Shell(cfg.s, cfg.df, L - 1) IN
   [n |-> Cardinality(S), nb |-> Cardinality({b \in S : OnBoundary(b, cfg.s, cfg.df)}),
    nb_up |-> Cardinality({b \in Shell(cfg.s, cfg.df, L) : OnBoundary(b, cfg.s, cfg.df)}),
    cross |-> IF cfg.kind = "values" THEN ReCross(F1, F2, S) ELSE 0,
    p1 |-> IF cfg.kind = "values" THEN Power(F1, S) ELSE 0,
    p2 |-> IF cfg.kind = "values" THEN Power(F2, S) ELSE 0]]
ImgSeq(seed) == LET s == cfg.s IN [n \in 1..(s[1] * s[2] * s[3]) |->
   Img(seed, s)[<<(n - 1) \div (s[2] * s[3]), ((n - 1) \div s[3]) % s[2], (n - 1) % s[3]>>]]
Emit == done => PrintT(ToJson([cfg |-> cfg, lmax |-> LMax(cfg.s, cfg.df), shells |-> ShellSeq,
                               img1 |-> IF cfg.kind = "values" THEN ImgSeq(cfg.seed) ELSE <<>>,
                               img2 |-> IF cfg.kind = "values" THEN ImgSeq(cfg.seed + 100) ELSE <<>>]))
=============================================================================
