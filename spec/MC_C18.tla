------------------------------- MODULE MC_C18 -------------------------------
EXTENDS Pca
VARIABLES cfg, done
(* Hadamard-type sign patterns for N = 4 and N = 8 rows; columns are scaled by integers *)
H4 == <<<<1, 1, 1>>, <<1, -1, -1>>, <<-1, 1, -1>>, <<-1, -1, 1>>>>
H8 == <<<<1, 1, 1>>, <<1, 1, -1>>, <<1, -1, 1>>, <<1, -1, -1>>, <<-1, 1, 1>>, <<-1, 1, -1>>, <<-1, -1, 1>>, <<-1, -1, -1>>>>
Scaled(H, w) == [i \in 1..Len(H) |-> [j \in 1..3 |-> w[j] * H[i][j]]]
Designs == {[A |-> Scaled(H, w), sizes |-> sz, J |-> 3] : H \in {H4, H8}, w \in {<<3, 2, 1>>, <<1, 2, 2>>, <<2, 3, 1>>}, sz \in {<<4, 3, 2>>, <<2, 6, 3>>, <<5, 5, 1>>}}
Cases == [design : {d \in Designs : Distinct(d.A, d.sizes, d.J)}, box : {<<3, 3, 3>>, <<2, 4, 5>>, <<9, 9, 9>>}, ncomp : {2, 3},
          mask : BOOLEAN, soft : BOOLEAN, rowchunks : {"one", "each", "uneven"}, voxchunk : BOOLEAN]
Init == cfg \in {c \in Cases : c.ncomp <= c.design.J /\ (c.soft => c.mask) /\ DistinctW(c.design.A, c.design.sizes, c.soft, c.design.J)} /\ done = FALSE
Next == ~done /\ done' = TRUE /\ UNCHANGED cfg
Spec == Init /\ [][Next]_<<cfg, done>>
Laws == LET d == cfg.design IN ZeroMean(d.A, d.J) /\ Orthogonal(d.A, d.J) /\ Distinct(d.A, d.sizes, d.J) /\ DistinctW(d.A, d.sizes, cfg.soft, d.J)
                                /\ (~cfg.soft => \A j \in 1..d.J : Sigma2x4(d.A, d.sizes, FALSE, j) = 4 * Sigma2(d.A, d.sizes, j))
(* the result does not depend on the row partition: the expectation below never mentions it; what TLC
   enumerates here is that every partition of the rows is a legal chunking *)
AllPartitionsLegal == \A c \in Compositions(Len(cfg.design.A)) : ISum(1..Len(c), LAMBDA i : c[i]) = Len(cfg.design.A)
RowChunks(c) == LET n == Len(c.design.A) IN
   CASE c.rowchunks = "one" -> <<n>> [] c.rowchunks = "each" -> [i \in 1..n |-> 1] [] OTHER -> IF n = 4 THEN <<1, 3>> ELSE <<3, 1, 4>>
Emit == done => LET d == cfg.design IN PrintT(ToJson([cfg |-> cfg, rowchunks |-> RowChunks(cfg),
   sigma2x4 |-> [j \in 1..d.J |-> Sigma2x4(d.A, d.sizes, cfg.soft, j)],
   rank |-> [j \in 1..d.J |-> RankW(d.A, d.sizes, cfg.soft, d.J, j)],
   w4 |-> [j \in 1..d.J |-> W4(d.sizes, cfg.soft, j)],
   proj2x4 |-> [i \in 1..Len(d.A) |-> [j \in 1..d.J |-> d.A[i][j] * d.A[i][j] * W4(d.sizes, cfg.soft, j)]],
   ncompositions |-> Cardinality(Compositions(Len(d.A)))]))
=============================================================================
