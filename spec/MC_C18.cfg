SPECIFICATION Spec
INVARIANT Laws
INVARIANT AllPartitionsLegal
INVARIANT Emit
CHECK_DEADLOCK FALSE
