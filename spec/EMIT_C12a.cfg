CONSTANTS
  MaxRows = 6
  MaxDepth = 2
  InitRowsA = {0, 2}
  WithEmptyB = TRUE
SPECIFICATION Spec
ACTION_CONSTRAINT EmitAlias
CHECK_DEADLOCK FALSE
