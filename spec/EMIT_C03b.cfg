CONSTANTS
  MaxDepth = 2
  MaxRows = 6
  MaxImgs = 3
  SmallInit = TRUE
SPECIFICATION Spec
VIEW View
ACTION_CONSTRAINT EmitStepInterleaved
CHECK_DEADLOCK FALSE
