CONSTANTS
  MaxN = 5
  Thorough = TRUE
SPECIFICATION Spec
INVARIANT DCKept
INVARIANT UnionLaws
INVARIANT Symmetric
INVARIANT GridLemma
INVARIANT Emit
CHECK_DEADLOCK FALSE
