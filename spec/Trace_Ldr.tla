------------------------------ MODULE Trace_Ldr ------------------------------
(* Trace validation (code -> spec) of loader operations: see Trace_Tbl.tla. *)
EXTENDS LdrOps, TLCExt, Json, IOUtils
Tr == ndJsonDeserialize(IOEnv.TRACE_FILE)
VARIABLES l, bad
Init == l = 1 /\ bad = <<>>
Judge(e) == LET w == Why(e.op, e.L, e.T, e.out) IN IF w # "ok" THEN w ELSE SiblingWhy(e.S, e.out)
Next == /\ l <= Len(Tr)
        /\ bad' = IF Judge(Tr[l]) = "ok" THEN bad
                  ELSE Append(bad, [i |-> l, why |-> Judge(Tr[l]), ctx |-> Ctx(Tr[l].op, Tr[l].L), id |-> Tr[l].id])
        /\ l' = l + 1
Spec == Init /\ [][Next]_<<l, bad>>
Done == l = Len(Tr) + 1 => PrintT(ToJson([verdict |-> "done", n |-> Len(Tr), bad |-> bad]))
==============================================================================
