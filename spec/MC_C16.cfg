CONSTANTS
  MaxN = 5
SPECIFICATION Spec
INVARIANT Laws
INVARIANT Emit
CHECK_DEADLOCK FALSE
