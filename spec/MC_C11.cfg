CONSTANTS
  MaxDepth = 2
  InitRots <- InitRotsDef
  WorldGens <- WorldGensDef
  InternalGens <- InternalGensDef
  Shifts <- ShiftsDef
SPECIFICATION Spec
VIEW View
INVARIANT Laws
CHECK_DEADLOCK FALSE
