CONSTANTS
  MaxDepth = 7
SPECIFICATION Spec
INVARIANT EmitProgram
CHECK_DEADLOCK FALSE
