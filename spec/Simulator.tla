------------------------------- MODULE Simulator -------------------------------
(* Tomogram simulation (acryo/simulator.py: TomogramSimulator.simulate, simulate_2d, _prep_iterators,
   _compose_affine_matrices, _prep_slices, _simulate_one; acryo/_utils.py: make_slice_and_pad).

   P layer (doubled coordinates as in Sampling.tla):
     template voxel k of a molecule at pixel position P2/2 with orientation R lies at tomogram
     coordinate  C2(k)/2 = (P2 + R * U2(k)) / 2,   U2(k) = 2k - (shape-1):  the template CENTRE is at
     the molecule position.   Tomo = sum over components, molecules, voxels; voxels outside the volume
     are dropped (clipping).  When every C2 is even the paste is exact:  Tomo[C2/2] += template[k].
   I layer (acryo 0.4.16 as pinned, named deviation): the fragment was centred at
     int(pos) - int((shape-1)/2) + (shape-1)/2 + residue = pos + frac((shape-1)/2), i.e. half a pixel
     too far for even box axes. *)
EXTENDS Integers, Sequences, FiniteSets, TLC, Json, Zyx

U2(k, s) == 2 * k - (s - 1)
C2(P2, R, shape, k) == VAdd(P2, MApply(R, <<U2(k[1], shape[1]), U2(k[2], shape[2]), U2(k[3], shape[3])>>))
Even3(c) == c[1] % 2 = 0 /\ c[2] % 2 = 0 /\ c[3] % 2 = 0
InVol(v, ts) == \A a \in 1..3 : v[a] >= 0 /\ v[a] < ts[a]
Lin(v, ts) == (v[1] * ts[2] + v[2]) * ts[3] + v[3]
VoxSeq(shape) == [n \in 1..(shape[1] * shape[2] * shape[3]) |->
                    <<(n - 1) \div (shape[2] * shape[3]), ((n - 1) \div shape[3]) % shape[2], (n - 1) % shape[3]>>]
GridCoincident(P2, R, shape) == \A n \in 1..Len(VoxSeq(shape)) : Even3(C2(P2, R, shape, VoxSeq(shape)[n]))
(* contributions of one molecule: sequence of <<tomogram linear index, template voxel number (1-based)>> *)
Paste(P2, R, shape, ts) ==
  SelectSeq([n \in 1..Len(VoxSeq(shape)) |->
               LET c == C2(P2, R, shape, VoxSeq(shape)[n]) v == <<c[1] \div 2, c[2] \div 2, c[3] \div 2>>
               IN IF InVol(v, ts) THEN <<Lin(v, ts), n>> ELSE <<-1, n>>],
            LAMBDA e : e[1] >= 0)
(* the historical placement, one axis: where the template centre ends up (doubled) *)
Trunc2(v2) == IF v2 >= 0 THEN v2 \div 2 ELSE -((-v2) \div 2)
Centre2_v0416(p2, s) == p2 + ((s - 1) % 2)             \* pos + frac((s-1)/2): +1/2 px iff s is even
CentreWrongIffEven(p2, s) == (Centre2_v0416(p2, s) # p2) <=> (s % 2 = 0)
=============================================================================
