CONSTANTS
  Workers = {1, 2}
  Design = "v0416"
  KeyMode = "pertask"
SPECIFICATION Spec

INVARIANT ResultsAgree
INVARIANT CacheBounded
INVARIANT EmitSchedule
CHECK_DEADLOCK FALSE
