------------------------------- MODULE MC_C15 -------------------------------
EXTENDS Binning
Shapes == {<<12, 13, 17>>, <<13, 12, 14>>}
Boxes == {<<1,1,1>>, <<2,2,2>>, <<3,3,3>>, <<2,3,4>>, <<3,2,1>>}
R90z == <<<<1,0,0>>,<<0,0,-1>>,<<0,1,0>>>>
R120 == <<<<0,1,0>>,<<0,0,1>>,<<1,0,0>>>>
(* molecule on the binned grid: voxel 0 samples binned index j0 (so q2 = 2*j0 + s - 1) *)
CasesDef ==
  {c \in [n : Shapes, b : 1..6, s : Boxes, j0 : {<<0, 0, 0>>, <<0, 1, 0>>, <<1, 0, 1>>, <<1, 1, 1>>}, R : {MId, R90z, R120},
          order : {0, 1, 3}, kind : {"single", "batch"}, lazy : BOOLEAN, mix : BOOLEAN, compute : BOOLEAN, corner : {FALSE}, q2 : {<<0,0,0>>}] :
     \* mix: a batch whose first tomogram is a numpy array and whose second one is lazy (dask)
     /\ (c.mix => (c.kind = "batch" /\ c.lazy))
     /\ (c.R # MId => c.s = <<3,3,3>>)
     \* a rotation that went through a float32 rotation vector is exact only up to rounding: keep rotated
     \* boxes strictly inside the binned image so no sample sits exactly on its edge
     /\ (c.R # MId => (c.j0 = <<1,1,1>> /\ \A a \in 1..3 : c.j0[a] + c.s[a] <= c.n[a] \div c.b - 1))
     /\ (c.R = MId => c.j0 # <<1,1,1>>)
     \* order 0 has no crop margin on the high side: a rounded rotation can push a face sample out
     /\ (c.R # MId => c.order # 0)
     /\ (c.compute => c.lazy)
     /\ \A a \in 1..3 : c.j0[a] + c.s[a] <= c.n[a] \div c.b + 1}      \* at most one voxel hangs over the edge
(* elongated boxes under quarter turns: the rotated box reaches further along an axis than the box itself does, so the region read
   from the image must be the one of a corner-safe loader (corner_safe = TRUE is a property of the loader that binning keeps);
   centre (3,3,3), reach 2 voxels, order 1 (whose plain crop margin is 1 voxel) *)
CornerCases ==
  {c \in [n : {<<14, 14, 15>>}, b : {1, 2}, s : {<<1,1,5>>, <<5,1,1>>, <<1,5,1>>}, j0 : {<<3,3,1>>, <<1,3,3>>, <<3,1,3>>}, R : {R90z, R120},
          order : {1}, kind : {"single", "batch"}, lazy : BOOLEAN, mix : {FALSE}, compute : BOOLEAN, corner : {TRUE}, q2 : {<<0,0,0>>}] :
     /\ (c.compute => c.lazy)
     /\ \A a \in 1..3 : 2 * c.j0[a] + c.s[a] - 1 = 6}
WithQ(c) == [c EXCEPT !.q2 = [a \in 1..3 |-> 2 * c.j0[a] + c.s[a] - 1]]
CasesQ == {WithQ(c) : c \in CasesDef \cup CornerCases}
=============================================================================
