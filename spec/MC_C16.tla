------------------------------- MODULE MC_C16 -------------------------------
EXTENDS Filter
CONSTANTS MaxN
VARIABLES cfg, done
Cutoffs == {<<-1, 1>>, <<0, 1>>, <<1, 10>>, <<1, 5>>, <<1, 4>>, <<1, 2>>, <<4, 5>>, <<9, 10>>, <<7, 8>>}
Shapes == {<<a, b, c>> : a \in 1..MaxN, b \in 1..MaxN, c \in 1..MaxN}
Init == cfg \in [s : Shapes, c : Cutoffs, order : 1..3] /\ done = FALSE
Next == ~done /\ done' = TRUE /\ UNCHANGED cfg
Spec == Init /\ [][Next]_<<cfg, done>>
Laws == /\ MeanPreserved(cfg.s, cfg.c[1], cfg.c[2]) /\ EvenWeights(cfg.s, cfg.c[1], cfg.c[2])
        /\ ShapeWrongOnlyForOddLastAxis(cfg.s)
BinSeq(s) == [n \in 1..(s[1] * s[2] * s[3]) |-> <<(n - 1) \div (s[2] * s[3]), ((n - 1) \div s[3]) % s[2], (n - 1) % s[3]>>]
Emit == done => PrintT(ToJson([cfg |-> cfg, identity |-> IsIdentity(cfg.c[1], cfg.c[2]), out_shape |-> RealOutShape(cfg.s),
                               rden |-> RDen(cfg.s, cfg.c[1]),
                               rnum |-> [n \in 1..Len(BinSeq(cfg.s)) |-> RNum(KOf(BinSeq(cfg.s)[n], cfg.s), cfg.s, cfg.c[2])]]))
=============================================================================
