CONSTANTS
  MaxDepth = 6
  InitRots <- InitRotsDef
  WorldGens <- Gen90
  InternalGens <- Gen90
  Shifts <- ShiftsDef
SPECIFICATION Spec
INVARIANT EmitProgram
CHECK_DEADLOCK FALSE
