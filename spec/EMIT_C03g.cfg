CONSTANTS
  MaxDepth = 1
  MaxRows = 16
  MaxImgs = 3
  SmallInit = TRUE
INIT InitBig
NEXT Next
VIEW View
ACTION_CONSTRAINT EmitStep
CHECK_DEADLOCK FALSE
