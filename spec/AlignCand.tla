----------------------------- MODULE AlignCand -----------------------------
(* Candidate enumeration, arg-max and decoding of a rotation x template search
   (acryo/alignment/_base.py: RotationImplemented._get_template_and_mask_input,
   BaseAlignmentModel._optimize_multiple, RotationImplemented.align;
   acryo/loader/_base.py: _post_align_multi_templates; loader/_group.py).

   One action per step of the code:
     Gen     - the two nested loops that build the (rotated template, mask) list
     Opt     - one _optimize call per candidate (abstracted to a score)
     ArgMax  - int(np.argmax(all_score))
     DecodeM - model level: quat = quaternions[...], label = iopt
     DecodeL - loader level: label feature = labels % remainder
   Property C06 is the invariant Correct.  *)
EXTENDS Integers, Sequences, FiniteSets, TLC, Json, SequencesExt, Zyx

CONSTANTS MaxT, MaxK, Shifts, Drivers, Models, IncludeBig

VARIABLES cfg, pc, ri, ti, cands, scores, iopt, out
vars == <<cfg, pc, ri, ti, cands, scores, iopt, out>>

(* ---------------------------------------------------------------- P layer *)
FlatIndex(T, j, k) == k * T + j                      \* rotation-major, template-minor
DecodeTmpl(T, f) == f % T
DecodeRot(T, f) == f \div T
DecodeIsBijection(T, K) ==
  /\ \A f \in 0..(T*K-1) : FlatIndex(T, DecodeTmpl(T, f), DecodeRot(T, f)) = f
  /\ \A j \in 0..(T-1), k \in 0..(K-1) :
        DecodeTmpl(T, FlatIndex(T, j, k)) = j /\ DecodeRot(T, FlatIndex(T, j, k)) = k

(* -------------------------------------------------- named historical deviations *)
(* acryo 0.4.16 as pinned, before the fix: quaternions[iopt % n_rotations] *)
DecodeRot_v0416(K, f) == f % K
(* ... and LoaderGroup.align_multi_templates used len(templates) of the *argument*,
   which for a mapping is the number of groups G, not the number of templates *)
DecodeTmplGroup_v0416(G, f) == IF G > 1 THEN f % G ELSE f
(* LoaderGroup.align_multi_templates with a MAPPING of template lists: group g searches its own T_g templates, so the flat
   index of group g decodes with T_g.  Named hazard: one shared count (that of another group) for every group. *)
DecodeTmplShared(Tother, f) == f % Tother
SharedCountWrongExactlyWhen ==
  \A T1 \in 1..(MaxT + 1), T2 \in 1..(MaxT + 1), K \in 1..MaxK :
     /\ (\A f \in 0..(T1*K-1) : DecodeTmplShared(T2, f) # DecodeTmpl(T1, f) => T1 # T2)
     /\ ((T1 # T2 /\ K > 1) => \E f \in 0..(T1*K-1) : DecodeTmplShared(T2, f) # DecodeTmpl(T1, f))
V0416WrongExactlyWhen ==
  \A T \in 1..MaxT, K \in 1..MaxK : \A f \in 0..(T*K-1) :
     (DecodeRot_v0416(K, f) # DecodeRot(T, f)) => (T > 1 /\ K > 1)

(* ---------------------------------------------------------- lattice data *)
(* searched rotation sets, as matrices acting on (z,y,x) triples; identity is not first *)
RotSeqA == << <<<<1,0,0>>,<<0,0,-1>>,<<0,1,0>>>>,    \* +90 deg about z
              <<<<1,0,0>>,<<0,1,0>>,<<0,0,1>>>>,     \* identity
              <<<<-1,0,0>>,<<0,1,0>>,<<0,0,-1>>>>,   \* 180 deg about y
              <<<<0,1,0>>,<<0,0,1>>,<<1,0,0>>>> >>   \* 120 deg about (1,1,1)
RotSeqB == << <<<<1,0,0>>,<<0,1,0>>,<<0,0,1>>>>,     \* identity
              <<<<0,0,1>>,<<0,1,0>>,<<-1,0,0>>>>,    \* 90 deg about y
              <<<<0,-1,0>>,<<-1,0,0>>,<<0,0,-1>>>>,  \* 180 deg about (1,-1,0)
              <<<<0,0,1>>,<<1,0,0>>,<<0,1,0>>>> >>   \* 120 deg about (1,1,1), other sense
(* all 24 axis-aligned rotations in a fixed order (for searches with more than 256 candidates) *)
MKey(M) == (M[1][1] + 1) + 3 * (M[1][2] + 1) + 9 * (M[1][3] + 1) + 27 * (M[2][1] + 1) + 81 * (M[2][2] + 1) + 243 * (M[2][3] + 1)
           + 729 * (M[3][1] + 1) + 2187 * (M[3][2] + 1) + 6561 * (M[3][3] + 1)
Rot24Seq == SetToSortSeq(Rot24M, LAMBDA a, b : MKey(a) < MKey(b))
RotSeq(c) == IF c.rs = "A" THEN RotSeqA ELSE IF c.rs = "ALL" THEN Rot24Seq ELSE RotSeqB
RangeZ == << <<<<1,0,0>>,<<0,0,1>>,<<0,-1,0>>>>, <<<<1,0,0>>,<<0,1,0>>,<<0,0,1>>>>, <<<<1,0,0>>,<<0,0,-1>>,<<0,1,0>>>> >>
RangeX == << <<<<0,1,0>>,<<-1,0,0>>,<<0,0,1>>>>, <<<<1,0,0>>,<<0,1,0>>,<<0,0,1>>>>, <<<<0,-1,0>>,<<1,0,0>>,<<0,0,1>>>> >>
IsRange(drv) == drv \in {"model_range", "loader_range"}
RotsFor(c) == IF c.driver = "model_range" THEN RangeZ
              ELSE IF c.driver = "loader_range" THEN RangeX
              ELSE [i \in 1..c.K |-> RotSeq(c)[i]]
RotForm(c) == IF c.driver = "model_range" THEN "range_z" ELSE IF c.driver = "loader_range" THEN "range_x" ELSE "objects"
ShiftVec(s) == CASE s = "0" -> <<0,0,0>> [] s = "a" -> <<1,-1,0>> [] s = "b" -> <<-1,0,2>> [] s = "c" -> <<2,2,-2>>

(* ---------------------------------------------------------------- machine *)
Cfgs == {c \in [T : 1..MaxT, K : 1..MaxK, j : 0..(MaxT-1), k : 0..(MaxK-1),
               d : Shifts, driver : Drivers, model : Models, rs : {"A", "B"}] :
            /\ c.j < c.T /\ c.k < c.K
            \* align(stack) needs a hetero stack (T>=2) to go the multi-template way
            /\ (c.driver = "loader_stack" => c.T >= 2)
            /\ (IsRange(c.driver) => (c.K = 3 /\ c.rs = "A"))}

(* searches whose flat candidate index exceeds one byte: 11 templates x 24 rotations = 264 candidates *)
BigCfgs == {[T |-> 11, K |-> 24, j |-> jk[1], k |-> jk[2], d |-> "0", driver |-> drv, model |-> "ZNCC", rs |-> "ALL"] :
              jk \in {<<5, 23>>, <<10, 23>>, <<0, 12>>}, drv \in {"model", "loader_multi"}}
Init == /\ cfg \in Cfgs \cup (IF IncludeBig THEN BigCfgs ELSE {})
        /\ pc = "gen" /\ ri = 0 /\ ti = 0 /\ cands = <<>> /\ scores = <<>>
        /\ iopt = -1 /\ out = [label |-> -1, rot |-> -1, flat |-> -1]

Gen == /\ pc = "gen"
       /\ IF ri < cfg.K
          THEN /\ cands' = Append(cands, [rot |-> ri, tmpl |-> ti])
               /\ IF ti + 1 = cfg.T THEN ri' = ri + 1 /\ ti' = 0 ELSE ri' = ri /\ ti' = ti + 1
               /\ pc' = pc
          ELSE /\ pc' = "opt" /\ UNCHANGED <<cands, ri, ti>>
       /\ UNCHANGED <<cfg, scores, iopt, out>>

(* the planted candidate scores 2; a candidate sharing template or rotation 1; others 0 *)
ScoreOf(c) == IF c.rot = cfg.k /\ c.tmpl = cfg.j THEN 2
              ELSE IF c.rot = cfg.k \/ c.tmpl = cfg.j THEN 1 ELSE 0
Opt == /\ pc = "opt"
       /\ scores' = [f \in 1..Len(cands) |-> ScoreOf(cands[f])]
       /\ pc' = "argmax" /\ UNCHANGED <<cfg, ri, ti, cands, iopt, out>>

IsMax(f) == \A g \in 1..Len(scores) : scores[g] <= scores[f]
ArgMax == /\ pc = "argmax"
          /\ iopt' = (CHOOSE f \in 1..Len(scores) : IsMax(f) /\ \A g \in 1..(f-1) : ~IsMax(g)) - 1
          /\ pc' = "decode" /\ UNCHANGED <<cfg, ri, ti, cands, scores, out>>

Decode == /\ pc = "decode"
          /\ out' = [flat |-> iopt, label |-> DecodeTmpl(cfg.T, iopt), rot |-> DecodeRot(cfg.T, iopt)]
          /\ pc' = "done" /\ UNCHANGED <<cfg, ri, ti, cands, scores, iopt>>

Next == Gen \/ Opt \/ ArgMax \/ Decode
Spec == Init /\ [][Next]_vars

(* ---------------------------------------------------------------- properties *)
CandidateOrder == pc # "gen" =>
   /\ Len(cands) = cfg.T * cfg.K
   /\ \A f \in 1..Len(cands) : cands[f] = [rot |-> (f-1) \div cfg.T, tmpl |-> (f-1) % cfg.T]
Correct == pc = "done" => (out.label = cfg.j /\ out.rot = cfg.k /\ out.flat = FlatIndex(cfg.T, cfg.j, cfg.k))
DecodeBijective == (\A T \in 1..MaxT, K \in 1..MaxK : DecodeIsBijection(T, K)) /\ DecodeIsBijection(11, 24)
TypeOK == pc \in {"gen", "opt", "argmax", "decode", "done"}

Emit == pc = "done" => PrintT(ToJson([cfg |-> cfg, expect |-> out, rots |-> RotsFor(cfg),
                                        rotform |-> RotForm(cfg), shift |-> ShiftVec(cfg.d),
                                        quat |-> RotsFor(cfg)[out.rot + 1]]))
=============================================================================
