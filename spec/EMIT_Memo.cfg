CONSTANTS
  Cap = 4
  MaxDepth = 3
  KeyFields = {"a", "b", "c"}
  InPlaceUse = FALSE
SPECIFICATION Spec
INVARIANT EmitEvict
ACTION_CONSTRAINT EmitOfat
CHECK_DEADLOCK FALSE
