------------------------------- MODULE TaskPool -------------------------------
(* The task-collection layer under every loader (acryo/_dask.py: DaskTaskPool, DaskTaskList, NestedDaskTaskList,
   DaskArrayList, compute).   EXTENDED COVERAGE (bin/check X04), not a listed property.

   A pool is a sequence of argument values (one per submitted task); the pure function applied is f(x) = 10 x + pool id,
   so that every result says which pool and which submission it belongs to.  Two pools and a nested list are alive.
     add(p, x)           pool p gets one task with argument x at its end
     adds(p, n, x)       pool p gets n copies of that task
     nest_insert(i, p) / nest_set(i, p) / nest_del(i)    list operations on the nested collection of pools
   Whatever is computed - one pool, both pools in one graph, the nested list, arrays made from the tasks, a stack -
   result k of a collection is f(argument k of THAT collection): order of submission, nothing shared between pools. *)
EXTENDS Integers, Sequences, FiniteSets, TLC, Json

CONSTANTS MaxDepth, MaxLen
VARIABLES pools, nest, depth, hist
vars == <<pools, nest, depth, hist>>

Args == 0..2
F(p, x) == 10 * x + p
Result(p) == [i \in 1..Len(pools[p]) |-> F(p, pools[p][i])]
Rep(n, x) == [i \in 1..n |-> x]
InsertAt(s, i, e) == SubSeq(s, 1, i - 1) \o <<e>> \o SubSeq(s, i, Len(s))
RemoveAt(s, i) == SubSeq(s, 1, i - 1) \o SubSeq(s, i + 1, Len(s))

Ops == {[name |-> "add", p |-> p, x |-> x] : p \in 1..2, x \in Args}
  \cup {[name |-> "adds", p |-> p, n |-> n, x |-> x] : p \in 1..2, n \in 2..3, x \in Args}
  \cup {[name |-> "nest_insert", i |-> i, p |-> p] : i \in 1..3, p \in 1..2}
  \cup {[name |-> "nest_set", i |-> i, p |-> p] : i \in 1..2, p \in 1..2}
  \cup {[name |-> "nest_del", i |-> i] : i \in 1..2}

Do(op) ==
  /\ depth < MaxDepth
  /\ CASE op.name = "add"  -> pools' = [pools EXCEPT ![op.p] = Append(@, op.x)] /\ Len(pools'[op.p]) <= MaxLen /\ UNCHANGED nest
       [] op.name = "adds" -> pools' = [pools EXCEPT ![op.p] = @ \o Rep(op.n, op.x)] /\ Len(pools'[op.p]) <= MaxLen /\ UNCHANGED nest
       [] op.name = "nest_insert" -> op.i <= Len(nest) + 1 /\ Len(nest) < 3 /\ nest' = InsertAt(nest, op.i, op.p) /\ UNCHANGED pools
       [] op.name = "nest_set" -> op.i <= Len(nest) /\ nest' = [nest EXCEPT ![op.i] = op.p] /\ UNCHANGED pools
       [] op.name = "nest_del" -> op.i <= Len(nest) /\ nest' = RemoveAt(nest, op.i) /\ UNCHANGED pools
  /\ depth' = depth + 1 /\ hist' = Append(hist, op)
Init == pools = <<<<>>, <<>>>> /\ nest = <<>> /\ depth = 0 /\ hist = <<>>
Next == \E op \in Ops : Do(op)
Spec == Init /\ [][Next]_vars

(* the nested list holds REFERENCES to the pools: its result follows later additions to a pool *)
NestResult == [i \in 1..Len(nest) |-> Result(nest[i])]
OrderIsSubmissionOrder == \A p \in 1..2 : \A i \in 1..Len(pools[p]) : Result(p)[i] % 10 = p /\ Result(p)[i] \div 10 = pools[p][i]
View == <<pools, nest, depth>>
EmitProgram == depth = MaxDepth => PrintT(ToJson([prog |-> hist, r1 |-> Result(1), r2 |-> Result(2), nest |-> NestResult]))
=============================================================================
