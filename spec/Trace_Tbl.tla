------------------------------ MODULE Trace_Tbl ------------------------------
(* Trace validation (code -> spec) for Molecules table operations: every recorded event
   [op, A, B, out] must be an outcome the specification permits (TblOps!Accepts).
   The verdict is total: every event is judged, rejected ones are listed with the clause. *)
EXTENDS TblOps, TLCExt, Json, IOUtils
Tr == ndJsonDeserialize(IOEnv.TRACE_FILE)
VARIABLES l, bad
Init == l = 1 /\ bad = <<>>
(* no object the session has seen earlier may change, except the receiver of an append (counted by the recorder, which keeps the
   real objects: a result that IS one of the operands would be dragged along by a later in-place operation) *)
Judge(e) == LET w == Why(e.op, e.A, e.B, e.out) IN IF w # "ok" THEN w ELSE IF e.out.earlier_altered > 0 THEN "EarlierObjectAltered" ELSE "ok"
Next == /\ l <= Len(Tr)
        /\ bad' = IF Judge(Tr[l]) = "ok" THEN bad
                  ELSE Append(bad, [i |-> l, why |-> Judge(Tr[l]), ctx |-> Ctx(Tr[l].op, Tr[l].A), id |-> Tr[l].id])
        /\ l' = l + 1
Spec == Init /\ [][Next]_<<l, bad>>
Done == l = Len(Tr) + 1 => PrintT(ToJson([verdict |-> "done", n |-> Len(Tr), bad |-> bad]))
==============================================================================
