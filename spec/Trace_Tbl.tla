------------------------------ MODULE Trace_Tbl ------------------------------
(* Trace validation (code -> spec) for Molecules table operations: every recorded event
   [op, A, B, out] must be an outcome the specification permits (TblOps!Accepts).
   The verdict is total: every event is judged, rejected ones are listed with the clause. *)
EXTENDS TblOps, TLCExt, Json, IOUtils
Tr == ndJsonDeserialize(IOEnv.TRACE_FILE)
VARIABLES l, bad
Init == l = 1 /\ bad = <<>>
Judge(e) == Why(e.op, e.A, e.B, e.out)
Next == /\ l <= Len(Tr)
        /\ bad' = IF Judge(Tr[l]) = "ok" THEN bad
                  ELSE Append(bad, [i |-> l, why |-> Judge(Tr[l]), ctx |-> Ctx(Tr[l].op, Tr[l].A), id |-> Tr[l].id])
        /\ l' = l + 1
Spec == Init /\ [][Next]_<<l, bad>>
Done == l = Len(Tr) + 1 => PrintT(ToJson([verdict |-> "done", n |-> Len(Tr), bad |-> bad]))
==============================================================================
