CONSTANTS
  MaxRows = 5
  MaxDepth = 3
  InitRowsA = {0, 1, 2, 3}
  WithEmptyB = FALSE
SPECIFICATION Spec
VIEW View
INVARIANT RowsIntact
INVARIANT LengthsAgree
INVARIANT GroupsPartition
INVARIANT Selection
CHECK_DEADLOCK FALSE
