CONSTANTS
  MaxDepth = 2
  MaxRows = 6
  MaxImgs = 3
  SmallInit = FALSE
SPECIFICATION Spec
VIEW View
INVARIANT RowAligned
INVARIANT ImagesConsistent
INVARIANT GroupsPartition
INVARIANT DefectCharacterised
INVARIANT WellFormedL
CHECK_DEADLOCK FALSE
