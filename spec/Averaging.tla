------------------------------ MODULE Averaging ------------------------------
(* Averages and half-map splits (acryo/loader/_base.py: average, average_split,
   construct_dask; _group.py: LoaderGroup.average / average_split; _misc.py: random_splitter).

   A loaded sub-volume is abstracted to a weighted one-hot vector: sub_i = w_i * e_{v_i}
   (the harness builds tomograms in which molecule i's box contains a single marker voxel v_i of
   weight w_i and verifies this on the real loaded sub-volumes).  Images are sparse maps
   voxel -> rational <<num, den>>.

   P layer:  Average(subs)[v] = (sum of w_i with v_i = v) / n
             Split: two disjoint, jointly exhaustive halves, both non-empty for n >= 2;
                    half h is the average of its own rows; a function of the seed. *)
EXTENDS Integers, Sequences, FiniteSets, TLC, FiniteSetsExt

RatEq(a, b) == a[1] * b[2] = b[1] * a[2]
SumOver(S, f(_)) == FoldSet(LAMBDA x, acc : f(x) + acc, 0, S)

(* subs: sequence of [v |-> voxel, w |-> weight];  idx: set of row indices *)
WeightAt(subs, idx, v) == SumOver({i \in idx : subs[i].v = v}, LAMBDA i : subs[i].w)
Support(subs, idx) == {subs[i].v : i \in idx}
(* img: sequence of [v |-> voxel, q |-> <<num, den>>] (non-zero voxels only) *)
IsAverageOf(img, subs, idx) ==
  /\ idx # {}
  /\ {img[j].v : j \in 1..Len(img)} = Support(subs, idx)
  /\ \A j, k \in 1..Len(img) : j # k => img[j].v # img[k].v
  /\ \A j \in 1..Len(img) : RatEq(img[j].q, <<WeightAt(subs, idx, img[j].v), Cardinality(idx)>>)

(* a split outcome names the two index sets; the observed half maps must be their averages *)
IsSplitOf(subs, H0, H1, h0, h1) ==
  LET all == 1..Len(subs) IN
  /\ H0 \cup H1 = all /\ H0 \cap H1 = {}
  /\ (Len(subs) >= 2 => H0 # {} /\ H1 # {})
  /\ IsAverageOf(h0, subs, H0) /\ IsAverageOf(h1, subs, H1)

(* the consequence stated in the property, as a law over all bipartitions (checked by TLC):
   n * Average = |H0| * half0 + |H1| * half1, voxel by voxel, in integers *)
SplitLaw(subs) ==
  LET all == 1..Len(subs) IN
  \A H0 \in SUBSET all : LET H1 == all \ H0 IN
    (H0 # {} /\ H1 # {}) =>
      \A v \in Support(subs, all) : WeightAt(subs, all, v) = WeightAt(subs, H0, v) + WeightAt(subs, H1, v)
=============================================================================
