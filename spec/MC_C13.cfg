SPECIFICATION Spec
INVARIANT AcceptorLaws
INVARIANT Emit
CHECK_DEADLOCK FALSE
