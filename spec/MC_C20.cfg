CONSTANTS
  MaxN = 24
  MaxD = 6
SPECIFICATION Spec
INVARIANT ExactlyOnceAtTruePosition
INVARIANT V0416Characterised
INVARIANT MergeExact
INVARIANT InputChunksHazard
INVARIANT MergesExist
INVARIANT ThinAxis
INVARIANT ExactlyOneOwnerHalfPixel
INVARIANT ClosedWindowHazard
INVARIANT LandscapeEdge
INVARIANT SideMaxima
INVARIANT EmitEven
INVARIANT BallNotCube
INVARIANT EmitSlab
INVARIANT Emit
CHECK_DEADLOCK FALSE
