CONSTANTS
  MaxN = 24
  MaxD = 6
SPECIFICATION Spec
INVARIANT ExactlyOnceAtTruePosition
INVARIANT V0416Characterised
INVARIANT Emit
CHECK_DEADLOCK FALSE
