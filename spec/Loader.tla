------------------------------- MODULE Loader -------------------------------
(* Subtomogram loaders as bookkeeping objects (acryo/loader/_loader.py, _batch.py,
   _group.py, _base.py): which molecule a row is, which tomogram it is loaded from,
   what every per-molecule computation must be paired with.

   A loader is [kind |-> "single" | "batch", tab |-> molecule table, imgs |-> sequence of
   registered image ids (sorted), img |-> image id of a single loader, bin |-> binning].
   For a batch loader the table carries the column "img" (the real "image-id" feature).
   The identity-encoding tomograms of the harness make a loaded sub-volume reveal
   (image id, voxel) and hence [img, uid]; that pair is what observations consist of. *)
EXTENDS Molecules

Loader(kind, tab, imgs, img, bin) == [kind |-> kind, tab |-> tab, imgs |-> imgs, img |-> img, bin |-> bin]
ImgOf(L, r) == IF L.kind = "single" THEN L.img ELSE r.f["img"]

(* P layer: the i-th loaded sub-volume / result / feature row belongs to row i *)
LoadP(L) == [i \in 1..NRows(L.tab) |-> [img |-> ImgOf(L, L.tab.rows[i]), uid |-> L.tab.rows[i].uid]]

SortedSeqOfSet(S) == SetToSortSeq(S, LAMBDA a, b : a < b)
ImgsUsed(L, tab) == IF L.kind = "single" THEN L.imgs
                    ELSE SortedSeqOfSet({tab.rows[i].f["img"] : i \in 1..NRows(tab)})
(* a derived loader: new molecule table, images restricted to the ones still referenced *)
Derive(L, tab) == Loader(L.kind, tab, ImgsUsed(L, tab), L.img, L.bin)

(* named historical deviation (acryo 0.4.16 as pinned): BatchLoader.construct_loading_tasks
   concatenated per-image task lists in first-appearance order of the image ids while the
   per-row keyword arguments stayed in row order *)
FirstImgs(L) == LET t == L.tab IN
  SelectSeq([i \in 1..NRows(t) |-> [i |-> i, m |-> ImgOf(L, t.rows[i])]],
            LAMBDA x : \A j \in 1..(x.i - 1) : ImgOf(L, t.rows[j]) # x.m)
Load_v0416(L) == LET fi == FirstImgs(L)
                     grp(m) == SelectSeq(L.tab.rows, LAMBDA r : ImgOf(L, r) = m)
                     cat == FoldLeft(LAMBDA acc, x : acc \o grp(x.m), <<>>, fi)
                 IN [i \in 1..Len(cat) |-> [img |-> ImgOf(L, cat[i]), uid |-> cat[i].uid]]
Interleaved(L) == \E i, j, k \in 1..NRows(L.tab) : i < j /\ j < k
                     /\ ImgOf(L, L.tab.rows[i]) = ImgOf(L, L.tab.rows[k]) /\ ImgOf(L, L.tab.rows[j]) # ImgOf(L, L.tab.rows[i])
V0416WrongIffInterleaved(L) == (Load_v0416(L) # LoadP(L)) <=> Interleaved(L)

(* add_tomogram: mutates the receiver, copies the passed molecules *)
ImgSet(L) == {L.imgs[i] : i \in 1..Len(L.imgs)}
(* the id the code generates: the first n >= number of images that is free; the property
   only needs a FRESH id, which is what the acceptor demands *)
NextImgId(L) == CHOOSE n \in Len(L.imgs)..(2 * Len(L.imgs) + 1) : n \notin ImgSet(L) /\ \A m \in Len(L.imgs)..(n-1) : m \in ImgSet(L)
FreshIds(L) == (0..(2 * Len(L.imgs) + 8)) \ ImgSet(L)
Tagged(tab, id) ==
  LET cols == IF HasCol(tab, "img") THEN tab.cols ELSE Append(tab.cols, "img")
  IN Table(cols, [i \in 1..NRows(tab) |->
        [uid |-> tab.rows[i].uid,
         f |-> [c \in {cols[j] : j \in 1..Len(cols)} |-> IF c = "img" THEN id ELSE tab.rows[i].f[c]]]])
AddTomogram_(L, tab, id) ==
  LET new == Tagged(tab, id)
      cat == IF NRows(L.tab) = 0 THEN new ELSE ConcatWith_(L.tab, new)
  IN Loader("batch", cat, SortedSeqOfSet({L.imgs[i] : i \in 1..Len(L.imgs)} \cup {id}), L.img, L.bin)

(* add_loader / from_loaders: the molecules of ANOTHER loader X arrive together with the tomograms they were registered with.
   X is made of the spare table T.  form "single": a SubtomogramLoader, one tomogram (codes[1]) for all rows of T;
   form "batch2": a BatchLoader in which row i of T sits in its own tomogram codes[i] (registered under ids of X's own choosing:
   ids are local to a batch, the tomogram a row loads from is not).  A tomogram is identified by its content (code). *)
XTabs(T, form) == IF form = "single" THEN <<T>> ELSE [i \in 1..NRows(T) |-> Table(T.cols, <<T.rows[i]>>)]
AddLoader_(L, T, form, codes) ==
  LET xs == XTabs(T, form) IN FoldLeft(LAMBDA acc, i : AddTomogram_(acc, xs[i], codes[i]), L, [i \in 1..Len(xs) |-> i])
EmptyBatch == Loader("batch", Table(<<"img">>, <<>>), <<>>, -1, 1)
AsBatch(L) == IF L.kind = "batch" THEN L ELSE AddTomogram_(EmptyBatch, L.tab, L.img)
FromLoaders_(L, T, form, codes) == AddLoader_(AsBatch(L), T, form, codes)
Fresh2(L) == LET a == NextImgId(L) IN
  <<a, CHOOSE n \in (a + 1)..(a + Len(L.imgs) + 2) : n \notin ImgSet(L) /\ \A m \in (a + 1)..(n - 1) : m \in ImgSet(L)>>

(* grouping of a loader: partition of the rows; each group is a derived loader *)
IsLoaderGrouping(L, col, groups) ==
  /\ IsGrouping(L.tab, col, [i \in 1..Len(groups) |-> [key |-> groups[i].key, tab |-> groups[i].ldr.tab]])
  /\ \A i \in 1..Len(groups) : groups[i].ldr.kind = L.kind /\ groups[i].ldr.tab.cols = L.tab.cols
=============================================================================
