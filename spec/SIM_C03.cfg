CONSTANTS
  MaxDepth = 6
  MaxRows = 6
  MaxImgs = 3
  SmallInit = FALSE
SPECIFICATION Spec
INVARIANT EmitProgram
CHECK_DEADLOCK FALSE
