CONSTANTS
  N = 3
  W = 2
  Design = "shared"
SPECIFICATION Spec
INVARIANT EachTaskDrawsItsOwnNoise
INVARIANT AtMostW
CHECK_DEADLOCK FALSE
