------------------------------- MODULE AvgOps -------------------------------
(* Acceptor for averaging events recorded on real loaders, and the case generator. *)
EXTENDS Averaging, Json, SequencesExt

(* event: [op, subs (markers of the rows in order), keys (group key per row, for group ops), out] *)
Accepts(e) ==
  CASE e.op = "average" -> IsAverageOf(e.out.avg, e.subs, 1..Len(e.subs))
    [] e.op = "average_split" ->
         /\ \A s \in 1..Len(e.out.sets) :
              \E H0 \in SUBSET (1..Len(e.subs)) : IsSplitOf(e.subs, H0, (1..Len(e.subs)) \ H0, e.out.sets[s].h0, e.out.sets[s].h1)
         /\ e.out.sets2 = e.out.sets                                   \* reproducible for a given seed
         /\ Len(e.out.sets) = e.n_set
    [] e.op = "group_average" ->
         /\ {e.out.groups[g].key : g \in 1..Len(e.out.groups)} = {e.keys[i] : i \in 1..Len(e.keys)}
         /\ \A g \in 1..Len(e.out.groups) :
              IsAverageOf(e.out.groups[g].avg, e.subs, {i \in 1..Len(e.subs) : e.keys[i] = e.out.groups[g].key})
    [] e.op = "group_average_split" ->
         /\ {e.out.groups[g].key : g \in 1..Len(e.out.groups)} = {e.keys[i] : i \in 1..Len(e.keys)}
         /\ \A g \in 1..Len(e.out.groups) :
              LET rows == {i \in 1..Len(e.subs) : e.keys[i] = e.out.groups[g].key}
                  loc == SetToSortSeq(rows, LAMBDA a, b : a < b)
                  sub == [j \in 1..Len(loc) |-> e.subs[loc[j]]]
              IN \A s \in 1..Len(e.out.groups[g].sets) :
                   \E H0 \in SUBSET (1..Len(sub)) :
                      IsSplitOf(sub, H0, (1..Len(sub)) \ H0, e.out.groups[g].sets[s].h0, e.out.groups[g].sets[s].h1)
Why(e) == IF e.out.err # "" THEN "UnexpectedError"
          ELSE IF Accepts(e) THEN "ok"
          ELSE IF e.op = "average" THEN "NotTheMean"
          ELSE IF e.op = "average_split" /\ e.out.sets2 # e.out.sets THEN "NotReproducible"
          ELSE IF e.op \in {"average_split", "group_average_split"} THEN "NotABipartitionMean"
          ELSE "GroupMeanWrong"
=============================================================================
