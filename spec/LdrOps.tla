------------------------------- MODULE LdrOps -------------------------------
(* Public loader operations as a relation (see TblOps.tla for the pattern).

   op.name:  add_tomogram | add_loader / from_loaders (op.form: single/batch2, op.codes) | derive (op.how: head/tail/filter/sample/sort/subset_list/copy/binning)
           | observe (op.via: asnumpy/load_each/load_iter/dask/align/score/apply/landscape)
           | groupby (op.col, op.gop: none/filter/head/tail/sample/align)
   outcome:  [L, T, res, obs, groups, groups2, err]
     L, T     receiver / operand after the call (to detect mutation)
     res      derived loader (derive, observe via align) or NoLdr
     obs      observations [img, uid] in result order (observe)
     groups   <<[key, ldr, obs]>> from the first iteration of the group, groups2 from the second *)
EXTENDS Loader

NoLdr == Loader("none", Table(<<>>, <<>>), <<>>, -1, 1)
SameTab(x, y) == x.cols = y.cols /\ x.rows = y.rows
SameLdr(x, y) == x.kind = y.kind /\ SameTab(x.tab, y.tab) /\ x.imgs = y.imgs /\ x.img = y.img /\ x.bin = y.bin

(* permitted molecule tables of a derivation *)
TabResults(how, tab) ==
  CASE how.name = "head"        -> {Head_(tab, how.n)}
    [] how.name = "tail"        -> {Tail_(tab, how.n)}
    [] how.name = "filter"      -> {Filter_(tab, how.pred)}
    [] how.name = "sample"      -> SampleAllowed(tab, how.n)
    [] how.name = "sort"        -> SortAllowed(tab, how.col, how.desc)
    [] how.name = "subset_list" -> {SubsetList(tab, how.idx)}
    [] how.name = "copy"        -> {tab}
    [] how.name = "binning"     -> {tab}
    [] how.name = "roundtrip"   -> {tab}          \* molecules saved to a file (csv / parquet) and reloaded (C13 in a session)
TabAccepts(how, tab, t2) ==
  CASE how.name = "sample" -> IF how.n > NRows(tab) THEN FALSE
                              ELSE /\ t2.cols = tab.cols /\ NRows(t2) = how.n
                                   /\ \E q \in Injections(how.n, NRows(tab)) : \A i \in 1..how.n : t2.rows[i] = tab.rows[q[i]]
    [] how.name = "sort"   -> HasCol(tab, how.col) /\ t2.cols = tab.cols /\ IsPermOf(t2.rows, tab.rows) /\ SortedBy(t2.rows, how.col, how.desc)
    [] OTHER -> \E r \in TabResults(how, tab) : ~IsErr(r) /\ SameTab(t2, r)
TabMustFail(how, tab) == \A r \in TabResults(how, tab) : IsErr(r)

BinOf(how) == IF how.name = "binning" THEN how.b ELSE 1
DeriveL(L, how, tab) == Loader(L.kind, tab, ImgsUsed(L, tab), L.img, L.bin * BinOf(how))

(* generator: the permitted successor receivers / results *)
NextRes(op, L, T) ==
  CASE op.name = "add_tomogram" -> {AddTomogram_(L, T, NextImgId(L))}
    [] op.name = "derive"       -> {DeriveL(L, op.how, r) : r \in {x \in TabResults(op.how, L.tab) : ~IsErr(x)}}
    [] op.name = "add_loader"   -> {AddLoader_(L, T, op.form, op.codes)}
    [] op.name = "from_loaders" -> {FromLoaders_(L, T, op.form, op.codes)}
    [] OTHER                    -> {L}

(* acceptor *)
Untouched(L, T, o) == SameLdr(o.L, L) /\ SameTab(o.T, T)
ObsOk(L, obs) == obs = LoadP(L)
GroupTab(L, op, key) ==   \* the rows a group must contain, before the per-group operation
  Table(L.tab.cols, GroupRows(L.tab, op.col, key))
GopHow(g) == IF g.name \in {"sample_noseed", "sample_noseed_align"} THEN [name |-> "sample", n |-> g.n] ELSE g
GroupEntryOk(L, op, g) ==
  /\ g.key \in KeysOf(L.tab, op.col)
  /\ g.ldr.kind = L.kind
  \* none / align / apply leave the group's rows as they are; sample without a seed is still ONE selection (GopHow); the
  \* observation of an `apply` is the table it returns for the group, row by row
  /\ IF op.gop.name \in {"none", "align", "apply"} THEN g.ldr.tab.cols = L.tab.cols /\ IsPermOf(g.ldr.tab.rows, GroupRows(L.tab, op.col, g.key))
     ELSE TabAccepts(GopHow(op.gop), GroupTab(L, op, g.key), g.ldr.tab)
  /\ ObsOk(g.ldr, g.obs)
GroupsOk(L, op, groups) ==
  /\ {groups[i].key : i \in 1..Len(groups)} = KeysOf(L.tab, op.col)
  /\ \A i, j \in 1..Len(groups) : i # j => groups[i].key # groups[j].key
  /\ \A i \in 1..Len(groups) : GroupEntryOk(L, op, groups[i])

Accepts(op, L, T, o) ==
  CASE op.name = "add_tomogram" ->
         /\ o.err = "" /\ SameTab(o.T, T)
         /\ (\E id \in FreshIds(L) : SameLdr(o.L, AddTomogram_(L, T, id))) /\ SameLdr(o.res, o.L)
    \* add_loader (mutates the receiver like add_tomogram) and from_loaders (a new batch; the receiver is its first member): the rows
    \* of the merged batch are the rows of both, each tagged with ITS tomogram (the order of the rows is not claimed), X's molecules
    \* are untouched, and row i of the merged batch loads from row i's tomogram
    [] op.name = "add_loader" ->
         LET want == AddLoader_(L, T, op.form, op.codes) IN
         /\ o.err = "" /\ SameTab(o.T, T)
         /\ o.L.kind = "batch" /\ o.L.bin = L.bin /\ o.L.imgs = want.imgs
         /\ o.L.tab.cols = want.tab.cols /\ IsPermOf(o.L.tab.rows, want.tab.rows)
         /\ SameLdr(o.res, o.L) /\ o.obs = LoadP(o.L)
    [] op.name = "from_loaders" ->
         LET want == FromLoaders_(L, T, op.form, op.codes) IN
         /\ o.err = "" /\ Untouched(L, T, o)
         /\ o.res.kind = "batch" /\ o.res.bin = 1 /\ o.res.imgs = want.imgs
         /\ o.res.tab.cols = want.tab.cols /\ IsPermOf(o.res.tab.rows, want.tab.rows)
         /\ o.obs = LoadP(o.res)
    [] op.name = "derive" ->
         IF TabMustFail(op.how, L.tab) THEN o.err # "" /\ Untouched(L, T, o)
         ELSE /\ o.err = "" /\ Untouched(L, T, o)
              /\ TabAccepts(op.how, L.tab, o.res.tab)
              /\ SameLdr(o.res, DeriveL(L, op.how, o.res.tab))
    [] op.name = "observe" ->
         \* computations on an empty loader are not claimed (they may raise)
         IF NRows(L.tab) = 0 THEN Untouched(L, T, o)
         ELSE /\ o.err = "" /\ Untouched(L, T, o) /\ ObsOk(L, o.obs)
              /\ (op.via = "align" => SameLdr(o.res, L))
              \* average (C09 in a session): n * centre voxel of the average = sum of the rows' identity codes
              /\ (op.via = "average" => o.avg_n = FoldLeft(LAMBDA acc, c : acc + c, 0, o.codes) /\ Len(o.codes) = NRows(L.tab))
    \* fork: a second object is derived WITHOUT new molecules (copy / replace(order=...) / binning(1) / reshape); it becomes the
    \* receiver, the old object stays alive as the sibling.  swap: the user goes back to the sibling.
    [] op.name \in {"fork", "swap"} -> o.err = "" /\ Untouched(L, T, o) /\ SameLdr(o.res, L)
    [] op.name = "groupby" ->
         IF NRows(L.tab) = 0 THEN Untouched(L, T, o)
         ELSE /\ o.err = "" /\ Untouched(L, T, o)
              /\ GroupsOk(L, op, o.groups)
              /\ o.groups2 = o.groups                      \* Reiterable

Why(op, L, T, o) ==
  IF Accepts(op, L, T, o) THEN "ok"
  ELSE IF o.err # "" /\ ~(op.name = "derive" /\ TabMustFail(op.how, L.tab)) THEN "UnexpectedError"
  ELSE IF op.name \in {"fork", "swap"} /\ Untouched(L, T, o) THEN "ForkedLoaderDiffers"
  ELSE IF op.name \notin {"add_tomogram", "add_loader"} /\ ~Untouched(L, T, o) THEN "ParentMutated"
  ELSE IF op.name \in {"add_tomogram", "add_loader"} /\ ~SameTab(o.T, T) THEN "OperandMutated"
  ELSE IF op.name = "add_tomogram" THEN "WrongRegistry"
  ELSE IF op.name = "add_loader" THEN (IF o.obs # LoadP(o.L) THEN "RowNotAligned" ELSE "WrongRegistry")
  ELSE IF op.name = "from_loaders" THEN (IF o.obs # LoadP(o.res) THEN "RowNotAligned" ELSE "MergedLoaderWrong")
  ELSE IF op.name = "derive" /\ ~TabAccepts(op.how, L.tab, o.res.tab) THEN "DerivedRowsWrong"
  ELSE IF op.name = "derive" THEN "DerivedLoaderWrong"
  ELSE IF op.name = "observe" /\ ~ObsOk(L, o.obs) THEN "RowNotAligned"
  ELSE IF op.name = "observe" /\ op.via = "average" THEN "AverageNotTheMean"
  ELSE IF op.name = "observe" THEN "ResultRowsWrong"
  ELSE IF op.name = "groupby" /\ GroupsOk(L, op, o.groups) THEN "NotReiterable"
  ELSE IF op.name = "groupby" /\ \E i \in 1..Len(o.groups) : ~ObsOk(o.groups[i].ldr, o.groups[i].obs) THEN "GroupRowNotAligned"
  ELSE "GroupsNotPartition"

(* the sibling of a fork is a separate object: no later operation on the receiver may change it (registry, rows, what its
   rows load), and vice versa *)
SiblingWhy(S, o) ==
  IF S.kind = "none" THEN "ok"
  ELSE IF ~SameLdr(o.S, S) THEN "EarlierObjectAltered"
  ELSE IF NRows(S.tab) > 0 /\ S.bin = 1 /\ o.sobs # LoadP(S) THEN "EarlierObjectRowsWrong"
  ELSE "ok"
Ctx(op, L) == IF Interleaved(L) THEN "interleaved" ELSE "contiguous"
=============================================================================
