CONSTANTS
  Cases <- CasesQ
SPECIFICATION Spec
INVARIANT Identity
INVARIANT BlocksInside
INVARIANT Emit
CHECK_DEADLOCK FALSE
