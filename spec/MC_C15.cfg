CONSTANTS
  Cases <- CasesQ
SPECIFICATION Spec
INVARIANT Identity
INVARIANT ChainLaw
INVARIANT BlocksInside
INVARIANT Emit
CHECK_DEADLOCK FALSE
