-------------------------------- MODULE Picker --------------------------------
(* Chunked particle picking (acryo/pick/_base.py: BasePickerModel.pick_molecules,
   _pick_in_chunk_wrapped; pick/_concrete.py).

   One axis suffices for the bookkeeping (the axes are independent):
     extent n, chunk sizes c_1..c_k (after dask has merged chunks smaller than the overlap depth),
     overlap depth d, a particle at voxel x.
     Chunk i owns the core [start_i, start_i + c_i) and sees the overlapped block
     [start_i - d, start_i + c_i + d)  (values outside the image come from the boundary rule).
     In block coordinates the particle is at  local = x - start_i + d.
   P layer: the union over chunks, mapped to global coordinates, with every particle reported once,
            equals the planted set - whatever the chunking.
   I layer (repaired): a chunk reports a pick iff it lies in its core (0 <= local - d < c_i) and maps it
            to  local - d + start_i.
   Named historical deviation (acryo 0.4.16): every chunk reported everything it saw, and the offset
   added was the start of the chunk in the EXPANDED (overlapped, untrimmed) array,
   start_i + 2*d*(i-1), so picks were displaced by 2*d per preceding chunk and duplicated in overlaps. *)
EXTENDS Integers, Sequences, FiniteSets, TLC, Json, SequencesExt, FiniteSetsExt

RECURSIVE SumTo(_, _)
SumTo(c, i) == IF i = 0 THEN 0 ELSE c[i] + SumTo(c, i - 1)
StartOf(c, i) == SumTo(c, i - 1)
Sees(c, d, i, x) == StartOf(c, i) - d <= x /\ x < StartOf(c, i) + c[i] + d
Local(c, d, i, x) == x - StartOf(c, i) + d
InCore(c, d, i, x) == 0 <= Local(c, d, i, x) - d /\ Local(c, d, i, x) - d < c[i]
Reported(c, d, x) == {Local(c, d, i, x) - d + StartOf(c, i) : i \in {j \in 1..Len(c) : Sees(c, d, j, x) /\ InCore(c, d, j, x)}}
ReportCount(c, d, x) == Cardinality({j \in 1..Len(c) : Sees(c, d, j, x) /\ InCore(c, d, j, x)})
(* historical *)
Reported_v0416(c, d, x) == {Local(c, d, i, x) + StartOf(c, i) + 2 * d * (i - 1) - d : i \in {j \in 1..Len(c) : Sees(c, d, j, x)}}
ReportCount_v0416(c, d, x) == Cardinality({j \in 1..Len(c) : Sees(c, d, j, x)})
(* dask merges chunks smaller than the overlap depth before overlapping.  The blocks that are processed are those of the
   MERGED partition m (a coarsening of the input partition c); the repaired code derives cores and offsets from m.
   Named hazard "core from input chunks": block i of m is trimmed and offset with extent/start of chunk i of c. *)
RECURSIVE Coarsenings(_)
Coarsenings(c) == IF Len(c) <= 1 THEN {c}
                  ELSE LET rest == Coarsenings(Tail(c)) IN
                       {<<c[1]>> \o r : r \in rest} \cup {<<c[1] + r[1]>> \o Tail(r) : r \in rest}
LegalMerges(c, d) == {m \in Coarsenings(c) : \A i \in 1..Len(m) : m[i] >= d \/ Len(m) = 1}
ReportedFromInputChunks(c, m, d, x) ==
  {Local(m, d, i, x) - d + StartOf(c, i) : i \in {j \in 1..Len(m) : Sees(m, d, j, x) /\ 0 <= Local(m, d, j, x) - d /\ Local(m, d, j, x) - d < c[j]}}

(* ---- half-pixel picks and the extent of a template matcher's landscape (doubled coordinates: x2 = 2 x) ----
   A template of size s pasted with its first voxel at k has its centre at k + (s - 1) / 2: a half pixel for even s.  The keep-window
   of _pick_in_chunk_wrapped is HALF OPEN, -1/2 <= local < c_i - 1/2, so a pick lying exactly on a chunk boundary belongs to the
   chunk that starts there.  Named hazard "closed window" (|local - centre| <= c_i / 2): both neighbours keep such a pick. *)
InCore2(c, i, x2) == -1 <= x2 - 2 * StartOf(c, i) /\ x2 - 2 * StartOf(c, i) < 2 * c[i] - 1
InCore2Closed(c, i, x2) == -1 <= x2 - 2 * StartOf(c, i) /\ x2 - 2 * StartOf(c, i) <= 2 * c[i] - 1
Owners2(c, x2) == {i \in 1..Len(c) : InCore2(c, i, x2)}
Owners2Closed(c, x2) == {i \in 1..Len(c) : InCore2Closed(c, i, x2)}
(* The correlation landscape of block i (core c_i plus d on both sides, B = c_i + 2 d voxels) against a template of size s has
   B - s - 1 samples, sample j at block coordinate (s + 1) / 2 + j, i.e. at  local2 = (s + 1) + 2 j - 2 d  relative to the core.  A
   maximum search cannot tell a true peak from a slope at the first and the last sample, so both must lie OUTSIDE the keep-window
   (EdgeOutsideWindow); the depth rule has to guarantee it for even and for odd sizes. *)
LandFirst2(s, d) == (s + 1) - 2 * d
LandLast2(s, d, ci) == (s + 1) + 2 * (ci + 2 * d - s - 2) - 2 * d
InWindow2(l2, ci) == -1 <= l2 /\ l2 < 2 * ci - 1
EdgeOutsideWindow(s, d, ci) == ~InWindow2(LandFirst2(s, d), ci) /\ ~InWindow2(LandLast2(s, d, ci), ci)
WindowCovered(s, d, ci) == LandFirst2(s, d) < -1 /\ LandLast2(s, d, ci) >= 2 * ci - 1      \* every pick of the window has both neighbours
DepthRule(s) == s \div 2 + 2                       \* the code (after the repair)
DepthRuleCeil(s) == (s + 1) \div 2 + 1             \* named historical rule: ceil(s / 2) + 1 - one pixel short for even s

(* ---- exclusion distance versus the margin of a chunk's landscape (the known finding C20-side-maximum-across-chunk-border) ----
   One axis, integer positions.  A main peak at x and a weaker side maximum at y, |x - y| <= r (the exclusion distance in pixels):
   on the whole image the side maximum is suppressed.  Chunk i reports y iff it owns y and does NOT see x inside its landscape,
   which extends mg pixels beyond its core on both sides.  The side maximum is suppressed under every chunking iff r <= mg. *)
SeesInLandscape(c, i, mg, x) == StartOf(c, i) - mg <= x /\ x < StartOf(c, i) + c[i] + mg
OwnerOf(c, y) == CHOOSE i \in 1..Len(c) : StartOf(c, i) <= y /\ y < StartOf(c, i) + c[i]
SideSuppressed(c, mg, x, y) == SeesInLandscape(c, OwnerOf(c, y), mg, x)

(* exclusion region of find_maxima: a BALL of radius r (r10 = 10 r) in pixels, not the enclosing cube *)
CeilDiv10(r10) == (r10 + 9) \div 10
InBall(o, r10) == 100 * (o[1]*o[1] + o[2]*o[2] + o[3]*o[3]) <= r10 * r10
InCube(o, r10) == \A a \in 1..3 : o[a] <= CeilDiv10(r10) /\ -o[a] <= CeilDiv10(r10)
(* offsets between two particles that are farther apart than the exclusion distance but inside the enclosing cube *)
DiagonalOffsets(r10) == LET k == CeilDiv10(r10) IN {o \in (0..k) \X (0..k) \X (0..k) : InCube(o, r10) /\ ~InBall(o, r10)}
CornerOffset(r10) == LET k == CeilDiv10(r10) IN <<k, k, k>>
=============================================================================
