SPECIFICATION Spec
INVARIANT Laws
INVARIANT Emit
CHECK_DEADLOCK FALSE
