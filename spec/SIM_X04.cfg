CONSTANTS
  MaxDepth = 7
  MaxLen = 8
SPECIFICATION Spec
INVARIANT EmitProgram
CHECK_DEADLOCK FALSE
