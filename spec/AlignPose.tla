------------------------------- MODULE AlignPose -------------------------------
(* C01: from a ground-truth pose and a perturbation to the recovered pose
   (acryo/loader/_base.py: align, _post_align, _post_align_multi_templates; molecules/core.py:
   translate_internal, rotate_by_rotvec_internal; alignment/_base.py: AlignmentResult).

   One action per step:
     Plant      the tomogram contains template j at pose (pstar, Rstar):  tomo(pstar + Rstar u) = template(c + u)
     Perturb    the input molecule differs by (m, q):  R = Rstar o q^-1,  p = pstar - scale * R m
     Align      P layer of the search: the sub-volume sampled at (p, R) shows template feature u at
                c + q u + m, so the result is (label j, shift m, rotation q)
     WriteBack  p' = p + scale * R shift,  R' = R o quat;  features = (score, scale*shift, rotvec(quat))
   Positions are integer vectors times `half` = 1/2 (scale in {1/2, 1, 2} is kept as scale2 = 2*scale). *)
EXTENDS Integers, Sequences, FiniteSets, TLC, Json, Zyx

CONSTANTS Truths, SearchSet, Perturbs, Scales2, Kinds, Models, Orders
VARIABLES cfg, pc, mol, res, out
vars == <<cfg, pc, mol, res, out>>

(* positions are stored doubled (pos2 = 2 * physical position) so that scale 1/2 stays integral *)
Phys2(px, s2) == VScale(s2, px)                         \* 2 * (scale * px) with scale = s2/2

Cfgs == [Rstar : Truths, q : SearchSet, m : Perturbs, s2 : Scales2, kind : Kinds, model : Models, order : Orders, j : {0, 1}]
Valid(c) == /\ (c.kind \notin {"multi", "stack"} => c.j = 0)
            /\ (c.Rstar.d # 1 => (c.kind = "single" /\ c.order = 3))      \* rational truths: one driver is enough
            /\ (c.kind # "single" => c.order = 3)
            /\ (c.kind \in {"group", "notemplate", "multi", "stack"} => c.model = "ZNCC")
            /\ (c.kind # "single" => c.s2 \in {1, 2} \/ c.kind \in {"batch", "stack"})
            \* "stack": loader.align(list of templates) dispatches to the multi-template path itself; a subset of
            \* truths keeps the case count down
            /\ (c.kind = "stack" => c.Rstar \in {RId, Rot(<<<<0,1,0>>,<<0,0,1>>,<<1,0,0>>>>, 1), Rot(<<<<-1,0,0>>,<<0,1,0>>,<<0,0,-1>>>>, 1)})
PStarPx == <<15, 14, 16>>
Init == /\ cfg \in {c \in Cfgs : Valid(c)}
        /\ pc = "plant" /\ mol = [p2 |-> <<0,0,0>>, R |-> RId] /\ res = [label |-> -1, shift |-> <<0,0,0>>, quat |-> RId]
        /\ out = [p2 |-> <<0,0,0>>, R |-> RId, fshift2 |-> <<0,0,0>>]
Plant == pc = "plant" /\ pc' = "perturb" /\ UNCHANGED <<cfg, mol, res, out>>
(* R = Rstar q^-1 ;  p_px = pstar_px - R m  (numerator over R.d) *)
Perturb == /\ pc = "perturb"
           /\ LET R == RMul(cfg.Rstar, RInv(cfg.q)) IN
              mol' = [R |-> R,
                      \* 2 * scale * (pstar - R m): numerator over R.d
                      p2 |-> VSub(VScale(cfg.s2 * R.d, PStarPx), VScale(cfg.s2, RApplyN(R, cfg.m))), pden |-> R.d]
           /\ pc' = "align" /\ UNCHANGED <<cfg, res, out>>
Align == /\ pc = "align" /\ res' = [label |-> cfg.j, shift |-> cfg.m, quat |-> cfg.q]
         /\ pc' = "writeback" /\ UNCHANGED <<cfg, mol, out>>
WriteBackPos(mo, shift, s2) == VAdd(mo.p2, VScale(s2, RApplyN(mo.R, shift)))         \* over mo.pden = R.d
WriteBack == /\ pc = "writeback"
             /\ out' = [p2 |-> WriteBackPos(mol, res.shift, cfg.s2), pden |-> mol.pden, R |-> RMul(mol.R, res.quat),
                        fshift2 |-> VScale(cfg.s2, res.shift)]
             /\ pc' = "done" /\ UNCHANGED <<cfg, mol, res>>
Next == Plant \/ Perturb \/ Align \/ WriteBack
Spec == Init /\ [][Next]_vars

(* the transform an alignment result denotes (AlignmentResult.affine_matrix, Model.fit): rotation about the box centre,
   then the shift.  The fitted image shows, at offset u from the box centre, the sub-volume voxel at offset quat u + shift
   (numerator over quat.d).  With the Align step above (the sub-volume shows template feature u at c + q u + m) the fitted
   image therefore shows the template itself: FitSource(res, u) is where template feature u sits.   [extended coverage X02] *)
FitSource(r, u) == VAdd(RApplyN(r.quat, u), VScale(r.quat.d, r.shift))
FitShowsTemplate == pc \in {"writeback", "done"} =>
   \A u \in {<<a, b, c>> : a \in -1..1, b \in -1..1, c \in -1..1} :
      FitSource(res, u) = VAdd(RApplyN(cfg.q, u), VScale(cfg.q.d, cfg.m))

(* C01 *)
PoseRecovered == pc = "done" => (out.p2 = VScale(cfg.s2 * out.pden, PStarPx) /\ REq(out.R, cfg.Rstar))
FeaturesDescribePose == pc = "done" => out.fshift2 = VScale(cfg.s2, cfg.m)
(* named historical deviation (acryo 0.4.16): linear_transform rotated the shift by the found rotation *)
WriteBackPos_v0416(mo, shift, q, s2) == VAdd(VScale(q.d, mo.p2), VScale(s2, RApplyN(mo.R, RApplyN(q, shift))))   \* over mo.pden * q.d
V0416WrongIffShiftMoved == pc = "writeback" =>
   ((WriteBackPos_v0416(mol, res.shift, res.quat, cfg.s2) # VScale(res.quat.d, WriteBackPos(mol, res.shift, cfg.s2)))
      <=> (RApplyN(res.quat, res.shift) # VScale(res.quat.d, res.shift)))

Emit == pc = "done" => PrintT(ToJson([cfg |-> cfg, pstar_px |-> PStarPx, mol |-> mol, expect |-> out]))
=============================================================================
