CONSTANTS
  MaxN = 4
  Thorough = FALSE
SPECIFICATION Spec
INVARIANT DCKept
INVARIANT UnionLaws
INVARIANT Symmetric
INVARIANT GridLemma
INVARIANT Emit
CHECK_DEADLOCK FALSE
