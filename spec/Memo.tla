--------------------------------- MODULE Memo ---------------------------------
(* Memoised helpers behind public entry points (functools.lru_cache in acryo/_utils.py:
   nd_butterworth_weight, _get_indices, _get_unrotated_normals; backend/_bandpass.py, _mesh.py, _zncc.py,
   _fsc.py, _missing_wedge.py; tilt/_utils.py) and what a user can observe of them.

   A public call has arguments  args = [a, b, c]  (think: box shape, cut-off, order; or shape, tilt
   bounds; or shape, search range ...).  Behind it sits a bounded LRU table keyed by Key(args).  The
   user-visible contract is HISTORY INDEPENDENCE: the value a call returns is a function of its own
   arguments only - whatever was called before, in whatever order, whether or not entries were evicted.

   Design parameters (constants) make the two classical ways of breaking it explicit:
     KeyFields   the argument fields that enter the cache key.  The design is sound iff every field the
                 value depends on is in the key (all three here).
     InPlaceUse  TRUE if a consumer post-processes the cached OBJECT in place (e.g. `w /= cutoff**2` on
                 an array that is also stored in the table) instead of a copy.
   The sound design is KeyFields = {"a","b","c"}, InPlaceUse = FALSE; the hazard configurations are
   model-checked too and must be REJECTED by TLC (that the invariant is not vacuous). *)
EXTENDS Integers, Sequences, FiniteSets, TLC, Json

CONSTANTS Cap,          \* lru_cache maxsize
          MaxDepth,     \* calls per session
          KeyFields, InPlaceUse

VARIABLES cache,        \* sequence of [key, val], least recently used first
          ret,          \* value returned by the last call (0: none yet)
          last,         \* arguments of the last call
          hist
vars == <<cache, ret, last, hist>>

Bit == 0..1
Args == [a : Bit, b : Bit, c : Bit]
(* the pure function: injective in all three fields *)
Pure(x) == 1 + 4 * x.a + 2 * x.b + x.c
Key(x) == [f \in KeyFields |-> x[f]]
(* one-factor-at-a-time bindings: a base call and the three calls differing from it in exactly one argument *)
Base == [a |-> 0, b |-> 0, c |-> 0]
Ofat == {Base, [a |-> 1, b |-> 0, c |-> 0], [a |-> 0, b |-> 1, c |-> 0], [a |-> 0, b |-> 0, c |-> 1]}

Find(k) == {i \in 1..Len(cache) : cache[i].key = k}
Without(i) == [j \in 1..(Len(cache) - 1) |-> IF j < i THEN cache[j] ELSE cache[j + 1]]
Trim(s) == IF Len(s) > Cap THEN Tail(s) ELSE s
Spoil(v) == IF InPlaceUse THEN v + 100 ELSE v        \* the consumer's in-place post-processing hits the stored object

Call(x) ==
  /\ Len(hist) < MaxDepth
  /\ LET k == Key(x) hit == Find(k) IN
       IF hit # {}
       THEN LET i == CHOOSE j \in hit : TRUE IN
            /\ ret' = cache[i].val
            /\ cache' = Append(Without(i), [key |-> k, val |-> Spoil(cache[i].val)])
       ELSE /\ ret' = Pure(x)
            /\ cache' = Trim(Append(cache, [key |-> k, val |-> Spoil(Pure(x))]))
  /\ last' = x /\ hist' = Append(hist, x)

Init == cache = <<>> /\ ret = 0 /\ last = Base /\ hist = <<>>
Next == \E x \in Args : Call(x)
Spec == Init /\ [][Next]_vars

HistoryIndependent == ret # 0 => ret = Pure(last)
Bounded == Len(cache) <= Cap
NoDuplicateKeys == \A i, j \in 1..Len(cache) : cache[i].key = cache[j].key => i = j
(* with a full key, a stored value is the pure value of any argument tuple with that key *)
StoredIsPure == (KeyFields = {"a", "b", "c"} /\ ~InPlaceUse) => \A i \in 1..Len(cache) : \A x \in Args : Key(x) = cache[i].key => cache[i].val = Pure(x)

(* programmes to replay on the real entry points: every sequence of at most MaxDepth calls over the one-factor-at-a-time
   bindings, and eviction programmes (more distinct keys than the table holds, then the base call again) *)
OfatOnly == \A i \in 1..Len(hist') : hist'[i] \in Ofat
EmitOfat == OfatOnly /\ PrintT(ToJson([kind |-> "ofat", prog |-> hist']))
AllArgsSeq == <<[a |-> 1, b |-> 0, c |-> 0], [a |-> 0, b |-> 1, c |-> 0], [a |-> 0, b |-> 0, c |-> 1], [a |-> 1, b |-> 1, c |-> 0],
                [a |-> 1, b |-> 0, c |-> 1], [a |-> 0, b |-> 1, c |-> 1], [a |-> 1, b |-> 1, c |-> 1]>>
EvictProg(n) == <<Base>> \o SubSeq(AllArgsSeq, 1, n) \o <<Base>> \o <<AllArgsSeq[1]>>
EmitEvict == hist = <<>> => PrintT(ToJson([kind |-> "evict", progs |-> [n \in 1..7 |-> EvictProg(n)]]))
=============================================================================
