------------------------------- MODULE Settings -------------------------------
(* Loader configuration as a state machine (acryo/loader/_base.py: LoaderBase.replace, copy, reshape, head/tail/
   sample/filter, groupby; _loader.py / _batch.py: replace, binning, add_tomogram, BatchLoader.loaders accessor).
   EXTENDED COVERAGE: not one of the listed properties (bin/check X01, never part of a property verdict).

   The configuration of a loader is [order, scale4, oshape, cs]:
     order    spline order 0, 1 or 3
     scale4   4 x scale in nm/pixel (so that 0.25 nm steps and binning stay integral)
     oshape   <<0,0,0>> (unset) or a box shape
     cs       corner_safe
   Every operation that returns a loader returns one whose configuration is that of the receiver, except for
   exactly the field(s) the operation is about:
     replace(field = v)   that field becomes v
     reshape(shape)       oshape becomes shape
     binning(b)           scale4 becomes b * scale4      (binning(1) is a copy)
     align(template)      oshape becomes the template's shape
   and operations never change the configuration of the receiver itself. *)
EXTENDS Integers, Sequences, FiniteSets, TLC, Json

CONSTANTS MaxDepth
VARIABLES cfg, kind, depth, hist, start
vars == <<cfg, kind, depth, hist, start>>

Orders == {0, 1, 3}
Unset == <<0, 0, 0>>
Shapes == {Unset, <<3, 3, 3>>, <<4, 5, 6>>}
Cfg(o, s, sh, c) == [order |-> o, scale4 |-> s, oshape |-> sh, cs |-> c]

Keeps == {"copy", "head", "tail", "sample", "filter", "sort", "group_first", "align", "accessor_first", "add_tomogram"}
Ops(k, c) ==
       {[name |-> n] : n \in IF k = "batch" THEN Keeps ELSE Keeps \ {"accessor_first", "add_tomogram"}}
  \cup {[name |-> "replace_order", n |-> o] : o \in Orders}
  \cup {[name |-> "replace_scale", n |-> s] : s \in {2, 4}}
  \cup {[name |-> "replace_shape", sh |-> sh] : sh \in Shapes \ {Unset}}
  \cup {[name |-> "replace_cs", b |-> b] : b \in BOOLEAN}
  \cup {[name |-> "reshape", sh |-> sh] : sh \in Shapes \ {Unset}}
  \cup {[name |-> "binning", n |-> b] : b \in {1, 2, 3}}

After(c, op) ==
  CASE op.name = "replace_order" -> [c EXCEPT !.order = op.n]
    [] op.name = "replace_scale" -> [c EXCEPT !.scale4 = op.n]
    [] op.name = "replace_shape" -> [c EXCEPT !.oshape = op.sh]
    [] op.name = "replace_cs"    -> [c EXCEPT !.cs = op.b]
    [] op.name = "reshape"       -> [c EXCEPT !.oshape = op.sh]
    [] op.name = "binning"       -> [c EXCEPT !.scale4 = op.n * c.scale4]
    \* align reshapes the loader to the template; the harness template has the loader's own box, or <<3,3,3>> if that is unset
    [] op.name = "align"         -> [c EXCEPT !.oshape = IF c.oshape = Unset THEN <<3, 3, 3>> ELSE c.oshape]
    [] OTHER                     -> c

Init == /\ kind \in {"single", "batch"}
        /\ cfg \in {Cfg(o, s, sh, c) : o \in Orders, s \in {4}, sh \in {Unset, <<3, 3, 3>>}, c \in BOOLEAN}
        /\ depth = 0 /\ hist = <<>> /\ start = [kind |-> kind, cfg |-> cfg]
Do(op) == /\ depth < MaxDepth /\ cfg' = After(cfg, op) /\ cfg'.scale4 <= 24
          /\ kind' = (IF op.name = "accessor_first" THEN "single" ELSE kind)     \* batch.loaders[0] is a single-tomogram loader
          /\ depth' = depth + 1 /\ hist' = Append(hist, op) /\ UNCHANGED start
Next == \E op \in Ops(kind, cfg) : Do(op)
Spec == Init /\ [][Next]_vars

(* every operation changes at most the field it is about *)
FieldsOf(op) == CASE op.name = "replace_order" -> {"order"} [] op.name \in {"replace_scale", "binning"} -> {"scale4"}
                  [] op.name \in {"replace_shape", "reshape", "align"} -> {"oshape"} [] op.name = "replace_cs" -> {"cs"} [] OTHER -> {}
OnlyItsField == [][/\ (cfg'.order # cfg.order => "order" \in FieldsOf(hist'[Len(hist')]))
                     /\ (cfg'.scale4 # cfg.scale4 => "scale4" \in FieldsOf(hist'[Len(hist')]))
                     /\ (cfg'.oshape # cfg.oshape => "oshape" \in FieldsOf(hist'[Len(hist')]))
                     /\ (cfg'.cs # cfg.cs => "cs" \in FieldsOf(hist'[Len(hist')]))]_vars
(* the order never changes except through replace(order=): in particular not through binning or reshape *)
View == <<cfg, kind, depth, start>>
EmitStep == PrintT(ToJson([init |-> [kind |-> kind, cfg |-> cfg], prog |-> <<hist'[Len(hist')]>>, final |-> cfg']))
EmitProgram == depth = MaxDepth => PrintT(ToJson([init |-> start, prog |-> hist, final |-> cfg]))
=============================================================================
