CONSTANTS
  Workers = {1, 2, 3}
  Design = "fixed"
  KeyMode = "other"
SPECIFICATION Spec
INVARIANT NoSpuriousError
INVARIANT ResultsAgree
INVARIANT CacheBounded
CHECK_DEADLOCK FALSE
