------------------------------ MODULE MC_C02q ------------------------------
EXTENDS SamplingQ
VARIABLES cfg, done
TShape == <<6, 7, 8>>
BoxesQ == {<<1,1,1>>, <<3,3,3>>, <<2,3,4>>, <<4,2,3>>}
Quarters == {<<a, b, c>> : a \in 0..3, b \in 0..3, c \in 0..3}
Cases == [P4 : {<<12 + q[1], 12 + q[2], 16 + q[3]>> : q \in Quarters}, shape : BoxesQ, order : {0, 1}]
Init == cfg \in Cases /\ done = FALSE
Next == ~done /\ done' = TRUE /\ UNCHANGED cfg
Spec == Init /\ [][Next]_<<cfg, done>>
(* I-layer laws, every position on one axis *)
WindowLaw == \A p4 \in 0..80, s \in 1..6, order \in {0, 1} : WindowCoversQ(p4, s, order, MarginCode(order))
HighFaceLostAtOrder0 == \A p4 \in 16..80, s \in 1..6 :
   WindowCoversQ(p4, s, 0, MarginHist(0)) <=> ((p4 - 2 * s) % 4) <= 2
Order1NeedsNoExtra == \A p4 \in 0..80, s \in 1..6 : WindowCoversQ(p4, s, 1, MarginHist(1))
(* expected mix of every voxel, row-major: sequence of <<linear index, weight in 64ths>>, or <<>> when not claimed *)
VoxSeq(shape) == [n \in 1..(shape[1] * shape[2] * shape[3]) |->
                    <<(n - 1) \div (shape[2] * shape[3]), ((n - 1) \div shape[3]) % shape[2], (n - 1) % shape[3]>>]
Lin(v) == (v[1] * TShape[2] + v[2]) * TShape[3] + v[3]
ExpectQ(c, k) ==
  LET c4 == [a \in 1..3 |-> C4(c.P4[a], c.shape[a], k[a])]
      m == [a \in 1..3 |-> Mix1(c4[a], c.order)]
  IN IF (\E a \in 1..3 : ~InBounds4(c4[a], TShape[a]) \/ m[a] = <<>>) THEN <<>>
     ELSE [n \in 1..(Len(m[1]) * Len(m[2]) * Len(m[3])) |->
            LET i == ((n - 1) \div (Len(m[2]) * Len(m[3]))) + 1
                j == (((n - 1) \div Len(m[3])) % Len(m[2])) + 1
                l == ((n - 1) % Len(m[3])) + 1
            IN <<Lin(<<m[1][i][1], m[2][j][1], m[3][l][1]>>), m[1][i][2] * m[2][j][2] * m[3][l][2]>>]
RECURSIVE SumW(_, _)
SumW(e, i) == IF i = 0 THEN 0 ELSE e[i][2] + SumW(e, i - 1)
WeightsSumTo64 == done => \A n \in 1..Len(VoxSeq(cfg.shape)) : LET e == ExpectQ(cfg, VoxSeq(cfg.shape)[n]) IN
   e = <<>> \/ SumW(e, Len(e)) = 64
Emit == done => PrintT(ToJson([cfg |-> cfg, tshape |-> TShape, expect |-> [n \in 1..Len(VoxSeq(cfg.shape)) |-> ExpectQ(cfg, VoxSeq(cfg.shape)[n])]]))
=============================================================================
