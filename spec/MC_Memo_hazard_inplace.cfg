CONSTANTS
  Cap = 2
  MaxDepth = 5
  KeyFields = {"a", "b", "c"}
  InPlaceUse = TRUE
SPECIFICATION Spec
INVARIANT HistoryIndependent
INVARIANT Bounded
INVARIANT NoDuplicateKeys
INVARIANT StoredIsPure
CHECK_DEADLOCK FALSE
