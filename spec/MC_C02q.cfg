SPECIFICATION Spec
INVARIANT WindowLaw
INVARIANT HighFaceLostAtOrder0
INVARIANT Order1NeedsNoExtra
INVARIANT WeightsSumTo64
INVARIANT Emit
CHECK_DEADLOCK FALSE
