CONSTANTS
  Limits <- LimitsDef
  Models = {"ZNCC", "NCC", "PCC", "FSC"}
SPECIFICATION Spec
INVARIANT InRange
INVARIANT NonEmpty
INVARIANT ZeroReachable
INVARIANT EdgeReachable
INVARIANT PccGapBounded
INVARIANT V0416OvershootIffOffGrid
CHECK_DEADLOCK FALSE
