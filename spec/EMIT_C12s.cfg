CONSTANTS
  MaxRows = 5
  MaxDepth = 3
  InitRowsA = {2}
  WithEmptyB = FALSE
SPECIFICATION Spec
ACTION_CONSTRAINT EmitSandwich
CHECK_DEADLOCK FALSE
