CONSTANTS
  MaxRows = 6
  MaxDepth = 3
  InitRowsA = {2}
  WithEmptyB = FALSE
SPECIFICATION Spec
ACTION_CONSTRAINT EmitSandwich
CHECK_DEADLOCK FALSE
