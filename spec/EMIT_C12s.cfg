CONSTANTS
  MaxRows = 5
  MaxDepth = 3
  InitRowsA = {2}
SPECIFICATION Spec
ACTION_CONSTRAINT EmitSandwich
CHECK_DEADLOCK FALSE
