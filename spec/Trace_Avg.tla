------------------------------ MODULE Trace_Avg ------------------------------
EXTENDS AvgOps, TLCExt, IOUtils
Tr == ndJsonDeserialize(IOEnv.TRACE_FILE)
VARIABLES l, bad
Init == l = 1 /\ bad = <<>>
Next == /\ l <= Len(Tr)
        /\ bad' = IF Why(Tr[l]) = "ok" THEN bad ELSE Append(bad, [i |-> l, why |-> Why(Tr[l]), ctx |-> "", id |-> Tr[l].id])
        /\ l' = l + 1
Spec == Init /\ [][Next]_<<l, bad>>
Done == l = Len(Tr) + 1 => PrintT(ToJson([verdict |-> "done", n |-> Len(Tr), bad |-> bad]))
==============================================================================
