-------------------------------- MODULE Filter --------------------------------
(* Butterworth low-pass filter (acryo/_utils.py: lowpass_filter(_ft), nd_butterworth_weight;
   backend/_bandpass.py; pipe/_transform.py: lowpass_filter; alignment/_base.py: pre_transform).

   P layer, exact rationals:  W(k) = 1 / (1 + (|f|^2 / c^2)^order),  f_a = Freq(k_a, N_a) / N_a,
   cutoff c = p/q.   |f|^2 / c^2 = rnum / rden with
        rnum = (sum_a Freq_a^2 * prod_{b # a} N_b^2) * q^2,   rden = (prod_a N_a^2) * p^2
   so W = rden^order / (rden^order + rnum^order); the powers exceed 32 bits, therefore the pair
   (rnum, rden) is emitted and raised to the power by the harness in unbounded integers.
   Identity when c <= 0 or c >= sqrt(3)/2 (beyond the Nyquist diagonal of a 3-D image).
   I layer: the real-space variants go through a half-spectrum transform; numpy's irfftn without an
   explicit shape returns 2*(m-1) samples on the last axis, m = n div 2 + 1. *)
EXTENDS Integers, Sequences, FiniteSets, TLC, Json

Freq(i, n) == IF i <= (n - 1) \div 2 THEN i ELSE i - n
Sq(x) == x * x
RNum(k, s, q) == (Sq(k[1]) * Sq(s[2]) * Sq(s[3]) + Sq(k[2]) * Sq(s[1]) * Sq(s[3]) + Sq(k[3]) * Sq(s[1]) * Sq(s[2])) * Sq(q)
RDen(s, p) == Sq(s[1]) * Sq(s[2]) * Sq(s[3]) * Sq(p)
IsIdentity(p, q) == p <= 0 \/ 4 * Sq(p) >= 3 * Sq(q)            \* c <= 0  or  c^2 >= 3/4
KOf(idx, s) == <<Freq(idx[1], s[1]), Freq(idx[2], s[2]), Freq(idx[3], s[3])>>
NegIdx(idx, s) == <<(s[1] - idx[1]) % s[1], (s[2] - idx[2]) % s[2], (s[3] - idx[3]) % s[3]>>
Bins(s) == (0..(s[1]-1)) \X (0..(s[2]-1)) \X (0..(s[3]-1))

(* laws: zero-phase real filter (weights even in k), mean preserved, monotone in |f| *)
MeanPreserved(s, p, q) == RNum(<<0,0,0>>, s, q) = 0
EvenWeights(s, p, q) == \A b \in Bins(s) : RNum(KOf(b, s), s, q) = RNum(KOf(NegIdx(b, s), s), s, q)
(* half-spectrum round trip shapes *)
HalfLen(n) == n \div 2 + 1
IrfftDefaultLen(n) == 2 * (HalfLen(n) - 1)
RealOutShape(s) == s                                      \* the property: same shape as the input
RealOutShape_v0416(s) == <<s[1], s[2], IrfftDefaultLen(s[3])>>   \* irfftn without s=
ShapeWrongOnlyForOddLastAxis(s) == (RealOutShape_v0416(s) # RealOutShape(s)) <=> (s[3] % 2 = 1)
=============================================================================
