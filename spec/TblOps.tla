------------------------------- MODULE TblOps -------------------------------
(* The public table operations of Molecules as one relation over (op, A, B, outcome):

     Outcomes(op, A, B)        the set of outcomes the specification permits (generator side,
                               used by the model-checked machine TblMachine)
     Accepts(op, A, B, o)      the same relation as a predicate (acceptor side, used by the trace
                               specification Trace_Tbl on outcomes observed on the real code)

   An outcome is [A |-> table, B |-> table, err |-> "" | kind, groups |-> <<>> | grouping].
   A is the receiver, B the second operand; operations with copy semantics leave A and B
   untouched and deliver their result in `res`; `append` is the one mutating operation. *)
EXTENDS Molecules

Out(A, B, res, err, groups) == [A |-> A, B |-> B, res |-> res, err |-> err, groups |-> groups, groups2 |-> groups]
NoTab == Table(<<>>, <<>>)
Ok1(A, B, r) == IF IsErr(r) THEN Out(A, B, NoTab, r.err, <<>>) ELSE Out(A, B, r, "", <<>>)

(* inconsistent-input probes: must be rejected (at construction or first use), never accepted *)
RejectKinds == {"len_mismatch_features", "len_mismatch_rot", "feature_named_z", "append_extra_column", "pos_not_3"}

(* a third table, for programmes that append to a RESULT while both operands stay alive *)
Extra == Table(<<"k">>, <<[uid |-> 14, f |-> [k |-> 2]], [uid |-> 15, f |-> [k |-> 0]]>>)
Outcomes(op, A, B) ==
  CASE op.name = "head"        -> {Ok1(A, B, Head_(A, op.n))}
    [] op.name = "tail"        -> {Ok1(A, B, Tail_(A, op.n))}
    [] op.name = "filter"      -> {Ok1(A, B, Filter_(A, op.pred))}
    [] op.name = "subset_int"  -> {Ok1(A, B, SubsetInt(A, op.i))}
    [] op.name = "subset_slice"-> {Ok1(A, B, SubsetSliceStep(A, op.a, op.b, op.step))}
    [] op.name = "subset_list" -> {Ok1(A, B, SubsetList(A, op.idx))}
    [] op.name = "subset_mask" -> {Ok1(A, B, IF Len(op.mask) # NRows(A) THEN Err("IndexError") ELSE MaskedRows(A, op.mask))}
    [] op.name = "sort"        -> {Ok1(A, B, r) : r \in SortAllowed(A, op.col, op.desc)}
    [] op.name = "sample"      -> {Ok1(A, B, r) : r \in SampleAllowed(A, op.n)}
    [] op.name = "concat_with" -> {Ok1(A, B, r) : r \in ConcatAllowed(A, B)}
    [] op.name = "concat"      -> {Ok1(A, B, r) : r \in ConcatAllowed(A, B)}
    [] op.name = "append"      -> {IF IsErr(r) THEN Out(A, B, NoTab, r.err, <<>>) ELSE Out(r, B, r, "", <<>>) : r \in AppendAllowed(A, B)}
    [] op.name = "append_extra"-> {IF IsErr(r) THEN Out(A, B, NoTab, r.err, <<>>) ELSE Out(r, B, r, "", <<>>) : r \in AppendAllowed(A, Extra)}
    [] op.name = "with_feature"-> {Ok1(A, B, WithFeature_(A, op.new, op.src, op.delta))}
    [] op.name = "drop_feature"-> {Ok1(A, B, DropFeature_(A, op.col))}
    [] op.name = "group_by"    -> IF ~HasCol(A, op.col) THEN {Out(A, B, NoTab, "ColumnNotFound", <<>>)}
                                  ELSE {Out(A, B, ConcatGroups(A.cols, GroupBy_(A, op.col)), "", GroupBy_(A, op.col))}
    [] op.name = "cutby"       -> IF ~HasCol(A, op.col) THEN {Out(A, B, NoTab, "ColumnNotFound", <<>>)}
                                  ELSE LET gs == [b \in 1..(Len(op.bins) - 1) |->
                                                    [bin |-> b, tab |-> Table(A.cols, SelectSeq(A.rows, LAMBDA r : CutBin(op.bins, Val(r, op.col)) = b))]]
                                           ne == SelectSeq(gs, LAMBDA g : NRows(g.tab) > 0)
                                       IN {Out(A, B, ConcatGroups(A.cols, ne), "", ne)}
    [] op.name = "reject"      -> {Out(A, B, NoTab, "Rejected", <<>>)}
    \* peek: the caller looks at a derived table (op.q) but keeps working on the receiver itself
    [] op.name = "peek"        -> CASE op.q.name = "head" -> {Ok1(A, B, Head_(A, op.q.n))}
                                    [] op.q.name = "tail" -> {Ok1(A, B, Tail_(A, op.q.n))}
                                    [] op.q.name = "filter" -> {Ok1(A, B, Filter_(A, op.q.pred))}

(* ---- acceptor: what an observed outcome must satisfy ---- *)
(* order-preserving selection (rows of an operand are pairwise distinct, so the greedy match is exact) *)
RECURSIVE IsSubseqOf(_, _)
IsSubseqOf(s, t) == IF s = <<>> THEN TRUE ELSE IF t = <<>> THEN FALSE
                    ELSE IF Head(s) = Head(t) THEN IsSubseqOf(Tail(s), Tail(t)) ELSE IsSubseqOf(s, Tail(t))
SameTab(x, y) == x.cols = y.cols /\ x.rows = y.rows
Untouched(A, B, o) == SameTab(o.A, A) /\ SameTab(o.B, B)
ErrOnly(A, B, o, kinds) == o.err # "" /\ Untouched(A, B, o)      \* the property does not fix the exception type
Det(A, B, o, r) == IF IsErr(r) THEN ErrOnly(A, B, o, {r.err})
                   ELSE o.err = "" /\ Untouched(A, B, o) /\ SameTab(o.res, r)

Accepts(op, A, B, o) ==
  CASE op.name = "head"        -> Det(A, B, o, Head_(A, op.n))
    [] op.name = "tail"        -> Det(A, B, o, Tail_(A, op.n))
    [] op.name = "filter"      -> Det(A, B, o, Filter_(A, op.pred))
    [] op.name = "subset_int"  -> Det(A, B, o, SubsetInt(A, op.i))
    [] op.name = "subset_slice"-> Det(A, B, o, SubsetSliceStep(A, op.a, op.b, op.step))
    [] op.name = "subset_list" -> Det(A, B, o, SubsetList(A, op.idx))
    [] op.name = "subset_mask" -> Det(A, B, o, IF Len(op.mask) # NRows(A) THEN Err("IndexError") ELSE MaskedRows(A, op.mask))
    [] op.name = "sort"        -> IF ~HasCol(A, op.col) THEN ErrOnly(A, B, o, {"ColumnNotFound"})
                                  ELSE /\ o.err = "" /\ Untouched(A, B, o) /\ o.res.cols = A.cols
                                       /\ IsPermOf(o.res.rows, A.rows) /\ SortedBy(o.res.rows, op.col, op.desc)
    [] op.name = "sample"      -> IF op.n > NRows(A) THEN ErrOnly(A, B, o, {"ShapeError"})
                                  ELSE /\ o.err = "" /\ Untouched(A, B, o) /\ o.res.cols = A.cols
                                       /\ NRows(o.res) = op.n
                                       /\ \E q \in Injections(op.n, NRows(A)) : \A i \in 1..op.n : o.res.rows[i] = A.rows[q[i]]
    [] op.name = "concat_with" -> \E r \in ConcatAllowed(A, B) : Det(A, B, o, r)
    [] op.name = "concat"      -> \E r \in ConcatAllowed(A, B) : Det(A, B, o, r)
    [] op.name = "append"      -> \E r \in AppendAllowed(A, B) :
                                  IF IsErr(r) THEN ErrOnly(A, B, o, {r.err})
                                  ELSE o.err = "" /\ SameTab(o.A, r) /\ SameTab(o.res, r) /\ SameTab(o.B, B)
    [] op.name = "append_extra"-> \E r \in AppendAllowed(A, Extra) :
                                  IF IsErr(r) THEN ErrOnly(A, B, o, {r.err})
                                  ELSE o.err = "" /\ SameTab(o.A, r) /\ SameTab(o.res, r) /\ SameTab(o.B, B)
    [] op.name = "with_feature"-> Det(A, B, o, WithFeature_(A, op.new, op.src, op.delta))
    [] op.name = "drop_feature"-> Det(A, B, o, DropFeature_(A, op.col))
    [] op.name = "group_by"    -> IF ~HasCol(A, op.col) THEN ErrOnly(A, B, o, {"ColumnNotFound"})
                                  ELSE /\ o.err = "" /\ Untouched(A, B, o)
                                       /\ IsGrouping(A, op.col, o.groups)
                                       /\ \A i \in 1..Len(o.groups) : o.groups[i].tab.cols = A.cols
                                       /\ IsPermOf(ConcatGroups(A.cols, o.groups).rows, A.rows)
                                       \* a second pass over the same grouping, after the caller edited the groups of the first
                                       \* pass in place, still delivers the receiver's rows
                                       /\ IsGrouping(A, op.col, o.groups2)
    [] op.name = "cutby"       -> IF ~HasCol(A, op.col) THEN ErrOnly(A, B, o, {"ColumnNotFound"})
                                  ELSE /\ o.err = "" /\ Untouched(A, B, o)
                                       /\ IsCutting(A, op.col, op.bins, o.groups)
                                       /\ \A i \in 1..Len(o.groups) : o.groups[i].tab.cols = A.cols
                                       /\ IsCutting(A, op.col, op.bins, o.groups2)
    [] op.name = "reject"      -> o.err # "" /\ Untouched(A, B, o)
    \* operations recorded from arbitrary programs whose argument the specification cannot evaluate (a polars predicate, a
    \* sort expression): the result is an order-preserving selection / a permutation of the receiver's rows, rows intact
    [] op.name = "filter_any"  -> /\ Untouched(A, B, o)
                                  /\ (o.err = "" => o.res.cols = A.cols /\ IsSubseqOf(o.res.rows, A.rows))
    [] op.name = "perm_any"    -> /\ Untouched(A, B, o)
                                  /\ (o.err = "" => o.res.cols = A.cols /\ IsPermOf(o.res.rows, A.rows))
    [] op.name = "peek"        -> CASE op.q.name = "head" -> Det(A, B, o, Head_(A, op.q.n))
                                    [] op.q.name = "tail" -> Det(A, B, o, Tail_(A, op.q.n))
                                    [] op.q.name = "filter" -> Det(A, B, o, Filter_(A, op.q.pred))

(* context that known-finding matchers may refer to *)
Ctx(op, A) == IF op.name = "cutby" /\ HasCol(A, op.col) /\ \E i \in 1..NRows(A) : Val(A.rows[i], op.col) = Null
              THEN "null_in_cut_column" ELSE ""

(* the first violated clause, for total verdicts *)
Why(op, A, B, o) ==
  IF Accepts(op, A, B, o) THEN "ok"
  ELSE IF ~Untouched(A, B, o) /\ op.name \notin {"append", "append_extra"} THEN "OperandMutated"
  ELSE IF o.err # "" /\ op.name \notin {"filter_any", "perm_any"} THEN "UnexpectedError"
  ELSE IF op.name \in {"group_by", "cutby"} THEN "GroupsNotPartition"
  ELSE IF op.name = "reject" THEN "InconsistentInputAccepted"
  ELSE IF op.name \in {"sort", "sample", "perm_any"} THEN "NotPermittedSelection"
  ELSE "WrongRows"
=============================================================================
