----------------------------- MODULE LdrMachine -----------------------------
(* A user session on one loader L (single or batch) and one spare molecule table T:
   registrations, derivations, groupings and per-molecule observations in any order
   (C03: "all sequences of add_tomogram/add_loader/filter/sort/sample/head/tail/replace/
   groupby/binning operations, and all per-molecule computations"). *)
EXTENDS LdrOps, Json

CONSTANTS MaxDepth, MaxRows, MaxImgs, SmallInit
VARIABLES L, T, S, depth, hist, start
vars == <<L, T, S, depth, hist, start>>

VPat(i) == CASE i % 3 = 0 -> Null [] i % 3 = 1 -> 1 [] OTHER -> 2
SPat(i) == CASE i % 4 = 0 -> Null [] i % 4 = 1 -> 1 [] i % 4 = 2 -> 2 [] OTHER -> 1
RowB(i, k, m) == [uid |-> i, f |-> [k |-> k, v |-> VPat(i), s |-> SPat(i), img |-> m]]
RowS(i, k) == [uid |-> i, f |-> [k |-> k, v |-> VPat(i), s |-> SPat(i)]]
ColsB == <<"k", "v", "s", "img">>
ColsS == <<"k", "v", "s">>
Batch2 == {Loader("batch", Table(ColsB, <<RowB(1, a, 0), RowB(2, b, 0), RowB(3, c, 1), RowB(4, d, 1)>>), <<0, 1>>, -1, 1)
             : a \in 0..2, b \in 0..2, c \in 0..2, d \in 0..2}
Batch21 == {Loader("batch", Table(ColsB, <<RowB(1, a, 0), RowB(3, c, 1), RowB(4, d, 1)>>), <<0, 1>>, -1, 1)
             : a \in 0..2, c \in 0..2, d \in 0..2}
Single3 == {Loader("single", Table(ColsS, <<RowS(1, a), RowS(2, b), RowS(3, c)>>), <<0>>, 0, 1) : a \in 0..2, b \in 0..2, c \in 0..2}
Empty == {Loader("batch", Table(<<"img">>, <<>>), <<>>, -1, 1)}
Spare == {Table(ColsS, <<RowS(5, 2), RowS(6, 0)>>)}

Preds(l) == {[op |-> "ge", col |-> "k", c |-> 1], [op |-> "notnull", col |-> "v", c |-> 0]}
            \cup (IF l.kind = "batch" THEN {[op |-> "eq", col |-> "img", c |-> 1]} ELSE {})
(* tables of more than 6 rows: only the derivations whose permitted results need no enumeration of permutations *)
HowsBig(l) == {[name |-> "head", n |-> 5], [name |-> "tail", n |-> 7], [name |-> "copy"]} \cup {[name |-> "filter", pred |-> p] : p \in Preds(l)}
Hows(l) == IF NRows(l.tab) > 6 THEN HowsBig(l) ELSE
       {[name |-> "head", n |-> n] : n \in 0..3} \cup {[name |-> "tail", n |-> n] : n \in 0..2}
  \cup {[name |-> "filter", pred |-> p] : p \in Preds(l)}
  \cup {[name |-> "sample", n |-> n] : n \in 1..Min2(2, NRows(l.tab))}
  \cup {[name |-> "sort", col |-> "k", desc |-> d] : d \in BOOLEAN} \cup {[name |-> "sort", col |-> "v", desc |-> FALSE]}
  \cup {[name |-> "subset_list", idx |-> x] : x \in {y \in {<<1, 0>>, <<0, 2, 1>>, <<2, 0>>, <<3, 0, 2, 1>>} : \A i \in 1..Len(y) : y[i] < NRows(l.tab)}}
  \cup {[name |-> "copy"]} \cup {[name |-> "binning", b |-> 2]}
  \* save + reload of the molecules; CSV cannot keep the dtype of an all-null column (C13 covers CSV)
  \cup (IF l.bin = 1 THEN {[name |-> "roundtrip", fmt |-> f] : f \in {"parquet"}} ELSE {})
Vias == {"asnumpy", "load_each", "load_iter", "dask", "align", "score", "apply", "landscape", "average", "kwargs_score", "kwargs_align",
         "align_moved", "align_multi_moved"}
GOps == {[name |-> "none"], [name |-> "align"], [name |-> "head", n |-> 1], [name |-> "tail", n |-> 1],
         [name |-> "filter", pred |-> [op |-> "ge", col |-> "k", c |-> 1]], [name |-> "sample", n |-> 1],
         [name |-> "apply"], [name |-> "sample_noseed", n |-> 1], [name |-> "sample_noseed_align", n |-> 1]}
Ops(l) ==
       (IF l.kind = "batch" /\ l.bin = 1 /\ Len(l.imgs) < MaxImgs THEN {[name |-> "add_tomogram"]} ELSE {})
  \cup (IF l.kind = "batch" /\ l.bin = 1 /\ Len(l.imgs) + 2 <= MaxImgs + 1 /\ NRows(l.tab) <= 6
        THEN {[name |-> "add_loader", form |-> f, codes |-> Fresh2(l)] : f \in {"single", "batch2"}} ELSE {})
  \cup (IF l.bin = 1 /\ Len(l.imgs) + 2 <= MaxImgs + 1 /\ NRows(l.tab) <= 6
        THEN {[name |-> "from_loaders", form |-> f, codes |-> Fresh2(l)] : f \in {"single", "batch2"}} ELSE {})
  \cup {[name |-> "derive", how |-> h] : h \in Hows(l)}
  \cup (IF l.bin = 1 /\ NRows(l.tab) > 0 THEN {[name |-> "observe", via |-> v] : v \in Vias} ELSE {})
  \cup (IF l.bin = 1 THEN {[name |-> "fork", how |-> h] : h \in {"copy", "replace_order", "binning1", "reshape"}} ELSE {})
  \cup (IF l.bin = 1 /\ NRows(l.tab) > 0
        THEN {[name |-> "groupby", col |-> c, gop |-> g] : c \in {"k", "s"} \cup (IF l.kind = "batch" THEN {"img"} ELSE {}),
                                                              g \in IF NRows(l.tab) > 6 THEN {x \in GOps : x.name \in {"none", "align", "apply"}} ELSE GOps}
        ELSE {})

KeyFamilies == {<<0, 1, 0, 1>>, <<2, 0, 1, 0>>, <<1, 1, 0, 2>>}
SmallLoaders == {Loader("batch", Table(ColsB, <<RowB(1, q[1], 0), RowB(2, q[2], 0), RowB(3, q[3], 1), RowB(4, q[4], 1)>>), <<0, 1>>, -1, 1) : q \in KeyFamilies}
           \cup {Loader("batch", Table(ColsB, <<RowB(1, q[1], 0), RowB(3, q[3], 1), RowB(4, q[4], 1)>>), <<0, 1>>, -1, 1) : q \in KeyFamilies}
(* "gap" registries: the image ids are not 0..n-1 (what filter(img = 1) leaves behind), so the next automatic id
   must skip an id that is in use *)
GapLoaders == {Loader("batch", Table(ColsB, <<RowB(3, q[3], 1), RowB(4, q[4], 1)>>), <<1>>, -1, 1) : q \in KeyFamilies}
(* larger batches with interleaved image ids (sorting routines that are not stable only show on more than a handful of rows) *)
BigPatterns == {<<0, 1, 0, 1, 0, 1, 0, 1, 0, 1, 0, 1>>, <<0, 0, 1, 0, 1, 1, 0, 1, 0, 0>>, <<1, 0, 0, 1, 1, 0, 1, 0, 1, 1, 0, 0, 1>>}
BigLoaders == {Loader("batch", Table(ColsB, [i \in 1..Len(pat) |-> RowB(i, i % 3, pat[i])]), <<0, 1>>, -1, 1) : pat \in BigPatterns}
InitBig == /\ L \in BigLoaders /\ T \in Spare /\ S = NoLdr /\ depth = 0 /\ hist = <<>> /\ start = [L |-> L, T |-> T]
SmallLoadersAll == SmallLoaders \cup GapLoaders
Init == /\ S = NoLdr /\ L \in (IF SmallInit THEN SmallLoadersAll ELSE Batch2 \cup Batch21 \cup Single3 \cup Empty) /\ T \in Spare
        /\ depth = 0 /\ hist = <<>> /\ start = [L |-> L, T |-> T]
Apply(op) == \E r \in NextRes(op, L, T) :
                /\ depth < MaxDepth /\ L' = r /\ NRows(r.tab) <= MaxRows
                /\ S' = IF op.name = "fork" THEN L ELSE S          \* the object left behind by a fork stays alive, unchanged
                /\ depth' = depth + 1 /\ hist' = Append(hist, op) /\ UNCHANGED <<T, start>>
DoApply == \E op \in Ops(L) : Apply(op)
Swap == /\ S # NoLdr /\ depth < MaxDepth /\ L' = S /\ S' = L /\ depth' = depth + 1 /\ hist' = Append(hist, [name |-> "swap"]) /\ UNCHANGED <<T, start>>
Next == DoApply \/ Swap
Spec == Init /\ [][Next]_vars
View == <<L, T, S, depth, start>>

(* ------------------------------------------------------------ properties *)
(* every row keeps the image it was registered with: uid 1,2 -> img 0; 3,4 -> img 1; 5,6 -> added ids *)
RegisteredImg(l, r) == IF \E i \in 1..NRows(start.L.tab) : start.L.tab.rows[i].uid = r.uid
                       THEN ImgOf(start.L, start.L.tab.rows[CHOOSE i \in 1..NRows(start.L.tab) : start.L.tab.rows[i].uid = r.uid])
                       ELSE ImgOf(l, r)
RowAligned == \A i \in 1..NRows(L.tab) : LoadP(L)[i] = [img |-> RegisteredImg(L, L.tab.rows[i]), uid |-> L.tab.rows[i].uid]
ImagesConsistent == L.kind = "batch" => {ImgOf(L, L.tab.rows[i]) : i \in 1..NRows(L.tab)} \subseteq {L.imgs[i] : i \in 1..Len(L.imgs)}
GroupsPartition == NRows(L.tab) > 0 => GroupLaw(L.tab, "k")
DefectCharacterised == V0416WrongIffInterleaved(L)
WellFormedL == WellFormed(L.tab)

EmitProgram == depth = MaxDepth => PrintT(ToJson([init |-> start, prog |-> hist]))
EmitStep == PrintT(ToJson([L |-> L, T |-> T, op |-> hist'[Len(hist')]]))
(* fork programmes: fork (or fork + swap), then one operation on the receiver; judged on both objects *)
ForkShape == CASE depth = 0 -> hist'[1].name = "fork"
               [] depth = 1 -> hist'[2].name \in {"swap", "add_tomogram", "derive"}
               [] OTHER -> hist'[depth + 1].name \in {"add_tomogram", "observe"}
EmitFork == ForkShape /\ (depth' = MaxDepth => PrintT(ToJson([init |-> start, prog |-> hist'])))
(* depth-2 emission restricted to the dangerous states: interleaved image ids *)
EmitStepInterleaved == (depth = 0 \/ Interleaved(L)) => EmitStep
=============================================================================
