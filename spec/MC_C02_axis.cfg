CONSTANTS
  Mode = "axis"
  TShape <- TShapeDef
  Boxes <- BoxesDef
  Orders = {0, 1, 3}
  Thorough = FALSE
SPECIFICATION Spec
INVARIANT AxisWindowCovers
INVARIANT AxisEmptyRaises
INVARIANT AxisV0416
CHECK_DEADLOCK FALSE
