--------------------------------- MODULE Pipe ---------------------------------
(* Image pipelines (acryo/pipe/_classes.py: ImageProvider, ImageConverter, compose/@, operators;
   _curry.py: provider_function, converter_function; _masking.py, _imread.py, _transform.py).

   A provider denotes a function  scale -> image,  a converter  (image, scale) -> image.
   Expressions (records):
     providers    [t: "prov", id]                       a named base provider
                  [t: "app", c, e]                      converter c composed with provider e   (c @ e)
                  [t: "bin", op, l, r]                  l op r; l, r providers or scalars [t: "sc", v]
                  [t: "neg", e]
     converters   [t: "conv", id]                       a named base converter
                  [t: "ccomp", f, g]                    f @ g
                  [t: "cbin", op, l, r]                 l op r; l, r converters, providers or scalars
   Eval is the denotational meaning over tiny images (sequences of rationals <<n, d>>, d > 0):
   @ is nested application, operators act voxel-wise with either operand order, comparisons give 1/0.
   scale is kept doubled (s2 = 2 * scale). *)
EXTENDS Integers, Sequences, FiniteSets, TLC, Json, FiniteSetsExt

NVox == 2
(* ---- rationals ---- *)
RAdd(a, b) == <<a[1] * b[2] + b[1] * a[2], a[2] * b[2]>>
RSub(a, b) == <<a[1] * b[2] - b[1] * a[2], a[2] * b[2]>>
RMul(a, b) == <<a[1] * b[1], a[2] * b[2]>>
RDiv(a, b) == IF b[1] > 0 THEN <<a[1] * b[2], a[2] * b[1]>> ELSE <<-(a[1] * b[2]), -(a[2] * b[1])>>     \* b # 0
RLt(a, b) == a[1] * b[2] < b[1] * a[2]
REq(a, b) == a[1] * b[2] = b[1] * a[2]
B(x) == IF x THEN <<1, 1>> ELSE <<0, 1>>
ROp(op, a, b) ==
  CASE op = "add" -> RAdd(a, b) [] op = "sub" -> RSub(a, b) [] op = "mul" -> RMul(a, b) [] op = "div" -> RDiv(a, b)
    [] op = "lt" -> B(RLt(a, b)) [] op = "le" -> B(~RLt(b, a)) [] op = "gt" -> B(RLt(b, a)) [] op = "ge" -> B(~RLt(a, b))
    [] op = "eq" -> B(REq(a, b)) [] op = "ne" -> B(~REq(a, b))
IsZero(img) == \E i \in 1..NVox : img[i][1] = 0

(* ---- base providers / converters (what the harness registers through provider_function /
        converter_function with the same integer parameters) ---- *)
BaseP(id, s2) == CASE id = "a" -> [i \in 1..NVox |-> <<2 * i + s2, 1>>]          \* 2*(index) + 2*scale
                   [] id = "b" -> [i \in 1..NVox |-> <<7 - 3 * i, 1>>]            \* scale independent
BaseC(id, img, s2) == CASE id = "addk" -> [i \in 1..NVox |-> RAdd(img[i], <<3 * s2, 2>>)]      \* img + 3 * scale   (a physical parameter)
                        [] id = "mul2" -> [i \in 1..NVox |-> RMul(img[i], <<2, 1>>)]
                        [] id = "thr"  -> [i \in 1..NVox |-> B(RLt(<<3, 1>>, img[i]))]           \* img > 3

RECURSIVE EvalP(_, _), EvalC(_, _, _), EvalAny(_, _, _)
(* value of a provider expression at scale s2 *)
EvalP(e, s2) ==
  CASE e.t = "prov" -> BaseP(e.id, s2)
    [] e.t = "sc"   -> [i \in 1..NVox |-> <<e.v, 1>>]
    [] e.t = "app"  -> EvalC(e.c, EvalP(e.e, s2), s2)
    [] e.t = "neg"  -> [i \in 1..NVox |-> <<-EvalP(e.e, s2)[i][1], EvalP(e.e, s2)[i][2]>>]
    [] e.t = "bin"  -> [i \in 1..NVox |-> ROp(e.op, EvalP(e.l, s2)[i], EvalP(e.r, s2)[i])]
(* value of a converter expression applied to img at scale s2 *)
EvalC(c, img, s2) ==
  CASE c.t = "conv"  -> BaseC(c.id, img, s2)
    [] c.t = "ccomp" -> EvalC(c.f, EvalC(c.g, img, s2), s2)
    [] c.t = "cbin"  -> [i \in 1..NVox |-> ROp(c.op, EvalAny(c.l, img, s2)[i], EvalAny(c.r, img, s2)[i])]
    [] c.t = "cneg"  -> [i \in 1..NVox |-> <<-EvalC(c.e, img, s2)[i][1], EvalC(c.e, img, s2)[i][2]>>]
(* operand of a converter-level operator: converter, provider or scalar *)
EvalAny(x, img, s2) == IF x.t \in {"conv", "ccomp", "cbin", "cneg"} THEN EvalC(x, img, s2) ELSE EvalP(x, s2)

(* division by an image with a zero voxel is not a defined case *)
RECURSIVE DefinedP(_, _), DefinedC(_, _, _), DefinedAny(_, _, _)
DefinedP(e, s2) == CASE e.t \in {"prov", "sc"} -> TRUE
   [] e.t = "app" -> DefinedP(e.e, s2) /\ DefinedC(e.c, EvalP(e.e, s2), s2)
   [] e.t = "neg" -> DefinedP(e.e, s2)
   [] e.t = "bin" -> DefinedP(e.l, s2) /\ DefinedP(e.r, s2) /\ (e.op = "div" => ~IsZero(EvalP(e.r, s2)))
DefinedC(c, img, s2) == CASE c.t = "conv" -> TRUE
   [] c.t = "ccomp" -> DefinedC(c.g, img, s2) /\ DefinedC(c.f, EvalC(c.g, img, s2), s2)
   [] c.t = "cneg" -> DefinedC(c.e, img, s2)
   [] c.t = "cbin" -> DefinedAny(c.l, img, s2) /\ DefinedAny(c.r, img, s2) /\ (c.op = "div" => ~IsZero(EvalAny(c.r, img, s2)))
DefinedAny(x, img, s2) == IF x.t \in {"conv", "ccomp", "cbin", "cneg"} THEN DefinedC(x, img, s2) ELSE DefinedP(x, s2)

(* ---- physical units ---- *)
(* radius in nm -> structuring-element radius in pixels: 0 if r/s < 1, else ceil(r/s)   (r2, s2 doubled) *)
RadiusPx(r2, s2) == IF r2 < s2 THEN 0 ELSE -((-r2) \div s2)
BallCount(r) == Cardinality({v \in ((-r)..r) \X ((-r)..r) \X ((-r)..r) : v[1]*v[1] + v[2]*v[2] + v[3]*v[3] <= r * r})
(* from_gaussian(shape_nm, sigma, shift): pixel shape = round(shape/scale); the maximum lies at the voxel(s)
   nearest to (shape_px - 1)/2 + shift/scale.  Lengths are integers in tenths of a nanometre. *)
RoundTie(n, d) == (2 * n) % (2 * d) = d                      \* n/d lies exactly between two integers (not claimed)
RoundDiv(n, d) == (2 * n + d) \div (2 * d)                   \* nearest integer to n/d for n >= 0, d > 0
GaussShapePx(shape10, scale10) == RoundDiv(shape10, scale10)
(* rescaling providers (from_array / from_arrays / from_file / from_files): the stored image has pixel size o, the caller asks
   for pixel size s; the image is resampled by o/s UNLESS the two agree to within the RELATIVE tolerance tol: |o/s - 1| < tol.
   o, s in thousandths of a nanometre, tol in thousandths.  The decision is a function of the RATIO, so it is the same for
   (lam o, lam s): a statement about units, not about nanometres. *)
AbsD(x) == IF x < 0 THEN -x ELSE x
KeepAsIs(o, s, tolm) == 1000 * AbsD(o - s) < tolm * s
OnToleranceEdge(o, s, tolm) == 1000 * AbsD(o - s) = tolm * s     \* decided by floating-point rounding: not claimed
(* centre along one axis as a rational <<num, den>>: (shape_px - 1)/2 + shift/scale.  It depends on the ROUNDED
   pixel shape, so that the unshifted Gaussian is point-symmetric in the array that is actually returned *)
GaussCentre(shape10, scale10, shift10) == <<(GaussShapePx(shape10, scale10) - 1) * scale10 + 2 * shift10, 2 * scale10>>
GaussSymmetric(shape10, scale10) ==
  LET n == GaussShapePx(shape10, scale10) c == GaussCentre(shape10, scale10, 0) IN
  \A k \in 0..(n - 1) : (k * c[2] - c[1]) = -(((n - 1 - k) * c[2]) - c[1])      \* voxel k and its mirror are equidistant
(* from_atoms(atoms, weights, center)(scale): a histogram of (atoms - center) / scale with unit bins on the cube
   [-size/2, size/2)^3, size = ceil(2 rmax), rmax = the largest distance from the centre in pixels.  Coordinates are given in
   QUARTER PIXELS (a4, c4 integers; the real arguments are a4/4 * scale nm), so nothing depends on the scale - which is the unit
   covariance the property states - and offsets are chosen odd so that no atom sits on a bin edge. *)
Sq(x) == x * x
AtomR2(a4, c4) == Sq(a4[1] - c4[1]) + Sq(a4[2] - c4[2]) + Sq(a4[3] - c4[3])          \* (quarter pixels)^2
MaxR2(atoms4, c4) == CHOOSE r \in {AtomR2(atoms4[i], c4) : i \in 1..Len(atoms4)} : \A i \in 1..Len(atoms4) : AtomR2(atoms4[i], c4) <= r
AtomsSize(atoms4, c4) == CHOOSE n \in 1..64 : 4 * n * n >= MaxR2(atoms4, c4) /\ (n = 1 \/ 4 * (n - 1) * (n - 1) < MaxR2(atoms4, c4))
AtomBin(a4, c4, size, ax) == (2 * (a4[ax] - c4[ax]) + 4 * size) \div 8                \* floor((a - c)/4 + size/2), 0-based
AtomsHist(atoms4, w, c4) ==
  LET n == AtomsSize(atoms4, c4) IN
  [size |-> n,
   bins |-> {[k |-> <<AtomBin(atoms4[i], c4, n, 1), AtomBin(atoms4[i], c4, n, 2), AtomBin(atoms4[i], c4, n, 3)>>,
              w |-> LET k == <<AtomBin(atoms4[i], c4, n, 1), AtomBin(atoms4[i], c4, n, 2), AtomBin(atoms4[i], c4, n, 3)>>
                        same == {j \in 1..Len(atoms4) : <<AtomBin(atoms4[j], c4, n, 1), AtomBin(atoms4[j], c4, n, 2), AtomBin(atoms4[j], c4, n, 3)>> = k}
                    IN FoldSet(LAMBDA j, acc : acc + w[j], 0, same)] : i \in 1..Len(atoms4)}]
OffEdges(atoms4, c4) == \A i \in 1..Len(atoms4) : \A ax \in 1..3 : (atoms4[i][ax] - c4[ax]) % 2 = 1 \/ (c4[ax] - atoms4[i][ax]) % 2 = 1
=============================================================================
