CONSTANTS
  Workers = {1, 2}
  Design = "fixed"
  KeyMode = "pertask"
SPECIFICATION Spec
INVARIANT NoSpuriousError
INVARIANT ResultsAgree
INVARIANT CacheBounded
INVARIANT EmitSchedule
CHECK_DEADLOCK FALSE
