import numpy as np
from scipy.spatial.transform import Rotation
from acryo import SubtomogramLoader, Molecules, TomogramSimulator
from acryo.alignment import ZNCCAlignment

# asymmetric template 15^3: three blobs
shape=(21,21,21)
zz,yy,xx=np.indices(shape,dtype=np.float32)
def blob(c,s): return np.exp(-((zz-c[0])**2+(yy-c[1])**2+(xx-c[2])**2)/2/s**2)
temp=(blob((10,10,10),2.0)+0.8*blob((6,10,12),1.5)+0.6*blob((10,14,7),1.2)).astype(np.float32)

pstar=np.array([30.0,32.0,31.0]); Rstar=Rotation.from_euler("zyx",[[20,0,0]],degrees=True)  # acryo zyx coords
sim=TomogramSimulator(order=3,scale=1.0)
sim.add_molecules(Molecules(pstar[None],Rstar),temp)
tomo=sim.simulate((64,64,64))
# searched rotations: +-15 deg about each axis
rots=((15,15),(0,0),(0,0))
model=ZNCCAlignment(temp,rotations=rots)
quats=model.quaternions
print("nrot",len(quats))
for k in range(len(quats)):
    q=Rotation.from_quat(quats[k])
    for m in ([0,0,0],[3,0,0],[0,3,0],[0,0,3],[2,-3,1]):
        m=np.array(m,float)
        # input molecule: R*=R q -> R = R* q^-1 ; p* = p + R m -> p = p* - R m
        R=Rstar*q.inv()
        p=pstar-R.apply(m)[0]
        loader=SubtomogramLoader(tomo,Molecules(p[None],R),order=3,scale=1.0)
        out=loader.align(temp,max_shifts=4,rotations=rots)
        perr=out.molecules.pos[0]-pstar
        rerr=(out.molecules.rotator[0]*Rstar.inv()).magnitude()
        f=out.molecules.features
        print(k,m,"pos err",np.round(perr,2),"rot err deg",np.round(np.degrees(rerr),2),"dz,dy,dx",f["align-dz"][0],f["align-dy"][0],f["align-dx"][0], "score",round(f["score"][0],3))
