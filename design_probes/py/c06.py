import numpy as np, warnings
from scipy.spatial.transform import Rotation
from acryo.alignment import ZNCCAlignment,NCCAlignment,PCCAlignment
from acryo._rotation import rotate
from acryo._typed_scipy import shift as ndi_shift, affine_transform
from acryo._utils import compose_matrices
def blob(shape,cs):
    zz,yy,xx=np.indices(shape,dtype=np.float32); out=np.zeros(shape,np.float32)
    for c,s,a in cs: out+=a*np.exp(-((zz-c[0])**2+(yy-c[1])**2+(xx-c[2])**2)/2/s**2)
    return out
shape=(21,21,21); c=np.array([10,10,10.])
t0=blob(shape,[(c,2.0,1.0),(c+[-4,0,3],1.5,0.8),(c+[0,4,-3],1.2,0.6)])
t1=blob(shape,[(c,1.5,1.0),(c+[3,3,0],1.5,0.9),(c+[-3,0,-4],1.2,0.7),(c+[0,-4,2],1.0,0.6)])
t2=blob(shape,[(c+[2,0,0],2.5,1.0),(c+[-4,-3,0],1.2,0.9)])
temps=[t0,t1,t2]
rots=Rotation.from_rotvec(np.deg2rad([[-30,0,0],[0,0,0],[30,0,0],[60,0,0]]))
K=len(rots)
def rot_img(img,q):
    mtx=compose_matrices(np.array(img.shape)/2-0.5,[q.inv()])[0]
    return affine_transform(img,mtx,order=3,mode="constant",cval=0.0)
for T in (1,2,3):
    model=ZNCCAlignment(temps[:T] if T>1 else temps[0],rotations=rots)
    bad=0
    for j in range(T):
        for k in range(K):
            img=ndi_shift(rot_img(temps[j],rots[k]),[1,-2,1])
            r=model.align(img,(3,3,3))
            qerr=(Rotation.from_quat(r.quat)*rots[k].inv()).magnitude()
            ok = qerr<1e-6 and (r.label % T if K>1 else r.label)==j if T>1 else qerr<1e-6
            exp_flat=k*T+j
            print("T",T,"j",j,"k",k,"label",r.label,"expected flat",exp_flat,"quat ok",qerr<1e-6,"shift",np.round(r.shift,2),"score",round(float(r.score),3))
