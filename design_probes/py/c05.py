import numpy as np, warnings
from scipy import ndimage as ndi
from acryo.alignment import ZNCCAlignment,NCCAlignment,PCCAlignment,FSCAlignment
rng=np.random.default_rng(0)
def blob(shape,cs):
    zz,yy,xx=np.indices(shape,dtype=np.float32); out=np.zeros(shape,np.float32)
    for c,s,a in cs: out+=a*np.exp(-((zz-c[0])**2+(yy-c[1])**2+(xx-c[2])**2)/2/s**2)
    return out
print("== C05: range/no-failure")
for Model in (ZNCCAlignment,NCCAlignment,PCCAlignment,FSCAlignment):
    for shape in [(8,8,8),(9,9,9),(6,8,10),(4,4,4)]:
        t=rng.normal(size=shape).astype(np.float32)
        m=Model(t)
        for ms in [(0,0,0),(0.3,0.3,0.3),(0.33,0.72,1.49),(1,2,3),(2.5,0,1.01),(12,12,12),(0.5,0.5,0.5),(0.02,0.02,0.02)]:
            img=rng.normal(size=shape).astype(np.float32)
            try:
                with warnings.catch_warnings():
                    warnings.simplefilter("ignore")
                    r=m.align(img,ms)
                sh=np.asarray(r.shift,float)
                bad=np.abs(sh)>np.array(ms)+1e-6
                fin=np.isfinite(sh).all() and np.isfinite(r.score)
                if bad.any() or not fin: print(Model.__name__,shape,ms,"shift",sh,"score",r.score,"OUT" if bad.any() else "", "" if fin else "NONFINITE")
            except Exception as e:
                print(Model.__name__,shape,ms,"RAISED",type(e).__name__,str(e)[:100])
    # constant image
    for img in [np.zeros((8,8,8),np.float32), np.ones((8,8,8),np.float32)]:
        try:
            with warnings.catch_warnings():
                warnings.simplefilter("ignore")
                r=Model(rng.normal(size=(8,8,8)).astype(np.float32)).align(img,(2,2,2))
            print(Model.__name__,"const img",r.shift,r.score)
        except Exception as e:
            print(Model.__name__,"const RAISED",type(e).__name__,str(e)[:100])
