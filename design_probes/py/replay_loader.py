"""Design probe: replay TLC-emitted BatchLoader transitions on the real acryo and compare with the P layer."""
import json, sys, time, numpy as np, polars as pl
from acryo import BatchLoader, Molecules
SHAPE=(8,8,8)
def tomo(imgid): return (imgid*1000+np.arange(np.prod(SHAPE)).reshape(SHAPE)).astype(np.float32)
TOMO={0:tomo(1),1:tomo(2)}
POS={1:(2,2,2),2:(3,4,5),3:(5,2,6),4:(6,6,1)}          # uid -> voxel
def code(img,uid): return TOMO[img][POS[uid]]
def materialise(rows):
    b=BatchLoader(order=0,output_shape=(1,1,1))
    for img in (0,1):
        rs=[r for r in rows if r["img"]==img]
        if rs:
            b.add_tomogram(TOMO[img],Molecules(np.array([POS[r["uid"]] for r in rs],float),features={"uid":[r["uid"] for r in rs],"key":[r["key"] for r in rs]}),image_id=img)
    if not rows: return b
    # put rows in the emitted order (plain assignment of the molecule table)
    order=[r["uid"] for r in rows]
    m=b.molecules; cur=m.features["uid"].to_list()
    return b.replace(molecules=m.subset([cur.index(u) for u in order]))
def project(ld):
    f=ld.molecules.features
    return [{"uid":u,"img":i,"key":k} for u,i,k in zip(f["uid"].to_list(),f["image-id"].to_list(),f["key"].to_list())] if len(f) else []
def apply(ld,op):
    o=op["op"]
    if o=="filter_ge": return ld.filter(pl.col("key")>=op["v"])
    if o=="head": return ld.head(op["n"])
    if o=="tail": return ld.tail(op["n"])
    if o=="sort": return ld.replace(molecules=ld.molecules.sort("key"))
    raise ValueError(o)
def same_rows(got,exp,op):
    if op["op"]!="sort": return got==exp
    # any order consistent with the key and a permutation of the expected rows
    return sorted(map(json.dumps,got))==sorted(map(json.dumps,exp)) and all(a["key"]<=b["key"] for a,b in zip(got,got[1:]))
lines=[json.loads(json.loads(l)) for l in open(sys.argv[1]) if l.startswith('"{')]
t0=time.time(); n=rows_bad=load_bad=as_modelled=parent_mut=0; examples=[]
for rec in lines[::int(sys.argv[2]) if len(sys.argv)>2 else 1]:
    pre,op,post=rec["pre"],rec["op"],rec["post"]
    if not pre: continue   # probe only: empty tables need a schema-preserving materialiser
    ld=materialise(pre)
    assert project(ld)==pre
    snap=project(ld)
    out=apply(ld,op); n+=1
    got=project(out)
    if project(ld)!=snap: parent_mut+=1
    if not same_rows(got,post,op): rows_bad+=1; continue
    if len(got)==0: continue
    ident=out.asnumpy().ravel().tolist()
    expP=[float(code(r["img"],r["uid"])) for r in got]
    if ident!=expP:
        load_bad+=1
        # the I layer predicts grouped-by-image order
        grouped=[r for r in got if r["img"]==got[0]["img"]]+[r for r in got if r["img"]!=got[0]["img"]]
        if ident==[float(code(r["img"],r["uid"])) for r in grouped]: as_modelled+=1
        if len(examples)<2: examples.append({"pre":pre,"op":op,"rows":got,"loaded":ident,"expected":expP})
print(f"replayed {n} transitions in {time.time()-t0:.1f}s: derived-rows mismatches {rows_bad}, parent mutated {parent_mut}, load identity mismatches {load_bad} (of which exactly as the I layer predicts: {as_modelled})")
for e in examples: print(json.dumps(e))
