import numpy as np, warnings, itertools
from scipy.spatial.transform import Rotation
from acryo import Molecules
from acryo.molecules import axes_to_rotator
rng=np.random.default_rng(0)
print("== C11")
# cube group
def cube_rots():
    out=[]
    for perm in itertools.permutations(range(3)):
        for signs in itertools.product([1,-1],repeat=3):
            M=np.zeros((3,3)); 
            for i,(p,s) in enumerate(zip(perm,signs)): M[i,p]=s
            if abs(np.linalg.det(M)-1)<1e-9: out.append(M)
    return out
G=cube_rots(); print(len(G))
bad=[]
for M in G:
    R=Rotation.from_matrix(M[None])
    m=Molecules(np.zeros((1,3)),R)
    z,y,x=m.z[0],m.y[0],m.x[0]
    # right-handed in zyx: z = y x x (per test: np.cross(y,x)=z)
    assert np.allclose(np.cross(y,x),z)
    for pair in ("zy","yx","zx"):
        kw={"z":z[None],"y":y[None],"x":x[None]}; kw={k:v for k,v in kw.items() if k in pair}
        m2=Molecules.from_axes(np.zeros((1,3)),**kw)
        ok=np.allclose(m2.z,z,atol=1e-6) and np.allclose(m2.y,y,atol=1e-6) and np.allclose(m2.x,x,atol=1e-6)
        if not ok: bad.append((np.round(z),np.round(y),pair))
print("from_axes failures on cube group:",len(bad)); 
for b in bad[:10]: print(" ",b)
# batch mixing
zs=np.array([[1,0,0],[-1,0,0],[0,0,1]],float); ys=np.array([[0,1,0],[0,-1,0],[0,1,0]],float)
mb=Molecules.from_axes(np.zeros((3,3)),z=zs,y=ys)
print("batch mix z ok",np.allclose(mb.z,zs,atol=1e-6),"y ok",np.allclose(mb.y,ys,atol=1e-6)); print(np.round(mb.z,3),np.round(mb.y,3))
zs=np.array([[1,0,0],[0,0,1]],float); ys=np.array([[0,-1,0],[0,1,0]],float)
mb=Molecules.from_axes(np.zeros((2,3)),z=zs,y=ys)
print("batch mix2 z ok",np.allclose(mb.z,zs,atol=1e-6),"y ok",np.allclose(mb.y,ys,atol=1e-6))
# euler round trip
R=Rotation.random(50,random_state=1); m=Molecules(np.zeros((50,3)),R)
for seq in ("ZXZ","zxz","ZYX","zyx","XYZ","xyz"):
    for order in ("xyz","zyx"):
        e=m.euler_angle(seq,degrees=True)
        try:
            m2=Molecules.from_euler(np.zeros((50,3)),e,seq=seq,degrees=True,order=order)
            print(seq,order,"roundtrip",np.allclose(m2.matrix(),m.matrix(),atol=1e-6))
        except Exception as ex: print(seq,order,"ERR",ex)
# internal ops
p=rng.normal(size=(5,3)); R=Rotation.random(5,random_state=2); m=Molecules(p,R)
s=rng.normal(size=(5,3))
mt=m.translate_internal(s)
print("translate_internal", np.allclose(mt.pos, p+R.apply(s),atol=1e-5), "orig untouched",np.allclose(m.pos,p,atol=1e-6))
v=rng.normal(size=(5,3))*0.5
mr=m.rotate_by_rotvec_internal(v)
print("rotate internal == R*q", np.allclose(mr.matrix(),(R*Rotation.from_rotvec(v)).as_matrix(),atol=1e-6), "pos fixed",np.allclose(mr.pos,m.pos))
W=Rotation.random(5,random_state=3)
print("rotate_by world left", np.allclose(m.rotate_by(W).matrix(),(W*R).as_matrix()))
# affine_matrix / local_coordinates
A=m.affine_matrix(src=np.array([2.,2,2]))
k=np.array([3.,1,4,1])
print("affine", np.allclose((A@k)[:, :3], p+R.apply(k[:3]-2),atol=1e-4))
lc=m[0:1].local_coordinates((3,4,5),scale=2.0)
kk=np.array([2,3,1]); c=(np.array((3,4,5))-1)/2
print("local coords", np.allclose(lc[:,2,3,1], p[0]/2.0+R[0].apply(kk-c),atol=1e-4))
