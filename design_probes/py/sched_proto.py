import threading, numpy as np
from acryo.alignment import ZNCCAlignment
from acryo.backend import Backend

class Sched:
    """Serialises threads at yield points; follows a given schedule (list of thread names)."""
    def __init__(self, schedule):
        self.schedule=list(schedule); self.sem={}; self.ctrl=threading.Semaphore(0); self.log=[]; self.done=set()
    def register(self,name): self.sem[name]=threading.Semaphore(0)
    def yield_point(self,op):
        name=threading.current_thread().name
        if name not in self.sem: return
        self.log.append((name,op))
        self.ctrl.release()          # tell controller we reached a yield point
        self.sem[name].acquire()     # wait to be scheduled
    def finish(self):
        name=threading.current_thread().name; self.done.add(name); self.ctrl.release()
    def run(self,threads):
        for t in threads: t.start()
        for _ in threads: self.ctrl.acquire()     # all reach first yield point (or finish)
        for name in self.schedule:
            if name in self.done: continue
            self.sem[name].release(); self.ctrl.acquire()
        # drain: let remaining threads run to completion in order
        while len(self.done)<len(threads):
            for t in threads:
                if t.name not in self.done:
                    self.sem[t.name].release(); self.ctrl.acquire()
        for t in threads: t.join()

class TracedDict:
    """dict-like with yield points before each primitive op; iteration uses the real dict iterator."""
    def __init__(self, inner, sched): self.d=inner; self.s=sched
    def get(self,k,default=None): self.s.yield_point("lookup"); return self.d.get(k,default)
    def __setitem__(self,k,v): self.s.yield_point("insert"); self.d[k]=v
    def values(self):
        outer=self
        class V:
            def __iter__(s2):
                outer.s.yield_point("iter_new"); it=iter(outer.d.values())
                class I:
                    def __iter__(s3): return s3
                    def __next__(s3): outer.s.yield_point("iter_next"); return next(it)
                return I()
        return V()
    def __len__(self): return len(self.d)

t=np.random.default_rng(0).normal(size=(6,6,6)).astype(np.float32)
def trial(schedule):
    m=ZNCCAlignment(t)
    s=Sched(schedule)
    m._template_mask_cache._dict=TracedDict(m._template_mask_cache._dict,s)
    res={}
    def work():
        try: res[threading.current_thread().name]=("ok",m._template_mask_cache.get(Backend()) is not None)
        except Exception as e: res[threading.current_thread().name]=("ERR",type(e).__name__,str(e))
        finally: s.finish()
    ths=[threading.Thread(target=work,name=n) for n in ("A","B")]
    for n in ("A","B"): s.register(n)
    s.run(ths)
    return res,s.log
# each thread: lookup, iter_new, iter_next, insert.  Steps release the thread *past* the named yield point.
print(trial(["A","A","A","A","B","B","B","B"]))          # sequential
print(trial(["A","A","B","B","B","B","A","A"]))          # A created iterator; B inserts; A next -> error?
