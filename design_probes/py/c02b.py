import numpy as np, warnings
from acryo import SubtomogramLoader, Molecules
import dask.array as da
tomo=np.arange(10*10*10,dtype=np.float32).reshape(10,10,10)
for order in (0,1,3):
  for shape in [(3,3,3),(4,4,4)]:
    for z in [-20,-8,-7,-6,-5,-4,-3,-2,-1.5,-1,12,13,14,15,16,17,18,30]:
        for img in (tomo,):
            ld=SubtomogramLoader(img,Molecules(np.array([[z,5,5]],float)),order=order,output_shape=shape)
            try:
                with warnings.catch_warnings():
                    warnings.simplefilter("ignore")
                    s=ld.load(0)
                print(order,shape,z,"finite",bool(np.isfinite(s).all()), "nan" if np.isnan(s).any() else "")
            except Exception as e:
                print(order,shape,z,"RAISED",type(e).__name__)
