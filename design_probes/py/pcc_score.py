import numpy as np
from acryo.alignment import PCCAlignment
from acryo.backend import Backend
from acryo.backend._pcc import subpixel_pcc
rng=np.random.default_rng(0)
zz,yy,xx=np.indices((12,12,12),dtype=np.float32)
t=np.exp(-((zz-5.5)**2+(yy-5)**2+(xx-6)**2)/2/1.5**2).astype(np.float32)+0.5*np.exp(-((zz-3)**2+(yy-7)**2+(xx-6)**2)/2/1.0**2).astype(np.float32)
F=np.fft.fftn(t)
energy=np.sqrt(((np.abs(F)**2).sum()/t.size)**2)  # |ifft(F conj F)|^2 at 0 = (sum t^2)^2 -> sqrt = sum t^2
print("sum t^2 =",(t**2).sum())
for ms in [(3,3,3),(1,1,1)]:
    sh,p=subpixel_pcc(F,F,20,ms,Backend()); print("identical images: shift",sh,"pcc",p)
    sh,p1=subpixel_pcc(F,F,1,(0,0,0),Backend()); print("  upsample=1 (score()):",p1)
