import numpy as np, warnings
from acryo import _utils, SubtomogramLoader, BatchLoader, Molecules, TomogramSimulator
import dask.array as da
rng=np.random.default_rng(0)
print("== C17 FSC")
for shape in [(8,8,8),(7,7,7),(6,7,8),(9,5,4)]:
    a=rng.normal(size=shape).astype(np.float32); b=(a+0.5*rng.normal(size=shape)).astype(np.float32)
    for dfreq in (0.05,0.1,1/min(shape),0.02):
        with warnings.catch_warnings():
            warnings.simplefilter("ignore")
            f,x=_utils.fourier_shell_correlation(a,b,dfreq); _,y=_utils.fourier_shell_correlation(b,a,dfreq); _,s=_utils.fourier_shell_correlation(a,a,dfreq); _,g=_utils.fourier_shell_correlation(a*3,b*0.5,dfreq)
        # ref
        fr=np.meshgrid(*[np.fft.fftfreq(n) for n in shape],indexing="ij"); r=np.sqrt(sum(q**2 for q in fr)); lab=(r/dfreq).astype(int)
        F1,F2=np.fft.fftn(a),np.fft.fftn(b); ref=[]
        for L in range(lab.max()):
            m=lab==L
            ref.append(np.nan if not m.any() else (F1[m]*F2[m].conj()).real.sum()/np.sqrt((abs(F1[m])**2).sum()*(abs(F2[m])**2).sum()))
        ref=np.array(ref)
        ok=np.isfinite(ref)
        print(shape,round(dfreq,3),"n",len(x),"maxlab",lab.max(),"ref err",np.nanmax(np.abs(x-ref)[ok]) if ok.any() else None,"sym",np.nanmax(np.abs(x-y)),"self==1",np.nanmin(s),np.nanmax(s),"nan in self",np.isnan(s).sum(),"gain",np.nanmax(np.abs(x-g)),"range",np.nanmin(x),np.nanmax(x), "freq0",f[:2])
