import numpy as np
from scipy.spatial.transform import Rotation
from acryo.tilt import single_axis
import importlib.util,sys
spec=importlib.util.spec_from_file_location("c08","/tmp/exp/c08.py")
src=open("/tmp/exp/c08.py").read().split("def negidx")[0]
exec(src)
for shape in [(4,6,8),(8,4,6),(6,6,4),(4,4,8)]:
    for rot in [Rotation.identity(), Rotation.from_rotvec([0.3,-0.2,0.5])]:
        for tr in [(-60,60),(-40,50)]:
            m=np.asarray(single_axis(tr).create_mask(rot,shape)).astype(bool)
            ref,bd=ref_mask(rot,tr,shape)
            print(shape,"id" if rot.magnitude()==0 else "gen",tr,"mismatch",((m!=ref)&~bd.reshape(shape)).sum(),"of",m.size)
