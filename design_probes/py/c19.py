import numpy as np, warnings
from acryo import pipe
from acryo.pipe import ImageProvider, ImageConverter, provider_function, converter_function
print("== C19 pipe")
@provider_function
def const(scale, v, shape=(3,3,3)): return np.full(shape, float(v)*scale, dtype=np.float32)
@converter_function
def addk(img, scale, k): return img + k*scale
@converter_function
def mulk(img, scale, k): return img * k
a=const(3.0); b=const(5.0)
f=addk(1.0); g=mulk(3.0); h=addk(-4.0)
s=0.5
x=np.full((3,3,3),7.0,np.float32)
print("compose conv", ((f@g)(x,s))[0,0,0], f(g(x,s),s)[0,0,0])
print("assoc", (((f@g)@h)(x,s))[0,0,0], ((f@(g@h))(x,s))[0,0,0])
print("compose prov", ((f@g@a)(s))[0,0,0], f(g(a(s),s),s)[0,0,0])
print("a+b",(a+b)(s)[0,0,0], "a-b",(a-b)(s)[0,0,0],"a*b",(a*b)(s)[0,0,0],"a/b",(a/b)(s)[0,0,0])
print("1-a expected",1-a(s)[0,0,0],"got",(1-a)(s)[0,0,0]); print("1/a expected",1/a(s)[0,0,0],"got",(1/a)(s)[0,0,0])
print("3+a",(3+a)(s)[0,0,0],"3*a",(3*a)(s)[0,0,0])
for nm,fn in [("a<b",lambda:(a<b)(s)),("a>=b",lambda:(a>=b)(s)),("a==b",lambda:(a==b)(s)),("a<2",lambda:(a<2)(s)),("-a",lambda:(-a)(s)),("f<g",lambda:(f<g)(x,s)),("f==g",lambda:(f==g)(x,s)),("f<a",lambda:(f<a)(x,s))]:
    try:
        r=fn(); print(nm,r[0,0,0],r.dtype)
    except Exception as e: print(nm,"RAISED",type(e).__name__,str(e)[:60])
print("conv ops: f+g",(f+g)(x,s)[0,0,0], f(x,s)[0,0,0]+g(x,s)[0,0,0], "1-f",(1-f)(x,s)[0,0,0],"expected",1-f(x,s)[0,0,0])
# gaussian
for shape_nm,scale,shift in [((4.0,4.0,4.0),0.5,(0,0,0)),((4.5,4.5,4.5),0.5,(0.5,0,-0.5)),((3.0,4.0,5.0),1.0,(0,0,0))]:
    gimg=pipe.from_gaussian(shape_nm,sigma=1.0,shift=shift)(scale)
    am=np.unravel_index(np.argmax(gimg),gimg.shape); com=[(np.indices(gimg.shape)[i]*gimg).sum()/gimg.sum() for i in range(3)]
    print("gaussian",shape_nm,scale,shift,"shape",gimg.shape,"argmax",am,"expected centre",(np.array(gimg.shape)-1)/2+np.array(shift)/scale,"max",gimg.max())
# rescale
img=np.random.default_rng(0).normal(size=(8,8,8)).astype(np.float32)
for sc in (1.0,1.005,0.5,2.0):
    out=pipe.from_array(img,original_scale=1.0)(sc); print("from_array",sc,out.shape,out is img, out.dtype)
# scale covariance of masks
blob=np.zeros((15,15,15),np.float32); blob[5:10,5:10,5:10]=1; blob+=0.01*np.random.default_rng(1).normal(size=blob.shape).astype(np.float32)
for lam in (1.0,2.0,0.37):
    m=pipe.soft_otsu(sigma=1.0*lam,radius=2.0*lam)(blob,1.0*lam); print("soft_otsu lam",lam,m.sum().round(4),m.min(),m.max())
d=pipe.dilation(2.0)(blob>0.5,1.0); e=pipe.dilation(-2.0)(blob>0.5,1.0); c=pipe.closing(2.0)(blob>0.5,1.0); o=pipe.closing(-2.0)(blob>0.5,1.0)
b0=blob>0.5
print("dilation extensive",(d>=b0).all(),"erosion anti",(e<=b0).all(),"closing ext",(c>=b0).all(),"opening anti",(o<=b0).all())
