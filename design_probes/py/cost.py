import time, numpy as np, dask
from acryo import SubtomogramLoader, BatchLoader, Molecules
from acryo.alignment import ZNCCAlignment
t0=time.time()
tomo=np.random.default_rng(0).normal(size=(24,24,24)).astype(np.float32)
m=Molecules(np.array([[8,8,8],[12,12,12],[15,14,13],[9,10,11]],float))
ld=SubtomogramLoader(tomo,m,order=1,output_shape=(5,5,5))
for sched in ("threads","synchronous"):
    with dask.config.set(scheduler=sched):
        t=time.time()
        for _ in range(50): ld.asnumpy()
        print(sched,"asnumpy 4 mols: ms",(time.time()-t)/50*1e3)
        temp=np.random.default_rng(1).normal(size=(9,9,9)).astype(np.float32)
        t=time.time()
        for _ in range(20): ld.align(temp,max_shifts=2.0)
        print(sched,"align 4 mols 9^3: ms",(time.time()-t)/20*1e3)
        t=time.time()
        for _ in range(20): ld.align(temp,max_shifts=2.0,rotations=((10,10),(0,0),(0,0)))
        print(sched,"align 3 rots: ms",(time.time()-t)/20*1e3)
mm=ZNCCAlignment(temp)
t=time.time()
for _ in range(200): mm.align(temp,(2,2,2))
print("model.align ms",(time.time()-t)/200*1e3)
