import numpy as np, warnings
import dask.array as da
from acryo.classification import PcaClassifier
rng=np.random.default_rng(0)
print("== C18 PCA")
for shape,N in [((6,6,6),12),((8,8,8),30),((10,10,10),40)]:
    base=rng.normal(size=(2,)+shape).astype(np.float32)
    lab=np.arange(N)%2
    X=np.stack([base[l]*3+0.3*rng.normal(size=shape) for l in lab]).astype(np.float32)
    mask=(rng.uniform(size=shape)>0.3).astype(np.float32)
    Xm=(X*mask).reshape(N,-1); Xc=Xm-Xm.mean(0)
    U,S,Vt=np.linalg.svd(Xc,full_matrices=False)
    for chunks in [None,(4,)+shape,(5,)+tuple(s//2 for s in shape)]:
        st=X if chunks is None else da.from_array(X,chunks=chunks)
        try:
            with warnings.catch_warnings():
                warnings.simplefilter("ignore")
                clf=PcaClassifier(st,mask,n_components=3,n_clusters=2,seed=0).run()
            sv=clf.pca.singular_values_; comp=clf.pca.components_
            serr=np.abs(sv-S[:3]).max()/S[0]
            cerr=max(min(np.abs(comp[i]-Vt[i]).max(),np.abs(comp[i]+Vt[i]).max()) for i in range(3))
            tr=clf.get_transform(); perr=max(min(np.abs(tr[:,i]-U[:,i]*S[i]).max(),np.abs(tr[:,i]+U[:,i]*S[i]).max()) for i in range(3))/S[0]
            part=len(set(zip(lab,clf.labels)))==2
            print(shape,N,chunks,"sv relerr",f"{serr:.2e}","comp err",f"{cerr:.2e}","proj relerr",f"{perr:.2e}","clusters ok",part, "solver feat>500",np.prod(shape)>500)
        except Exception as e: print(shape,N,chunks,"RAISED",type(e).__name__,str(e)[:120])
