import numpy as np, warnings, tempfile, os, polars as pl
from scipy.spatial.transform import Rotation
from acryo import Molecules
rng=np.random.default_rng(0)
print("== C12/C13")
n=6
pos=np.arange(n*3).reshape(n,3).astype(float)*1.5
R=Rotation.random(n,random_state=0)
m=Molecules(pos,R,features={"id":list(range(n)),"s":["a","b",None,"a","c","b"],"f":[0.5,None,2.5,1.0,3.0,0.1],"b":[True,False,True,True,False,None]})
def ids(x): return x.features["id"].to_list()
def consistent(x,ref=m):
    i=ids(x); return np.allclose(x.pos,ref.pos[i],atol=1e-5) and np.allclose(x.rotator.as_matrix(),ref.rotator[i].as_matrix(),atol=1e-5) and len(x.features)==len(x.pos)==len(x.rotator)
print("subset list",consistent(m.subset([4,1,1,0])),ids(m.subset([4,1,1,0])))
print("subset slice",consistent(m.subset(slice(1,5,2))))
print("subset bool",consistent(m.subset(np.array([1,0,1,1,0,0],bool))))
print("filter",consistent(m.filter(pl.col("f")>0.4)),ids(m.filter(pl.col("f")>0.4)))
print("sort",consistent(m.sort("s")),ids(m.sort("s")))
print("sort desc",consistent(m.sort("f",descending=True)),ids(m.sort("f",descending=True)))
print("head/tail",consistent(m.head(2)),consistent(m.tail(2)),ids(m.tail(2)))
print("sample",consistent(m.sample(4,seed=1)),ids(m.sample(4,seed=1)))
c=Molecules.concat([m.head(2),m.tail(3)]); print("concat",consistent(c),ids(c))
g=list(m.group_by("s")); print("group_by",[(k,ids(x)) for k,x in g], all(consistent(x) for _,x in g))
g=list(m.with_features(pl.col("f").fill_null(9.0)).cutby("f",[0.3,1.5])); print("cutby",[(k,ids(x)) for k,x in g])
try: Molecules(pos,R,features={"z":list(range(n))}).to_dataframe(); print("collision accepted!")
except ValueError as e: print("collision rejected")
try: Molecules(pos,R,features={"q":[1,2]}); print("len mismatch accepted!")
except ValueError as e: print("len mismatch rejected")
try: Molecules(pos[:3],R); print("rot len mismatch accepted!")
except ValueError as e: print("rot len mismatch rejected")
a=m.head(2).copy()
try: a.append(Molecules(pos[:1],R[:1],features={"zz":[1]})); print("append extra accepted!")
except ValueError as e: print("append extra rejected")
# empty
e=m.filter(pl.col("f")>100); print("empty filter",len(e),e.features.shape, e.pos.shape)
try:
    print("empty chain", len(e.sort("f")), len(e.head(1)))
except Exception as ex: print("empty chain ERR",type(ex).__name__,ex)
# io
with tempfile.TemporaryDirectory() as d:
    for suf in (".csv",".parquet",".pq",".txt"):
        p=os.path.join(d,"m"+suf); m.to_file(p); r=Molecules.from_file(p)
        print(suf,"pos",np.abs(r.pos-m.pos).max(),"rot",(r.rotator*m.rotator.inv()).magnitude().max(),"cols",r.to_dataframe().columns, r.features.dtypes, r.features["s"].to_list(), r.features["b"].to_list())
    # near pi
    Rpi=Rotation.from_rotvec([[np.pi,0,0],[0,np.pi-1e-4,0],[1e-9,0,0],[0,0,0],[2.2214415,2.2214415,0]])
    mp=Molecules(np.array([[1e4+0.123456,-3.2,0.00001]]*5),Rpi)
    for suf in (".csv",".parquet"):
        p=os.path.join(d,"p"+suf); mp.to_file(p); r=Molecules.from_file(p)
        print(suf,"near-pi rot err",(r.rotator*mp.rotator.inv()).magnitude(),"pos err",np.abs(r.pos-mp.pos).max())
    mp.to_csv(os.path.join(d,"q.csv"),float_precision=2); r=Molecules.from_csv(os.path.join(d,"q.csv")); print("prec2 pos",r.pos[0],mp.pos[0])
