import numpy as np, warnings
from scipy.spatial.transform import Rotation
from acryo.alignment import ZNCCAlignment,NCCAlignment,PCCAlignment,FSCAlignment
from acryo import _utils
from acryo.backend import Backend
rng=np.random.default_rng(1)
def blob(shape,cs):
    zz,yy,xx=np.indices(shape,dtype=np.float32); out=np.zeros(shape,np.float32)
    for c,s,a in cs: out+=a*np.exp(-((zz-c[0])**2+(yy-c[1])**2+(xx-c[2])**2)/2/s**2)
    return out
q0=np.array([0,0,0,1.]); p0=np.zeros(3)
for shape in [(10,10,10),(9,9,9),(8,10,12),(9,10,11)]:
    c=(np.array(shape)-1)/2
    t=blob(shape,[(c,2.0,1.0),(c+[-2,1,2],1.3,0.7)])+0.05*rng.normal(size=shape).astype(np.float32)
    img=t+0.3*rng.normal(size=shape).astype(np.float32)
    zz,yy,xx=np.indices(shape); r=np.sqrt(sum((g-cc)**2 for g,cc in zip((zz,yy,xx),c)))
    masks={"none":None,"bin":(r<3.5).astype(np.float32),"soft":np.clip((4.5-r)/2,0,1).astype(np.float32)}
    for mk,mask in masks.items():
      for cutoff in (None,0.3):
        for tilt in (None,(-60,60)):
          for Model in (ZNCCAlignment,NCCAlignment,FSCAlignment):
            try:
              m=Model(t,mask,cutoff=cutoff,tilt=tilt)
              q=Rotation.from_rotvec([0.2,0.4,-0.3]).as_quat() if tilt else q0
              s_self=m.score(t,q,p0); s=m.score(img,q,p0); s_gain=m.score(img*2.5,q,p0); s_off=m.score(img+3.0,q,p0)
              with warnings.catch_warnings():
                warnings.simplefilter("ignore")
                a0=m.align(img,(0,0,0),q,p0).score
                lnd=m.landscape(img,(2,2,2),q,p0); ctr=lnd[tuple(s//2 for s in lnd.shape)]
              # reference pearson
              mm=np.ones(shape,np.float32) if mask is None else mask
              def prep(x):
                  f=_utils.lowpass_filter_ft(x*mm,cutoff or 1.0)
                  mw=m.get_missing_wedge_mask(q)
                  return np.fft.ifftn(f*mw).real
              A,B=prep(img),prep(t)
              if Model is ZNCCAlignment: ref=np.corrcoef(A.ravel(),B.ravel())[0,1]
              elif Model is NCCAlignment: ref=(A*B).sum()/np.sqrt((A*A).sum()*(B*B).sum())
              else: ref=np.nan
              print(shape,mk,cutoff,tilt,Model.__name__[:4],"self",round(float(s_self),4),"s",round(float(s),4),"ref",round(float(ref),4),"gain",round(float(s_gain),4),"off",round(float(s_off),4),"align0",round(float(a0),4),"lndctr",round(float(ctr),4))
            except Exception as e:
              print(shape,mk,cutoff,tilt,Model.__name__,"RAISED",type(e).__name__,str(e)[:90])
