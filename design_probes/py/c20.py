import numpy as np, warnings
import dask.array as da
from acryo.pick import LoGPicker, DoGPicker, ZNCCTemplateMatcher
rng=np.random.default_rng(0)
print("== C20 picking")
shape=(40,48,56)
zz,yy,xx=np.indices(shape,dtype=np.float32)
centers=np.array([[10,10,10],[10,30,40],[28,12,44],[30,36,14],[20,24,28]],float)
img=np.zeros(shape,np.float32)
for c in centers: img+=np.exp(-((zz-c[0])**2+(yy-c[1])**2+(xx-c[2])**2)/2/2.0**2)
def report(name,mole,scale):
    p=mole.pos/scale
    d=np.linalg.norm(p[:,None]-centers[None],axis=2)
    matched=d.min(1)<1.0
    print(name,"n",len(p),"all centers found",(d.min(0)<1.0).all(),"extra/misplaced",(~matched).sum(),"dups",len(p)-len(set(d.argmin(1)[matched])) - (~matched).sum())
for scale in (1.0,0.5):
  for chunks in [None,(40,48,56),(20,24,28),(13,17,19),(8,8,8)]:
    im=img if chunks is None else da.from_array(img,chunks=chunks)
    for name,pk in [("LoG",LoGPicker(sigma=2.0*scale)),("DoG",DoGPicker(2.0*scale,3.0*scale))]:
        try:
            with warnings.catch_warnings():
                warnings.simplefilter("ignore")
                m=pk.pick_molecules(im,scale=scale)
            report(f"{name} scale={scale} chunks={chunks}",m,scale)
        except Exception as e: print(name,chunks,"RAISED",type(e).__name__,str(e)[:100])
# template matcher
t=np.zeros((9,9,9),np.float32); tz,ty,tx=np.indices(t.shape); t=np.exp(-((tz-4)**2+(ty-4)**2+(tx-4)**2)/2/2.0**2).astype(np.float32)
for chunks in [None,(20,24,28)]:
    im=img if chunks is None else da.from_array(img,chunks=chunks)
    try:
        m=ZNCCTemplateMatcher(t).pick_molecules(im,scale=1.0,min_distance=3.0,min_score=0.5)
        report(f"TM chunks={chunks}",m,1.0)
    except Exception as e: print("TM",chunks,"RAISED",type(e).__name__,str(e)[:100])
