import numpy as np, warnings, sys, threading, dask
from acryo import SubtomogramLoader, Molecules
from acryo.alignment import ZNCCAlignment
from acryo.backend import Backend
rng=np.random.default_rng(0)
tomo=rng.normal(size=(40,40,40)).astype(np.float32)
pos=rng.uniform(10,30,size=(64,3))
ld=SubtomogramLoader(tomo,Molecules(pos),order=1,output_shape=(6,6,6))
t=rng.normal(size=(6,6,6)).astype(np.float32)
sys.setswitchinterval(1e-6)
errs=0
base=None
for it in range(30):
    try:
        with dask.config.set(scheduler="threads",num_workers=16):
            out=ld.score([t])[0]
        if base is None: base=out
        elif not np.array_equal(base,out): print("DIFF")
    except Exception as e:
        errs+=1; print("ERR",type(e).__name__,str(e)[:80])
print("errors",errs,"/30")
m=ZNCCAlignment(t)
print("cache size after", len(m._template_mask_cache._dict))
for i in range(5): m.score(t,np.array([0,0,0,1.]),np.zeros(3))
print("cache size after 5 scores", len(m._template_mask_cache._dict))
# direct hammer on cache
m=ZNCCAlignment(t)
def worker():
    for _ in range(2000):
        m._template_mask_cache.get(Backend())
ths=[threading.Thread(target=worker) for _ in range(8)]
excs=[]
def hook(args): excs.append(args.exc_type.__name__)
threading.excepthook=hook
[x.start() for x in ths]; [x.join() for x in ths]
print("direct hammer exceptions:",len(excs), set(excs), "cache size",len(m._template_mask_cache._dict))
