"""Design probe: pytest plugin that records every alignment-model `align` return (no repo change)."""
import json, os, threading, functools, numpy as np
_lock=threading.Lock(); _seq={}; _out=None
def _emit(ev):
    global _out
    t=threading.get_ident()
    with _lock:
        _seq[t]=_seq.get(t,0)+1; ev["thread"]=t; ev["seq"]=_seq[t]
        if _out is None: _out=open(os.environ.get("ACRYO_TRACE","/tmp/exp/rec/trace.ndjson"),"a")
        _out.write(json.dumps(ev)+"\n"); _out.flush()
def _fx(x,scale=1000): return [int(round(float(v)*scale)) for v in np.asarray(x).ravel()]
def pytest_configure(config):
    from acryo.alignment import _base
    def wrap(cls):
        orig=cls.__dict__["align"]
        @functools.wraps(orig)
        def align(self,img,max_shifts,*a,**k):
            ev={"kind":"AlignReturn","cls":type(self).__name__,"T":int(self._n_templates),"K":int(getattr(self,"_n_rotations",1)),"max_shifts":_fx(np.broadcast_to(np.asarray(max_shifts,float),(3,)))}
            try:
                r=orig(self,img,max_shifts,*a,**k)
            except Exception as e:
                ev["error"]=type(e).__name__; _emit(ev); raise
            ev.update(label=int(r.label),shift=_fx(r.shift),quat=_fx(r.quat,100000),finite=bool(np.isfinite(np.asarray(r.shift,float)).all() and np.isfinite(float(r.score))))
            if hasattr(self,"quaternions"):
                qs=np.asarray(self.quaternions,float)
                ev["qidx"]=int(np.argmin(np.abs(qs-np.asarray(r.quat,float)).sum(1)))
            _emit(ev); return r
        cls.align=align
    # only the outermost implementation is wrapped to avoid nested double logging
    wrap(_base.RotationImplemented)
