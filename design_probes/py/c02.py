import numpy as np, itertools
from scipy.spatial.transform import Rotation
from scipy import ndimage as ndi
from acryo import SubtomogramLoader, Molecules
rng=np.random.default_rng(0)
tomo=rng.normal(size=(20,22,24)).astype(np.float32)
# identity, integer pos, odd box -> exact block
for order in (0,1,3):
  for shape in [(5,5,5),(3,5,7),(4,4,4),(4,5,6)]:
    for pos in [(10,11,12),(2,2,2),(0,0,0),(19,21,23),(1,20,5)]:
        ld=SubtomogramLoader(tomo,Molecules(np.array([pos],float)),order=order,output_shape=shape)
        try:
            sub=ld.load(0)
        except Exception as e:
            print(order,shape,pos,"ERR",type(e).__name__,e); continue
        # expected via map_coordinates with coordinate pos + (k-(s-1)/2)
        kk=np.indices(shape).astype(float)
        coords=np.stack([kk[i]-(shape[i]-1)/2+pos[i] for i in range(3)])
        inb=np.all([(coords[i]>=0)&(coords[i]<=tomo.shape[i]-1) for i in range(3)],axis=0)
        exp=ndi.map_coordinates(tomo,coords,order=order,mode="constant",cval=np.nan,prefilter=order>1)
        err=np.nanmax(np.abs(sub-exp)[inb]) if inb.any() else None
        print(order,shape,pos,"finite",np.isfinite(sub).all(),"max err in-bounds",err)
