import numpy as np, itertools
from scipy.spatial.transform import Rotation
from acryo import Molecules
def cube_rots():
    out=[]
    for perm in itertools.permutations(range(3)):
        for signs in itertools.product([1,-1],repeat=3):
            M=np.zeros((3,3))
            for i,(p,s) in enumerate(zip(perm,signs)): M[i,p]=s
            if abs(np.linalg.det(M)-1)<1e-9: out.append(M)
    return out
bad={}
for M in cube_rots():
    m=Molecules(np.zeros((1,3)),Rotation.from_matrix(M[None]))
    z,y,x=m.z[0],m.y[0],m.x[0]
    for pair in ("zy","yx","zx"):
        kw={"z":z[None],"y":y[None],"x":x[None]}; kw={k:v for k,v in kw.items() if k in pair}
        m2=Molecules.from_axes(np.zeros((1,3)),**kw)
        ok=np.allclose(m2.z,z,atol=1e-6) and np.allclose(m2.y,y,atol=1e-6) and np.allclose(m2.x,x,atol=1e-6)
        if not ok: bad.setdefault((tuple(np.round(z).astype(int)),tuple(np.round(y).astype(int))),[]).append(pair)
for k,v in bad.items(): print("z",k[0],"y",k[1],v)
