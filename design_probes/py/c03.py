import numpy as np, polars as pl
from acryo import SubtomogramLoader, BatchLoader, Molecules
def mk(imgid,shape=(12,12,12)):
    # voxel value encodes image id and linear index
    return (imgid*10000+np.arange(np.prod(shape)).reshape(shape)).astype(np.float32)
t0,t1=mk(1),mk(2)
m0=Molecules(np.array([[3,3,3],[4,5,6],[7,7,7]],float),features={"a":[5,1,3]})
m1=Molecules(np.array([[2,2,2],[8,8,8]],float),features={"a":[4,2]})
b=BatchLoader(order=0,output_shape=(1,1,1))
b.add_tomogram(t0,m0,image_id=0); b.add_tomogram(t1,m1,image_id=1)
def expect(ld):
    out=[]
    for p,i in zip(ld.molecules.pos, ld.molecules.features["image-id"]):
        t={0:t0,1:t1}[i]; out.append(t[tuple(int(x) for x in p)])
    return np.array(out)
for name,ld in [("orig",b),("sorted",b.replace(molecules=b.molecules.sort("a"))),("filter",b.filter(pl.col("a")>1)),("sample",b.sample(4,seed=1)),("head",b.head(4)),("tail",b.tail(3))]:
    got=ld.asnumpy().ravel()
    print(name, ld.molecules.features["image-id"].to_list(), "match", np.array_equal(got,expect(ld)), got, expect(ld))
# group
s=b.replace(molecules=b.molecules.sort("a"))
for k,l in s.groupby("image-id"):
    print("group",k,l.molecules.features["a"].to_list(), np.array_equal(l.asnumpy().ravel(),expect(l)))
g=b.groupby("image-id").filter(pl.col("a")>1)
print("group filter count twice", g.count(), g.count())
# parent unchanged?
print("parent n", b.count(), b.molecules.features["a"].to_list())
# apply
s2=s.replace(output_shape=(1,1,1))
print(s2.apply(np.mean)["mean"].to_numpy(), expect(s2))
