import numpy as np, warnings
from acryo import _utils, pipe
from acryo.backend import Backend
rng=np.random.default_rng(0)
xp=Backend()
print("== C16 lowpass")
for shape in [(8,8,8),(7,7,7),(6,7,8),(6,8,7),(5,4,3),(1,4,4),(4,4,1),(2,2,2),(3,3,3)]:
    img=rng.normal(size=shape).astype(np.float32)
    for cutoff in (0.2,0.45,-1,0,0.9):
        for order in (2,):
            try:
                o1=_utils.lowpass_filter(img,cutoff,order)
                ft=_utils.lowpass_filter_ft(img,cutoff,order)
                o2=np.fft.ifftn(ft).real
                o3=np.asarray(xp.lowpass_filter(img,cutoff,order))
                o4=np.fft.ifftn(np.asarray(xp.lowpass_filter_ft(img,cutoff,order))).real
                # reference
                f=np.meshgrid(*[np.fft.fftfreq(s) for s in shape],indexing="ij"); r2=sum(g**2 for g in f)
                if cutoff<=0 or cutoff>=0.5*np.sqrt(3): ref=img
                else: ref=np.fft.ifftn(np.fft.fftn(img)/(1+(r2/cutoff**2)**order)).real
                def cmp(o): return "shape!"+str(o.shape) if o.shape!=img.shape else round(float(np.abs(o-ref).max()),6)
                print(shape,cutoff,"real",cmp(o1),"ft",cmp(o2),"bk-real",cmp(o3),"bk-ft",cmp(o4))
            except Exception as e:
                print(shape,cutoff,"RAISED",type(e).__name__,str(e)[:100])
