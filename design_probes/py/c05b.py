import numpy as np, warnings
from acryo import SubtomogramLoader, Molecules
rng=np.random.default_rng(0)
tomo=rng.normal(size=(30,30,30)).astype(np.float32)
m=Molecules(rng.uniform(5,10,size=(4,3)),features={"g":[0,1,0,1]})
ld=SubtomogramLoader(tomo,m,order=1,output_shape=(7,7,7),scale=0.5)
t=rng.normal(size=(7,7,7)).astype(np.float32); t2=rng.normal(size=(7,7,7)).astype(np.float32)
for name,fn in [("align scalar",lambda: ld.align(t,max_shifts=1.0)),
                ("align tuple",lambda: ld.align(t,max_shifts=(1.0,0.5,0.2))),
                ("multi scalar",lambda: ld.align_multi_templates([t,t2],max_shifts=1.0)),
                ("multi tuple",lambda: ld.align_multi_templates([t,t2],max_shifts=(1.0,1.0,1.0))),
                ("group scalar",lambda: ld.groupby("g").align(t,max_shifts=1.0)),
                ("group tuple",lambda: ld.groupby("g").align(t,max_shifts=(1.0,1.0,1.0))),
                ("group multi tuple",lambda: ld.groupby("g").align_multi_templates([t,t2],max_shifts=(1.0,1.0,1.0))),
                ("landscape shape",lambda: (lambda a:(a.shape,a.compute().shape))(ld.construct_landscape(t,max_shifts=0.8,upsample=1))),
                ("landscape shape up2",lambda: (lambda a:(a.shape,a.compute().shape))(ld.construct_landscape(t,max_shifts=1.0,upsample=2))),
                ("landscape shape int",lambda: (lambda a:(a.shape,a.compute().shape))(ld.construct_landscape(t,max_shifts=1.0,upsample=1))),
                ]:
    try:
        with warnings.catch_warnings():
            warnings.simplefilter("ignore")
            r=fn()
        print(name,"OK", r if isinstance(r,tuple) else "")
    except Exception as e: print(name,"RAISED",type(e).__name__,str(e)[:100])
