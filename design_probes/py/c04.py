import numpy as np, warnings
from scipy import ndimage as ndi
from acryo.alignment import ZNCCAlignment,NCCAlignment,PCCAlignment,FSCAlignment
def blob(shape,cs):
    zz,yy,xx=np.indices(shape,dtype=np.float32); out=np.zeros(shape,np.float32)
    for c,s,a in cs: out+=a*np.exp(-((zz-c[0])**2+(yy-c[1])**2+(xx-c[2])**2)/2/s**2)
    return out
def fshift(img,d):
    F=np.fft.fftn(img)
    for ax,(n,dd) in enumerate(zip(img.shape,d)):
        f=np.fft.fftfreq(n); ph=np.exp(-2j*np.pi*f*dd)
        sh=[1,1,1]; sh[ax]=n; F=F*ph.reshape(sh)
    return np.fft.ifftn(F).real.astype(np.float32)
print("== C04: translational accuracy")
for shape in [(16,16,16),(15,15,15),(12,16,20),(13,14,15)]:
    c=(np.array(shape)-1)/2
    t=blob(shape,[(c,2.0,1.0),(c+[-2,1,2],1.3,0.7),(c+[1,-2,-1],1.0,0.5)])
    for Model in (ZNCCAlignment,NCCAlignment,PCCAlignment,FSCAlignment):
        m=Model(t)
        for d,ms in [((1,-2,2),(3,3,3)),((0.5,-1.25,2.3),(3,3,3)),((3,-3,3),(3,3,3)),((2.5,2.5,-2.5),(2.5,2.5,2.5)),((0.3,0,-0.2),(0.5,0.5,0.5)),((1.5,0.25,-0.75),(1.5,1.5,1.5))]:
            if Model is FSCAlignment and max(ms)>2.5 and shape[0]>13: pass
            img=fshift(t,d)*3+0.5
            try:
                with warnings.catch_warnings():
                    warnings.simplefilter("ignore")
                    r=m.align(img,ms)
                err=np.abs(np.asarray(r.shift)-np.array(d)).max()
                flag="BAD" if err>(0.5 if Model is FSCAlignment else 0.1)+1e-6 else ""
                print(Model.__name__,shape,d,ms,"shift",np.round(r.shift,3),"err",round(float(err),3),"score",round(float(r.score),4),flag)
            except Exception as e:
                print(Model.__name__,shape,d,ms,"RAISED",type(e).__name__,str(e)[:80])
