import json, numpy as np, math
from scipy.spatial.transform import Rotation
from acryo.tilt import single_axis
n=0; bad=0; skipped=0; first=[]
for line in open("/tmp/exp/tla/emit.out"):
    if not line.startswith('"{'): continue
    rec=json.loads(json.loads(line))
    cfg=rec["cfg"]; shape=tuple(cfg["shape"])
    if not (shape[0]==shape[1]==shape[2] and shape[0]%2==0): continue
    perm,sign=cfg["rot"]
    M=np.zeros((3,3))
    for i in range(3): M[i,perm[i]-1]=sign[i]
    t0,t1=cfg["t0"],cfg["t1"]
    deg=(math.degrees(math.atan2(t0[0],t0[1])), math.degrees(math.atan2(t1[0],t1[1])))
    if not (-90<=deg[0]<deg[1]<=90): skipped+=1; continue
    exp=np.array(rec["mask"])
    for cand,R in (("M",M),("MT",M.T)):
        got=np.asarray(single_axis(deg).create_mask(Rotation.from_matrix(R),shape)).astype(int)
        mism=((exp!=2)&(got!=(exp==1)|(exp==2))).sum() if False else (((exp==1)&(got==0))|((exp==0)&(got==1))).sum()
        rec.setdefault("mm",{})[cand]=int(mism)
    n+=1
    if min(rec["mm"].values())>0:
        bad+=1
        if len(first)<5: first.append((shape,cfg["rot"],deg,rec["mm"]))
    else:
        first_ok=rec["mm"]
print("compared",n,"skipped",skipped,"neither convention matches",bad); print(first[:5])
# which convention?
import collections
cnt=collections.Counter()
for line in open("/tmp/exp/tla/emit.out"):
    pass
cM=cT=0
for line in open("/tmp/exp/tla/emit.out"):
    if not line.startswith('"{'): continue
    rec=json.loads(json.loads(line)); cfg=rec["cfg"]; shape=tuple(cfg["shape"])
    if shape!=(4,4,4): continue
    perm,sign=cfg["rot"]; M=np.zeros((3,3))
    for i in range(3): M[i,perm[i]-1]=sign[i]
    t0,t1=cfg["t0"],cfg["t1"]; deg=(math.degrees(math.atan2(t0[0],t0[1])), math.degrees(math.atan2(t1[0],t1[1])))
    exp=np.array(rec["mask"])
    for cand,R in (("M",M),("MT",M.T)):
        got=np.asarray(single_axis(deg).create_mask(Rotation.from_matrix(R),shape)).astype(int)
        mism=(((exp==1)&(got==0))|((exp==0)&(got==1))).sum()
        if cand=="M": cM+=mism==0
        else: cT+=mism==0
print("4^3: configs matched with R=M:",cM," with R=M^T:",cT," of 240")
