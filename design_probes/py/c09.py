import numpy as np, warnings, polars as pl
from acryo import _utils, SubtomogramLoader, BatchLoader, Molecules, TomogramSimulator
from acryo.loader._misc import random_splitter
import dask.array as da
rng=np.random.default_rng(0)
tomo=rng.normal(size=(30,30,30)).astype(np.float32)
pos=rng.uniform(8,22,size=(7,3))
mole=Molecules(pos,features={"g":[0,1,0,1,1,0,2]})
print("== C09 average")
for chunks in [None,(10,10,10),(7,30,13)]:
    img=tomo if chunks is None else da.from_array(tomo,chunks=chunks)
    ld=SubtomogramLoader(img,mole,order=1,output_shape=(5,5,5))
    stack=ld.asnumpy(); avg=ld.average()
    print(chunks,"avg==mean",np.abs(avg-stack.mean(0)).max())
    sp=ld.average_split(n_set=2,seed=3); sp2=ld.average_split(n_set=2,seed=3)
    print(" split reproducible",np.array_equal(sp,sp2), sp.shape)
    # recover partition by solving? use indicator trick: apply to loader w/ const images instead
for n in range(1,9):
    for seed in range(20):
        a,b=random_splitter(np.random.default_rng(seed),n)
        assert not (a&b).any() and (a|b).all()
        if n>=2: assert a.any() and b.any(), (n,seed)
print("splitter ok; sizes e.g.",[ (random_splitter(np.random.default_rng(s),8)[0].sum()) for s in range(10)])
ld=SubtomogramLoader(tomo,mole,order=1,output_shape=(5,5,5))
g=ld.groupby("g").average()
for k,l in ld.groupby("g"): print("group",k,np.abs(g[k]-l.average()).max(), np.abs(g[k]-l.asnumpy().mean(0)).max())
# weighted
sp=ld.average_split(n_set=1,seed=0)
# counts unknown from API -> check exists w in {1..n-1}: (w*h0+(n-w)*h1)/n == avg
avg=ld.average(); n=len(mole)
print("weighted mean matches for w=",[w for w in range(1,n) if np.abs((w*sp[0]+(n-w)*sp[1])/n-avg).max()<1e-5])
print("== C15 binning")
tomo2=rng.normal(size=(31,32,33)).astype(np.float32)
for b in (1,2,3,4):
    for shape in [(3,3,3),(4,4,4),(3,4,5)]:
        # molecule position on the binned grid: binned pixel centre j corresponds to original (j*b + (b-1)/2)
        pj=np.array([[4,4,4],[5,3,4]])
        posb=(pj*b+(b-1)/2).astype(float)   # in original pixel units (scale 1)
        if shape[0]%2==0: posb=posb+0.5*b  # even boxes: half-integer on binned grid
        ld=SubtomogramLoader(tomo2,Molecules(posb),order=1,scale=1.0)
        lb=ld.binning(b,compute=True)
        sub_b=lb.load(0,output_shape=shape)
        big=ld.load(0,output_shape=tuple(s*b for s in shape))
        bs=_utils.bin_image(big,b)
        print(b,shape,"scale",lb.scale,"img shape",lb.image.shape,"err",np.abs(sub_b-bs).max(),"parent untouched",ld.scale,ld.molecules.pos[0])
