import numpy as np, itertools
from scipy.spatial.transform import Rotation
from acryo import SubtomogramLoader, Molecules
from acryo.alignment import ZNCCAlignment, PCCAlignment, NCCAlignment
def cube_rots():
    out=[]
    for perm in itertools.permutations(range(3)):
        for signs in itertools.product([1,-1],repeat=3):
            M=np.zeros((3,3))
            for i,(p,s) in enumerate(zip(perm,signs)): M[i,p]=s
            if abs(np.linalg.det(M)-1)<1e-9: out.append(M)
    return out
G=cube_rots()
# asymmetric integer template 9^3 (zero rim)
t=np.zeros((9,9,9),np.float32)
t[4,4,4]=9; t[3,4,4]=7; t[2,4,4]=5; t[4,5,4]=6; t[4,6,4]=3; t[4,4,5]=4; t[5,5,5]=2; t[3,3,5]=1
# smooth a bit so correlation peak is well-behaved but keep exactness under Rot24 (isotropic 3x3x3 box blur is Rot24-invariant)
from scipy import ndimage as ndi
t=ndi.uniform_filter(t,3,mode="constant").astype(np.float32)
c=np.array([4,4,4])
def plant(tomo,pstar,M):
    for k in np.ndindex(t.shape):
        if t[k]!=0:
            v=pstar+M@(np.array(k)-c)
            tomo[tuple(v.astype(int))]+=t[k]
S=(40,40,40)
rng=np.random.default_rng(0)
searched=[np.eye(3),G[5],G[9],G[17]]
searched_R=Rotation.from_matrix(np.stack(searched))
nbad=0; n=0
for trial in range(40):
    Mstar=G[rng.integers(24)]; pstar=rng.integers(14,26,size=3)
    tomo=np.zeros(S,np.float32); plant(tomo,pstar,Mstar)
    ki=rng.integers(len(searched)); q=searched[ki]; m=rng.integers(-2,3,size=3)
    R=Mstar@q.T; p=pstar-R@m
    ld=SubtomogramLoader(tomo,Molecules(p[None].astype(float),Rotation.from_matrix(R[None])),order=1,scale=1.0)
    for Model in (ZNCCAlignment,PCCAlignment):
        out=ld.align(t,max_shifts=2.0,rotations=searched_R,alignment_model=Model)
        f=out.molecules.features
        s=np.array([f["align-dz"][0],f["align-dy"][0],f["align-dx"][0]])
        rv=np.array([f["align-dzrot"][0],f["align-dyrot"][0],f["align-dxrot"][0]])
        qfound=Rotation.from_rotvec(rv).as_matrix()
        ok_s=np.abs(s-m).max()<=0.1; ok_q=np.abs(qfound-q).max()<1e-3
        # what a correct write-back would give
        pfix=p+R@s; Rfix=R@qfound
        ok_fix=np.abs(pfix-pstar).max()<=0.1 and np.abs(Rfix-Mstar).max()<1e-3
        n+=1
        if not (ok_s and ok_q and ok_fix):
            nbad+=1; print("MISMATCH",Model.__name__,"m",m,"s",s,"qidx",ki,"ok_q",ok_q,"score",f["score"][0])
print("cases",n,"oracle mismatches",nbad)
