import sys; sys.path.insert(0,"/tmp/exp/rec")
import acryo_recorder; acryo_recorder.pytest_configure(None)
exec(open("/tmp/exp/c06.py").read())
