import numpy as np, warnings
from scipy.spatial.transform import Rotation
from acryo import SubtomogramLoader, Molecules, TomogramSimulator
rng=np.random.default_rng(0)
print("== C14 simulator")
for shape in [(5,5,5),(4,4,4),(3,4,5),(6,5,4)]:
    temp=np.zeros(shape,np.float32); inner=tuple(slice(1,s-1) for s in shape)
    temp[inner]=rng.uniform(1,2,size=tuple(s-2 for s in shape)).astype(np.float32)
    for order in (0,1,3):
        c=np.array([10,11,12],float)
        pos=np.array([c+[(0 if s%2 else 0.5) for s in shape]])
        sim=TomogramSimulator(order=order,scale=1.0); sim.add_molecules(Molecules(pos),temp)
        tomo=sim.simulate((24,24,24))
        # expected exact paste: voxel k at pos + k - (s-1)/2
        start=(pos[0]-(np.array(shape)-1)/2).astype(int)
        exp=np.zeros((24,24,24),np.float32); exp[tuple(slice(a,a+s) for a,s in zip(start,shape))]=temp
        err=np.abs(tomo-exp).max()
        ld=SubtomogramLoader(tomo,Molecules(pos),order=order,output_shape=shape)
        back=ld.load(0); 
        # where did it actually land? find best integer/half offset
        com_t=np.array([ (np.indices(shape)[i]*temp).sum()/temp.sum() for i in range(3)])-(np.array(shape)-1)/2
        com_s=np.array([ (np.indices(tomo.shape)[i]*tomo).sum()/tomo.sum() for i in range(3)])-pos[0]
        print(shape,order,"paste err",round(float(err),4),"load-back err",round(float(np.abs(back-temp).max()),4),"COM offset",np.round(com_s-com_t,3))
# outside / straddling
temp=np.ones((5,5,5),np.float32)
sim=TomogramSimulator(order=1); sim.add_molecules(Molecules(np.array([[0,0,0],[-10,3,3],[23,23,23],[40,40,40],[-2.0,5,5],[-3,5,5]],float)),temp)
try:
    t=sim.simulate((24,24,24)); print("straddle ok sum",t.sum(), "expected", 27+0+27+0+ 25*1+0)
except Exception as e: print("straddle RAISED",type(e).__name__,e)
# 2d vs projection
temp=rng.uniform(0,1,size=(5,5,5)).astype(np.float32); temp[0]=temp[-1]=0; temp[:,0]=temp[:,-1]=0; temp[:,:,0]=temp[:,:,-1]=0
m=Molecules(np.array([[6,7,8],[10,12.3,9.6],[5,20,20]],float),Rotation.from_rotvec([[0,0,0],[0.3,0.2,0.1],[0,0,0]]))
sim=TomogramSimulator(order=1); sim.add_molecules(m,temp)
t3=sim.simulate((20,24,24)); t2=sim.simulate_2d((24,24))
print("2d vs proj",np.abs(t3.sum(0)-t2).max())
# order independence
sim2=TomogramSimulator(order=1); sim2.add_molecules(m[[2,0,1]],temp)
print("perm",np.abs(sim2.simulate((20,24,24))-t3).max())
