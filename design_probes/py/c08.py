import numpy as np, itertools, warnings
from scipy.spatial.transform import Rotation
from acryo.tilt import single_axis, dual_axis, no_wedge
from acryo.backend import Backend
from acryo import _utils
from acryo.alignment import ZNCCAlignment

def ref_mask(rot, tr, shape, axis="y"):
    # physical freq vectors in molecule frame -> tomogram frame by rot
    fz,fy,fx=np.meshgrid(*[np.fft.fftfreq(s) for s in shape],indexing="ij")
    v=np.stack([fz,fy,fx],-1).reshape(-1,3)
    w=rot.apply(v)   # zyx vectors
    a0,a1=np.deg2rad(tr)
    # tilt about y: beam along z; sampled planes: normal to (z,x)=(cos?,...)
    # information exists for directions (z,x) with angle from x axis between a0 and a1: z = x tan(a)
    if axis=="y":
        z,x=w[:,0],w[:,2]
    else:
        z,x=w[:,0],w[:,1]
    d0=z*np.cos(a0)-x*np.sin(a0)
    d1=z*np.cos(a1)-x*np.sin(a1)
    keep=d0*d1<=1e-12
    return keep.reshape(shape), (np.abs(d0)<1e-9)|(np.abs(d1)<1e-9)

def negidx(shape):
    return np.ix_(*[(-np.arange(s))%s for s in shape])
for shape in [(5,5,5),(4,4,4),(6,6,6),(7,7,7),(4,5,6),(8,8,8),(9,9,9)]:
    for rot in [Rotation.identity(), Rotation.from_rotvec([0.3,-0.2,0.5])]:
        for tr in [(-60,60),(-40,50)]:
            m=np.asarray(single_axis(tr).create_mask(rot,shape)).astype(bool)
            sym=(m==m[negidx(shape)]).all()
            nasym=(m!=m[negidx(shape)]).sum()
            best=None
            for cand in ("rot","inv"):
                r=rot if cand=="rot" else rot.inv()
                ref,bd=ref_mask(r,tr,shape)
                mism=((m!=ref)&~bd.reshape(shape)).sum()
                best=(cand,mism) if best is None or mism<best[1] else best
            print(shape, "id" if rot.magnitude()==0 else "gen", tr, "DC",m[0,0,0],"sym",sym,nasym,"ref mismatch",best, "kept frac",m.mean().round(3))
# entry points equal?
rot=Rotation.from_rotvec([0.3,-0.2,0.5]); shape=(6,7,8); tr=(-50,40)
a=np.asarray(single_axis(tr).create_mask(rot,shape)).astype(bool)
b=np.asarray(Backend().missing_wedge_mask(rot,tr,shape)).astype(bool)
c=np.asarray(_utils.missing_wedge_mask(rot,tr,shape)).astype(bool)
print("entry points agree",(a==b).all(),(a==c).all())
t=np.random.default_rng(0).normal(size=shape).astype(np.float32)
q=rot.as_quat()
m1=ZNCCAlignment(t,tilt=tr).get_missing_wedge_mask(q)
m2=ZNCCAlignment(t,tilt=single_axis(tr)).get_missing_wedge_mask(q)
with warnings.catch_warnings():
    warnings.simplefilter("ignore")
    m3=ZNCCAlignment(t,tilt_range=tr).get_missing_wedge_mask(q)
print("tuple==model",(np.asarray(m1)==np.asarray(m2)).all(),"legacy==tuple",(np.asarray(m1)==np.asarray(m3)).all(), np.asarray(m3).mean())
d=dual_axis((-60,60),(-50,50)).create_mask(rot,shape)
u=np.maximum(single_axis((-60,60),"y").create_mask(rot,shape),single_axis((-50,50),"x").create_mask(rot,shape))
print("dual==union",(np.asarray(d)==np.asarray(u)).all())
