import numpy as np, dask, polars as pl
from acryo import SubtomogramLoader, BatchLoader, Molecules
from acryo.alignment import BaseAlignmentModel
from scipy.spatial.transform import Rotation

class ProbeModel(BaseAlignmentModel):
    """Reveals which (sub-volume, quaternion, pos) triple each task received."""
    def pre_transform(self, image, backend): return image
    def _optimize(self, subvolume, template, max_shifts, quaternion, pos, backend):
        c=tuple(s//2 for s in subvolume.shape)
        # shift echoes pos (pixel) mod 1000 scaled down; score carries the centre voxel (identity code)
        return np.asarray(pos,np.float32)/1000.0, np.array([0,0,0,1],np.float32), float(subvolume[c])
    def _score(self, subvolume, template, quaternion, pos, backend):
        c=tuple(s//2 for s in subvolume.shape); return float(subvolume[c])
    def _landscape(self, subvolume, template, max_shifts, quaternion, pos, backend):
        return np.full((1,1,1), subvolume[tuple(s//2 for s in subvolume.shape)], np.float32)

def mk(imgid,shape=(12,12,12)): return (imgid*10000+np.arange(np.prod(shape)).reshape(shape)).astype(np.float32)
t0,t1=mk(1),mk(2)
b=BatchLoader(order=0)
b.add_tomogram(t0,Molecules(np.array([[3,3,3],[4,5,6],[7,7,7]],float),features={"a":[5,1,3]}),image_id=0)
b.add_tomogram(t1,Molecules(np.array([[2,2,2],[8,8,8]],float),features={"a":[4,2]}),image_id=1)
s=b.replace(molecules=b.molecules.sort("a"))
templ=np.ones((3,3,3),np.float32)
out=s.align(templ,max_shifts=1.0,alignment_model=ProbeModel)
f=out.molecules.features
print("ids   ",f["image-id"].to_list())
print("score ",f["score"].to_list())
exp=[{0:t0,1:t1}[i][tuple(int(x) for x in p)] for p,i in zip(s.molecules.pos,s.molecules.features["image-id"])]
print("expect",exp)
print("scores via score():", s.score([templ],alignment_model=ProbeModel)[0])
# custom dask scheduler: run tasks in a chosen order
from dask.core import get_dependencies, flatten
from dask.local import get_sync
order_log=[]
def my_get(dsk, keys, **kw):
    # delegate to the synchronous scheduler but record execution order by wrapping callables? simplest: use get_sync with callbacks
    from dask.callbacks import Callback
    class C(Callback):
        def _pretask(self,key,dsk,state): order_log.append(key if isinstance(key,str) else key[0])
    with C(): return get_sync(dsk, keys, **kw)
with dask.config.set(scheduler=my_get):
    r=s.asnumpy(output_shape=(1,1,1)).ravel()
print("custom get ran",len(order_log),"tasks; result",r)
