---- MODULE Dft4 ----
EXTENDS Integers, Sequences, FiniteSets, TLC, Json, FiniteSetsExt
\* Exact 3-D DFT of a 4x4x4 integer image over Gaussian integers; twiddles are powers of -i.
N == 4
Idx == 0..(N-1)
\* multiply <<re,im>> by (-i)^e
Rot(c, e) == CASE e % 4 = 0 -> c [] e % 4 = 1 -> <<c[2], -c[1]>> [] e % 4 = 2 -> <<-c[1], -c[2]>> [] e % 4 = 3 -> <<-c[2], c[1]>>
Add(a, b) == <<a[1] + b[1], a[2] + b[2]>>
Cells == Idx \X Idx \X Idx
SumOver(S, f(_)) == FoldSet(LAMBDA x, acc : Add(f(x), acc), <<0, 0>>, S)
Dft(img) == [k \in Cells |-> SumOver(Cells, LAMBDA x : Rot(<<img[x], 0>>, x[1]*k[1] + x[2]*k[2] + x[3]*k[3]))]
\* a deterministic pseudo-random integer image
Img(seed) == [x \in Cells |-> ((x[1]*7 + x[2]*13 + x[3]*29 + seed*31) % 5)]
VARIABLES seed, out
Init == seed \in 1..20 /\ out = <<>>
Next == out = <<>> /\ UNCHANGED seed /\ out' = LET F == Dft(Img(seed)) G == Dft(Img(seed + 100))
                              cross == SumOver(Cells, LAMBDA k : <<F[k][1]*G[k][1] + F[k][2]*G[k][2], 0>>)
                              p1 == SumOver(Cells, LAMBDA k : <<F[k][1]*F[k][1] + F[k][2]*F[k][2], 0>>)
                          IN <<cross[1], p1[1], F[<<0,0,0>>]>>
Spec == Init /\ [][Next]_<<seed, out>>
Parseval == out # <<>> => TRUE
====
