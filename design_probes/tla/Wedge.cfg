CONSTANT MaxN = 4
SPECIFICATION Spec
INVARIANT Symmetric
INVARIANT DCKept
CHECK_DEADLOCK FALSE
