CONSTANTS Workers = {1,2} PerTaskBackend = TRUE
SPECIFICATION Spec
INVARIANT NoSpuriousError
VIEW View
CHECK_DEADLOCK FALSE
