---- MODULE Sched ----
EXTENDS Integers, Sequences, FiniteSets, TLC, Json
CONSTANTS Workers, PerTaskBackend
\* each worker runs one task: model.align -> _get_template_and_mask_input -> TemplateMaskCache.get(backend)
VARIABLES keys,      \* sequence of backend-object ids in the cache (dict insertion order)
          pc,        \* worker -> "lookup" | "iter_new" | "iter_next" | "insert" | "compute" | "done" | "error"
          snap,      \* worker -> dict size when its values-iterator was created
          hist       \* schedule so far (observation only)
vars == <<keys, pc, snap, hist>>
Key(w) == IF PerTaskBackend THEN w ELSE 100       \* Backend() per task vs one shared Backend object
InCache(k) == \E i \in 1..Len(keys) : keys[i] = k
Init == /\ keys = <<0>>                            \* __init__ cached under a throw-away Backend()
        /\ pc = [w \in Workers |-> "lookup"] /\ snap = [w \in Workers |-> 0] /\ hist = <<>>
Step(w, a) == hist' = Append(hist, <<w, a>>)
Lookup(w) == /\ pc[w] = "lookup"
             /\ pc' = [pc EXCEPT ![w] = IF InCache(Key(w)) THEN "compute" ELSE "iter_new"]
             /\ UNCHANGED <<keys, snap>> /\ Step(w, "lookup")
IterNew(w) == /\ pc[w] = "iter_new" /\ snap' = [snap EXCEPT ![w] = Len(keys)]
              /\ pc' = [pc EXCEPT ![w] = "iter_next"] /\ UNCHANGED keys /\ Step(w, "iter_new")
IterNext(w) == /\ pc[w] = "iter_next"
               /\ pc' = [pc EXCEPT ![w] = IF Len(keys) # snap[w] THEN "error" ELSE "insert"]
               /\ UNCHANGED <<keys, snap>> /\ Step(w, "iter_next")
Insert(w) == /\ pc[w] = "insert"
             /\ keys' = IF InCache(Key(w)) THEN keys ELSE Append(keys, Key(w))
             /\ pc' = [pc EXCEPT ![w] = "compute"] /\ UNCHANGED snap /\ Step(w, "insert")
Compute(w) == /\ pc[w] = "compute" /\ pc' = [pc EXCEPT ![w] = "done"] /\ UNCHANGED <<keys, snap>> /\ Step(w, "compute")
Next == \E w \in Workers : Lookup(w) \/ IterNew(w) \/ IterNext(w) \/ Insert(w) \/ Compute(w)
Spec == Init /\ [][Next]_vars
NoSpuriousError == \A w \in Workers : pc[w] # "error"
View == <<keys, pc, snap>>
====
