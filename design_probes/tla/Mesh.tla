---- MODULE Mesh ----
EXTENDS Integers
\* Units: U = 1/400 px.  m = limit (U), s = integer peak offset (px), i = refined mesh index (1/20 px = 20 U).
VARIABLES
  \* @type: Int;
  m,
  \* @type: Int;
  s,
  \* @type: Int;
  i,
  \* @type: Bool;
  fixed
Max(a, b) == IF a > b THEN a ELSE b
Min(a, b) == IF a < b THEN a ELSE b
FloorDiv(a, b) == a \div b                      \* TLA+ \div is floor division for b > 0
CeilDiv(a, b) == -((-a) \div b)
RoundDiv(a, b) == (2 * a + b) \div (2 * b)      \* round half up (ties differ from Python only on exact .5)
Left == Max(-s * 400 - m, -400)                 \* max(left, -1) in U
Right == Min(-s * 400 + m, 400)
Lo == IF fixed THEN CeilDiv(Left, 20) ELSE RoundDiv(Left, 20)
Hi == IF fixed THEN FloorDiv(Right, 20) ELSE RoundDiv(Right, 20)
Init == /\ m \in 0..100000 /\ s \in -300..300 /\ i \in -20..20 /\ fixed \in BOOLEAN
        /\ s * 400 <= m /\ -s * 400 <= m       \* integer peak inside +-int(m)
        /\ Lo <= i /\ i <= Hi
Next == UNCHANGED <<m, s, i, fixed>>
Total == s * 400 + i * 20                        \* reported shift in U
InRangeFixed == fixed => (Total <= m /\ -Total <= m)
InRangeAsCoded == (~fixed) => (Total <= m /\ -Total <= m)
====
