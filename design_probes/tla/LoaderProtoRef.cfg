CONSTANTS MaxDepth = 3
SPECIFICATION Spec
VIEW View
INVARIANT RefinesP
CHECK_DEADLOCK FALSE
