---- MODULE TraceAlign ----
(* Design probe: total trace validation of AlignReturn events recorded from real runs. *)
EXTENDS Integers, Sequences, FiniteSets, TLC, TLCExt, Json, IOUtils
Tr == ndJsonDeserialize(IOEnv.TRACE_FILE)
VARIABLES l, bad
Abs(x) == IF x < 0 THEN -x ELSE x
Has(e, f) == f \in DOMAIN e
NoRaise(e)  == ~Has(e, "error")
Finite(e)   == NoRaise(e) => e.finite
InRange(e)  == NoRaise(e) => \A i \in 1..3 : Abs(e.shift[i]) <= e.max_shifts[i] + 1        \* 1e-3 px
Decode(e)   == (NoRaise(e) /\ Has(e, "qidx") /\ e.K > 1) => e.qidx = e.label \div e.T
LabelOK(e)  == NoRaise(e) => (e.label >= 0 /\ e.label < e.T * e.K)
Clauses(e) == {c \in {"NoRaise", "Finite", "InRange", "Decode", "LabelOK"} :
                 ~ CASE c = "NoRaise" -> NoRaise(e) [] c = "Finite" -> Finite(e) [] c = "InRange" -> InRange(e)
                     [] c = "Decode" -> Decode(e) [] c = "LabelOK" -> LabelOK(e)}
Init == l = 1 /\ bad = {}
Next == /\ l <= Len(Tr)
        /\ bad' = IF Clauses(Tr[l]) = {} THEN bad ELSE bad \cup {<<l, Clauses(Tr[l])>>}
        /\ l' = l + 1
Spec == Init /\ [][Next]_<<l, bad>>
Done == l = Len(Tr) + 1 => PrintT(<<"VERDICT", Len(Tr), bad>>)
====
