---- MODULE TblTrace ----
EXTENDS Integers, Sequences, FiniteSets, TLC, TLCExt, Json, IOUtils, SequencesExt
Tr == ndJsonDeserialize(IOEnv.TRACE_FILE)
VARIABLES tbl, l
vars == <<tbl, l>>
Min2(a,b) == IF a < b THEN a ELSE b
Max2(a,b) == IF a > b THEN a ELSE b
Expected(e) ==
  CASE e.op = "head" -> SubSeq(e.pre, 1, Min2(e.args.n, Len(e.pre)))
    [] e.op = "tail" -> SubSeq(e.pre, Max2(Len(e.pre) - e.args.n + 1, 1), Len(e.pre))
    [] e.op = "filter" -> SelectSeq(e.pre, LAMBDA r : r.k = e.args.v)
    [] e.op = "sort" -> SelectSeq(e.pre, LAMBDA r : r.k = 0) \o SelectSeq(e.pre, LAMBDA r : r.k = 1)
Init == l = 1 /\ tbl = <<>>
Next == /\ l <= Len(Tr)
        /\ LET e == Tr[l] IN
           /\ (e.first \/ e.pre = tbl)
           /\ e.post = Expected(e)
           /\ tbl' = e.post
        /\ l' = l + 1
Spec == Init /\ [][Next]_vars
Accepted == IF TLCGet("stats").diameter - 1 = Len(Tr) THEN TRUE
            ELSE PrintT(<<"REJECTED at", TLCGet("stats").diameter, Tr[TLCGet("stats").diameter]>>) /\ FALSE
====
