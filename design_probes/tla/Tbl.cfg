CONSTANTS MaxRows = 3 MaxDepth = 2
SPECIFICATION Spec
VIEW View
INVARIANT RowsIntact
ACTION_CONSTRAINT Emit
CHECK_DEADLOCK FALSE
