SPECIFICATION Spec
INVARIANT Parseval
CHECK_DEADLOCK FALSE
