---- MODULE LoaderProto ----
(* Design probe (not framework): a BatchLoader as a sequence of rows [uid, img, key];
   derivations as actions; P-layer = "task i is row i"; I-layer = what
   BatchLoader.construct_loading_tasks does (group by image id in first-appearance
   order, concatenate).  Every explored transition is emitted as JSON for replay. *)
EXTENDS Integers, Sequences, FiniteSets, TLC, Json
CONSTANTS MaxDepth
VARIABLES rows, depth, last
vars == <<rows, depth, last>>

Row(u, i, k) == [uid |-> u, img |-> i, key |-> k]
\* initial registries: image 0 with 1..2 molecules, image 1 with 1..2 molecules, keys in 0..2
Inits == { <<Row(1,0,a), Row(2,0,b), Row(3,1,c), Row(4,1,d)>> : a \in 0..2, b \in 0..2, c \in 0..2, d \in 0..2 }
     \cup { <<Row(1,0,a), Row(3,1,c), Row(4,1,d)>> : a \in 0..2, c \in 0..2, d \in 0..2 }

Sel(s, P(_)) == SelectSeq(s, P)
SortByKey(s) == Sel(s, LAMBDA r : r.key = 0) \o Sel(s, LAMBDA r : r.key = 1) \o Sel(s, LAMBDA r : r.key = 2)
Min2(a, b) == IF a < b THEN a ELSE b
Max2(a, b) == IF a > b THEN a ELSE b

\* ---- P layer: the i-th loaded subtomogram comes from row i
LoadP(s) == [i \in 1..Len(s) |-> <<s[i].img, s[i].uid>>]
\* ---- I layer: group by image id (first appearance), concatenate
ImgOrder(s) == IF Len(s) = 0 THEN <<>>
               ELSE IF \A i \in 1..Len(s) : s[i].img = s[1].img THEN <<s[1].img>>
               ELSE <<s[1].img, (CHOOSE j \in {0,1} : j # s[1].img)>>
LoadI(s) == LET o == ImgOrder(s)
                g(j) == Sel(s, LAMBDA r : r.img = j)
                cat == IF Len(o) = 0 THEN <<>> ELSE IF Len(o) = 1 THEN g(o[1]) ELSE g(o[1]) \o g(o[2])
            IN [i \in 1..Len(cat) |-> <<cat[i].img, cat[i].uid>>]

Init == rows \in Inits /\ depth = 0 /\ last = [op |-> "init"]
Step(op) == depth < MaxDepth /\ depth' = depth + 1 /\ last' = op
OpFilter(v) == rows' = Sel(rows, LAMBDA r : r.key >= v) /\ Step([op |-> "filter_ge", v |-> v])
OpHead(n)   == rows' = SubSeq(rows, 1, Min2(n, Len(rows))) /\ Step([op |-> "head", n |-> n])
OpTail(n)   == rows' = SubSeq(rows, Max2(Len(rows) - n + 1, 1), Len(rows)) /\ Step([op |-> "tail", n |-> n])
OpSort      == rows' = SortByKey(rows) /\ Step([op |-> "sort"])     \* stable; ties checked as "any consistent order" by the replayer
Next == \/ \E v \in 1..2 : OpFilter(v)
        \/ \E n \in 1..3 : OpHead(n) \/ OpTail(n)
        \/ OpSort
Spec == Init /\ [][Next]_vars
View == <<rows, depth>>

Interleaved(s) == \E i, j, k \in 1..Len(s) : i < j /\ j < k /\ s[i].img = s[k].img /\ s[j].img # s[i].img
RefinesP == LoadI(rows) = LoadP(rows)          \* expected to FAIL on the unchanged design: candidate for confirmation
DefectIffInterleaved == (LoadI(rows) # LoadP(rows)) <=> Interleaved(rows)   \* characterises the candidate exactly
Emit == PrintT(ToJson([pre |-> rows, op |-> last', post |-> rows', loadP |-> LoadP(rows'), loadI |-> LoadI(rows')]))
====
