CONSTANT MaxN = 4
SPECIFICATION Spec
INVARIANT Emit
CHECK_DEADLOCK FALSE
