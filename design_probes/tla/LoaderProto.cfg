CONSTANTS MaxDepth = 3
SPECIFICATION Spec
VIEW View
INVARIANT DefectIffInterleaved
ACTION_CONSTRAINT Emit
CHECK_DEADLOCK FALSE
