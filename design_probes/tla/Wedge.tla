---- MODULE Wedge ----
EXTENDS Integers, Sequences, FiniteSets, TLC, Json, IOUtils
CONSTANT MaxN
VARIABLES cfg, mask, done

\* FFT-ordered signed frequency index for position i on an axis of length n
Freq(i, n) == IF i <= (n - 1) \div 2 THEN i ELSE i - n

\* rotations: signed permutation matrices as <<perm, sign>>: row r has sign[r] at column perm[r]
Perms == {<<1,2,3>>,<<1,3,2>>,<<2,1,3>>,<<2,3,1>>,<<3,1,2>>,<<3,2,1>>}
Signs == {<<a,b,c>> : a \in {-1,1}, b \in {-1,1}, c \in {-1,1}}
ParitySign(p) == IF p \in {<<1,2,3>>,<<2,3,1>>,<<3,1,2>>} THEN 1 ELSE -1
Rots == {r \in Perms \X Signs : ParitySign(r[1]) * r[2][1] * r[2][2] * r[2][3] = 1}
Apply(r, v) == [i \in 1..3 |-> r[2][i] * v[r[1][i]]]

Dot(a,b) == a[1]*b[1] + a[2]*b[2] + a[3]*b[3]
Sgn(x) == IF x > 0 THEN 1 ELSE IF x < 0 THEN -1 ELSE 0

\* tilt planes with integer normals: tan(theta) = t[1]/t[2]; normal n = (cos(pi - th), 0, sin(pi - th)) ~ (-t2, 0, t1)
Tans == {<<-1,1>>, <<-1,2>>, <<1,1>>, <<2,1>>, <<1,2>>}
Normal(t) == <<-t[2], 0, t[1]>>

Shapes == {<<a,b,c>> : a \in 1..MaxN, b \in 1..MaxN, c \in 1..MaxN}
\* physical frequency k_i / N_i ; scale by lcm -> multiply by product of others
Phys(k, s) == <<k[1]*s[2]*s[3], k[2]*s[1]*s[3], k[3]*s[1]*s[2]>>

Bit(s, r, t0, t1, idx) ==
  LET k == <<Freq(idx[1]-1, s[1]), Freq(idx[2]-1, s[2]), Freq(idx[3]-1, s[3])>>
      w == Apply(r, Phys(k, s))
      d0 == Dot(w, Normal(t0))
      d1 == Dot(w, Normal(t1))
  IN IF Sgn(d0)*Sgn(d1) < 0 THEN 1 ELSE IF Sgn(d0)*Sgn(d1) = 0 THEN 2 ELSE 0

Init == /\ cfg \in {c \in [shape: Shapes, rot: Rots, t0: Tans, t1: Tans] : c.t0[1]*c.t1[2] < c.t1[1]*c.t0[2]}
        /\ mask = <<>> /\ done = FALSE
Compute == /\ ~done
           /\ mask' = [i \in 1..cfg.shape[1] |-> [j \in 1..cfg.shape[2] |-> [k \in 1..cfg.shape[3] |-> Bit(cfg.shape, cfg.rot, cfg.t0, cfg.t1, <<i,j,k>>)]]]
           /\ done' = TRUE /\ UNCHANGED cfg
Next == Compute
Spec == Init /\ [][Next]_<<cfg,mask,done>>
Neg(i, n) == ((n - (i-1)) % n) + 1
IsNyq(i, n) == n % 2 = 0 /\ i - 1 = n \div 2
Symmetric == done => \A i \in 1..cfg.shape[1], j \in 1..cfg.shape[2], k \in 1..cfg.shape[3] :
    (IsNyq(i,cfg.shape[1]) \/ IsNyq(j,cfg.shape[2]) \/ IsNyq(k,cfg.shape[3])) \/
    mask[i][j][k] = mask[Neg(i,cfg.shape[1])][Neg(j,cfg.shape[2])][Neg(k,cfg.shape[3])]
DCKept == done => mask[1][1][1] # 0
Emit == done => PrintT(ToJson([cfg |-> cfg, mask |-> mask]))
====
