---- MODULE Tbl ----
EXTENDS Integers, Sequences, FiniteSets, TLC, Json, SequencesExt
CONSTANTS MaxRows, MaxDepth
VARIABLES tbl, depth, last
vars == <<tbl, depth, last>>
\* a row = [uid, k] ; uid = provenance tag, k = sort/filter key feature
Rows == [uid: 1..MaxRows, k: 0..1]
Init == /\ tbl \in {s \in UNION {[1..n -> Rows] : n \in 0..MaxRows} : \A i \in DOMAIN s : s[i].uid = i}
        /\ depth = 0 /\ last = [op |-> "init"]
Step(op) == depth < MaxDepth /\ depth' = depth + 1 /\ last' = op
OpHead(n) == /\ tbl' = SubSeq(tbl, 1, IF n < Len(tbl) THEN n ELSE Len(tbl)) /\ Step([op |-> "head", n |-> n])
OpTail(n) == /\ tbl' = SubSeq(tbl, (IF Len(tbl) - n + 1 > 1 THEN Len(tbl) - n + 1 ELSE 1), Len(tbl)) /\ Step([op |-> "tail", n |-> n])
Filter(v) == /\ tbl' = SelectSeq(tbl, LAMBDA r : r.k = v) /\ Step([op |-> "filter", v |-> v])
StableSortBy == \* stable ascending by k
   LET zeros == SelectSeq(tbl, LAMBDA r : r.k = 0) ones == SelectSeq(tbl, LAMBDA r : r.k = 1) IN zeros \o ones
Sort == /\ tbl' = StableSortBy /\ Step([op |-> "sort"])
Subset(idx) == /\ tbl' = [i \in 1..Len(idx) |-> tbl[idx[i]]] /\ Step([op |-> "subset", idx |-> idx])
Idx == UNION {[1..n -> 1..Len(tbl)] : n \in 0..2}
Next == \/ \E n \in 0..MaxRows : OpHead(n) \/ OpTail(n)
        \/ \E v \in 0..1 : Filter(v)
        \/ Sort
        \/ \E idx \in Idx : Subset(idx)
Spec == Init /\ [][Next]_vars
View == <<tbl, depth>>
Emit == PrintT(ToJson([pre |-> tbl, op |-> last', post |-> tbl']))
RowsIntact == \A i \in DOMAIN tbl : tbl[i] \in Rows
====
