"""C15 - binned loaders look at the same physical region.

spec/Binning.tla: block sums, dropped remainder, scale and position update; the BinIdentity
(axis-wise algebraic identity) is checked by TLC on every case; for every case TLC emits the
block of original voxels each binned sub-volume voxel must sum.  Replay: real
SubtomogramLoader/BatchLoader.binning(b) on integer tomograms (numpy/dask, compute flag).
"""
from __future__ import annotations

import json

import numpy as np

from harness import engine

PROP = "C15"
LEVEL = "model_checking"


def _tomo(n, imgid):
    z, y, x = np.indices(tuple(n))
    return ((z * 7 + y * 3 + x * 5) % 11 + imgid).astype(np.float32)


def replay(case) -> dict:
    import dask.array as da
    from scipy.spatial.transform import Rotation
    from acryo import BatchLoader, Molecules, SubtomogramLoader

    cfg = case["cfg"]
    n, b, s = cfg["n"], cfg["b"], tuple(cfg["s"])
    scale = (1.0, 0.5, 2.0)[case["_h"] % 3]
    desc = dict(b=b, s=list(s), kind=cfg["kind"], lazy=cfg["lazy"], mix=cfg.get("mix", False), compute=cfg["compute"], order=cfg["order"], scale=scale)
    failures = []
    pos_px = np.array(case["orig_p2"], dtype=np.float64) / 2.0
    rot = Rotation.from_matrix(np.array([cfg["R"]], dtype=float))
    mole = Molecules((pos_px * scale)[None, :], rot)
    imgs = [_tomo(n, 0), _tomo(n, 1)]
    # voxel type of the tomogram: integer tomograms (MRC modes 0 and 1) with values large enough for a block sum to leave the type's range
    vox = ("float32", "int16", "float32", "int8")[case.get("_v", 0) % 4]
    if vox == "int16":
        imgs = [(im * 2500).astype(np.int16) for im in imgs]
    elif vox == "int8":
        imgs = [(im * 10).astype(np.int8) for im in imgs]
    desc["vox"] = vox
    corner = bool(cfg.get("corner", False))
    desc["corner_safe"] = corner

    def wrap(a):
        return da.from_array(a, chunks=(5, 6, 7)) if cfg["lazy"] else a

    if cfg["kind"] == "single":
        parent = SubtomogramLoader(wrap(imgs[0]), mole, order=cfg["order"], scale=scale, output_shape=s, corner_safe=corner)
        which = 0
    else:
        parent = BatchLoader(order=cfg["order"], scale=scale, output_shape=s, corner_safe=corner)
        parent.add_tomogram(imgs[0] if cfg.get("mix") else wrap(imgs[0]), Molecules(np.array([[1.0, 1.0, 1.0]]) * scale))
        parent.add_tomogram(wrap(imgs[1]), mole)
        which = 1
    pos_before = np.array(parent.molecules.pos, copy=True)
    # history: the parent (or a sibling derived from it) may have been USED before it is binned; the binned loader must look at the
    # binned image all the same, and the parent at its own image afterwards
    use = ("none", "parent", "sibling", "parent")[case.get("_u", 0) % 4]
    desc["used_before"] = use
    idx_p = 0 if cfg["kind"] == "single" else 1
    first = None
    if use != "none" and cfg["order"] != 0 or use != "none" and cfg["R"] == [[1, 0, 0], [0, 1, 0], [0, 0, 1]]:
        user = parent if use == "parent" else parent.copy()
        first = np.asarray(engine.api(user.load, idx_p, tuple(min(int(x) * b, 3 * b) for x in s)), dtype=np.float64)
    binned = engine.api(parent.binning, b, compute=cfg["compute"])
    # bookkeeping claims
    if abs(binned.scale - b * scale) > 1e-9:
        failures.append(dict(desc, clause="Scale", observed=binned.scale, expected=b * scale))
    want_pos = np.array(case["binned_p2_orig_px"], dtype=np.float64) / 2.0 * scale
    got_pos = np.asarray(binned.molecules.pos[-1], dtype=np.float64)
    if np.max(np.abs(got_pos - want_pos)) > 1e-4:
        failures.append(dict(desc, clause="PositionUpdate", observed=got_pos.tolist(), expected=want_pos.tolist()))
    if not np.array_equal(np.asarray(parent.molecules.pos), pos_before) or abs(parent.scale - scale) > 0:
        failures.append(dict(desc, clause="ParentMutated"))
    bimg = binned.image if cfg["kind"] == "single" else binned.images[which]
    if list(bimg.shape) != list(case["binned_shape"]):
        failures.append(dict(desc, clause="BinnedShape", observed=list(bimg.shape), expected=case["binned_shape"]))
    if cfg["kind"] == "batch":
        for key, im in binned.images.items():
            if not hasattr(im, "shape") or list(im.shape) != list(case["binned_shape"]):
                failures.append(dict(desc, clause="BinnedImageCorrupt", image=str(key), observed=repr(im)[:60]))
    # every image of the binned loader is the block sum of ITS OWN original (integer-valued tomograms: exact)
    def blocksum(a):
        m = [d // b * b for d in a.shape]
        a = a[: m[0], : m[1], : m[2]].astype(np.float64)
        return a.reshape(m[0] // b, b, m[1] // b, b, m[2] // b, b).sum(axis=(1, 3, 5))

    for key, im in ([(0, binned.image)] if cfg["kind"] == "single" else list(binned.images.items())):
        if hasattr(im, "shape") and list(im.shape) == list(case["binned_shape"]):
            got_im = np.asarray(im, dtype=np.float64)
            want_im = blocksum(imgs[int(key)])
            if got_im.shape != want_im.shape or (want_im.size and np.max(np.abs(got_im - want_im)) > 1e-3 * max(1.0, float(np.abs(want_im).max()))):
                failures.append(dict(desc, clause="BinnedImageIsBlockSum", image=str(key)))
    # binning composes (Binning.tla, ChainLaw): binning(b1).binning(b2) is binning(b1 b2) - image, scale and positions - and
    # binning one loader never changes what ANOTHER loader derived from the same parent returns afterwards
    def images_of(ld):
        return [(0, ld.image)] if cfg["kind"] == "single" else list(ld.images.items())

    for b1, b2 in ((2, 2), (2, 3), (3, 2)):
        if b != b1 * b2:
            continue
        chain = engine.api(lambda: parent.binning(b1, compute=cfg["compute"]).binning(b2, compute=cfg["compute"]))
        if abs(chain.scale - binned.scale) > 1e-9 or np.max(np.abs(np.asarray(chain.molecules.pos) - np.asarray(binned.molecules.pos))) > 1e-4:
            failures.append(dict(desc, clause="BinningComposes", what="scale_or_positions", chain=[b1, b2]))
        for (k1, im1), (k2, im2) in zip(images_of(chain), images_of(binned)):
            a1, a2 = np.asarray(im1, dtype=np.float64), np.asarray(im2, dtype=np.float64)
            if a1.shape != a2.shape or (a2.size and np.max(np.abs(a1 - a2)) > 1e-3 * max(1.0, float(np.abs(a2).max()))):
                failures.append(dict(desc, clause="BinningComposes", what="image", chain=[b1, b2], image=str(k1)))
        again = engine.api(parent.binning, b, compute=cfg["compute"])      # after the chain: the parent bins as before
        for (k1, im1), (k2, im2) in zip(images_of(again), images_of(binned)):
            a1, a2 = np.asarray(im1, dtype=np.float64), np.asarray(im2, dtype=np.float64)
            if a1.shape != a2.shape or (a2.size and np.max(np.abs(a1 - a2)) > 1e-3 * max(1.0, float(np.abs(a2).max()))):
                failures.append(dict(desc, clause="BinningIndependentOfEarlierBinnings", image=str(k1)))
    if cfg["kind"] == "batch" and b > 1:
        # rows keep their order: a batch whose molecules of different tomograms are interleaved (first, second, first)
        m3 = Molecules(np.array([[1.0, 1.0, 1.0], [2.0, 2.0, 2.0], [1.0, 2.0, 1.0]]) * scale)
        inter = BatchLoader(order=cfg["order"], scale=scale, output_shape=s)
        inter.add_tomogram(wrap(imgs[0]), m3.subset([0, 2]))
        inter.add_tomogram(wrap(imgs[1]), m3.subset([1]))
        inter = inter.replace(molecules=inter.molecules.subset([0, 2, 1]))
        ids0 = inter.molecules.features["image-id"].to_list()
        bi = engine.api(inter.binning, b, compute=cfg["compute"])
        tr = (b - 1) / 2 * scale
        if bi.molecules.features["image-id"].to_list() != ids0 or np.max(np.abs(np.asarray(bi.molecules.pos) - (np.asarray(inter.molecules.pos) - tr))) > 1e-4:
            failures.append(dict(desc, clause="RowsKeepTheirOrder", observed=bi.molecules.features["image-id"].to_list(), expected=ids0))
    if failures:
        return dict(failures=failures)
    idx = 0 if cfg["kind"] == "single" else 1
    sub = np.asarray(engine.api(binned.load, idx), dtype=np.float64)
    if sub.shape != s or not np.all(np.isfinite(sub)):
        failures.append(dict(desc, clause="ShapeOrFinite", observed=list(sub.shape)))
        return dict(failures=failures)
    src = imgs[which].astype(np.float64)
    got = sub.ravel()
    nx = 0
    for i, blk in enumerate(case["expect"]):
        if not blk:
            continue
        nx += 1
        want = src[blk[0][0] : blk[0][1] + 1, blk[1][0] : blk[1][1] + 1, blk[2][0] : blk[2][1] + 1].sum()
        if abs(got[i] - want) > 1e-3 * max(1.0, abs(want)):
            failures.append(dict(desc, clause="BlockSum", voxel=i, observed=float(got[i]), expected=float(want)))
            break
    if first is not None and not failures:
        again = np.asarray(engine.api(parent.load, idx_p, tuple(min(int(x) * b, 3 * b) for x in s)), dtype=np.float64)
        if again.shape != first.shape or not np.allclose(again, first, atol=1e-4 * max(1.0, float(np.abs(first).max())), equal_nan=True):
            failures.append(dict(desc, clause="ParentLoadsAsBefore"))
    return dict(failures=failures, classes={"exact_voxels": nx})


def run(rep: engine.Report, tier: str, seed: int):
    mc = rep.add_tlc(engine.tlc("MC_C15", "MC_C15", workers=1))
    cases = mc.emitted
    if not cases:
        raise engine.MachineryError("MC_C15 emitted nothing")
    for i, c in enumerate(cases):
        c["_h"] = (i * 31 + seed) % 3
        c["_v"] = (i * 17 + seed) % 4
        c["_u"] = (i * 13 + seed) % 4
    budget = 1500 if tier == "quick" else len(cases)
    sel = engine.stratified_sample(cases, lambda c: (c["cfg"]["b"], tuple(c["cfg"]["s"]), c["cfg"]["kind"], c["cfg"]["lazy"], c["cfg"]["mix"], c["cfg"]["compute"]), budget, seed)
    have = {json.dumps(c["cfg"], sort_keys=True) for c in sel}
    sel += [c for c in cases if c["cfg"].get("corner") and json.dumps(c["cfg"], sort_keys=True) not in have]   # few: always replayed
    rep.exhaustive = len(sel) == len(cases)
    results = engine.parallel_replay("harness.props.c15", "replay", sel)
    engine.collect(rep, sel, results, key=lambda c: c["cfg"])
    rep.traces_validated = rep.evaluations
    rep.samples = [dict(cfg=c["cfg"], binned_shape=c["binned_shape"], expect_head=c["expect"][:2]) for c in sel[:3]]
    rep.rule = (
        "TLC enumerates image shapes {(12,13,17),(13,12,14)} x b in 1..6 x 5 box shapes (odd/even/non-cubic) x 3 binned-grid "
        "positions (incl. one voxel over the edge) x {identity, 2 Rot24 for the cubic box} x orders x single/batch x "
        "numpy/dask x compute, plus corner-safe loaders with elongated boxes (1,1,5) under quarter turns (order 1, b 1-2); tomogram voxel "
        "types float32 / int16 / int8 with block sums beyond the integer type's range; checks the BinIdentity and emits the exact block each voxel sums; "
        f"{len(cases)} cases, {len(sel)} replayed"
    )


def replay_file(path: str) -> int:
    v = json.loads(open(path).read())
    r = replay(v["case"])
    print(json.dumps(r, indent=1, default=str))
    return 1 if r["failures"] else 0


def selftest() -> int:
    mc = engine.tlc("MC_C15", "MC_C15", workers=1)
    case = next(c for c in mc.emitted if c["cfg"]["b"] == 2 and c["cfg"]["s"] == [2, 2, 2] and c["cfg"]["kind"] == "single")
    case["_h"] = 0
    good = replay(case)
    bad = json.loads(json.dumps(case))
    bad["expect"][0][2] = [bad["expect"][0][2][0] + 1, bad["expect"][0][2][1] + 1]
    r = replay(bad)
    ok = not good["failures"] and bool(r["failures"])
    print("selftest C15:", "ok" if ok else "FAILED")
    return 0 if ok else 2
