"""C18 - PCA classification matches exact PCA and labels stay attached to their molecules.

spec/Pca.tla: block-orthogonal integer designs whose singular values, components and projections are
explicit integers (sigma_j^2 = |B_j| sum_i A_ij^2, ...), checked by TLC (zero mean, orthogonality,
distinctness, every row partition is a legal chunking); MC_C18.tla enumerates designs x boxes (small and
> 500 voxels) x n_components x mask x row/voxel chunkings and emits the exact expectations.  Replay:
PcaClassifier on dask stacks with those chunkings; loader.classify on planted two-class tomograms.
"""
from __future__ import annotations

import json

import numpy as np

from harness import engine

PROP = "C18"
LEVEL = "exploration"


def _stack(case):
    cfg = case["cfg"]
    d = cfg["design"]
    A = np.array(d["A"], dtype=np.float64)
    box = tuple(cfg["box"])
    V = int(np.prod(box))
    n = A.shape[0]
    perm = np.random.default_rng(V).permutation(V)
    blocks = []
    pos = 0
    for s in d["sizes"]:
        blocks.append(perm[pos : pos + s])
        pos += s
    X = np.zeros((n, V), dtype=np.float64)
    for j, b in enumerate(blocks):
        X[:, b] = A[:, j : j + 1]
    background = np.random.default_rng(1).integers(0, 5, size=V).astype(np.float64)
    X = X + background[None, :]
    mask = None
    if cfg["mask"]:
        m = np.zeros(V, dtype=np.float32)
        m[perm[:pos]] = 1.0
        extra = perm[pos : pos + max(1, (V - pos) // 3)]
        m[extra] = 1.0          # voxels inside the mask that carry only the constant background
        if cfg.get("soft"):
            # soft mask: the first floor(|B_j|/2) voxels of every block (and every other background voxel) weigh 1/2
            for b in blocks:
                m[b[: len(b) // 2]] = 0.5
            m[extra[::2]] = 0.5
        junk = np.setdiff1d(np.arange(V), np.flatnonzero(m))
        X[:, junk] += np.random.default_rng(7).normal(size=(n, len(junk))) * 10  # must be ignored
        mask = m.reshape(box)
    weights = [np.ones(len(b)) if mask is None else mask.ravel()[b].astype(np.float64) for b in blocks]
    return X.reshape((n,) + box).astype(np.float32), blocks, mask, weights


def replay_noisy(case) -> dict:
    """Full-rank noisy stacks: no exact oracle; the result must not depend on the chunking or on the run."""
    import dask.array as da
    from acryo.classification import PcaClassifier

    rng = np.random.default_rng(case["seed"])
    n, box = case["n"], tuple(case["box"])
    V = int(np.prod(box))
    basis = rng.normal(size=(3, V))
    coef = rng.normal(size=(n, 3)) * np.array([6.0, 3.5, 2.0])
    X = (coef @ basis + 3.0 * rng.normal(size=(n, V))).astype(np.float32).reshape((n,) + box)
    desc = dict(part="noisy", n=n, voxels=V, large=max(n, V) > 500)
    fails = []

    def fit(rowchunk, voxchunk=None, ncomp=2):
        clf = PcaClassifier(da.from_array(X, chunks=(rowchunk,) + (voxchunk or box)), None, n_components=ncomp, n_clusters=2, seed=0)
        clf.run()
        return np.abs(np.asarray(clf.get_transform(), dtype=np.float64)), np.asarray(clf.pca.singular_values_, dtype=np.float64)

    (t1, s1), exc = engine.api_try(fit, n)
    if exc is not None:
        return dict(failures=[dict(desc, clause="Raised", error=f"{exc.kind}: {exc.msg[:80]}")])
    t2, s2 = fit(n)
    t3, s3 = fit(max(1, n // 3))
    scale = float(np.abs(t1).max())
    if not np.allclose(t1, t2, atol=1e-4 * scale):
        fails.append(dict(desc, clause="RunToRun", maxdiff=float(np.abs(t1 - t2).max() / scale)))
    if not np.allclose(t1, t3, atol=1e-4 * scale):
        fails.append(dict(desc, clause="ChunkingInvariant", maxdiff=float(np.abs(t1 - t3).max() / scale)))
    if not (np.allclose(s1, s2, rtol=1e-4) and np.allclose(s1, s3, rtol=1e-4)):
        fails.append(dict(desc, clause="SingularValuesInvariant"))
    if max(n, V) <= 500:
        # exact regime: cutting the voxels into chunks must not change anything either, also for components past the
        # spectral gap (singular values only there: nearly degenerate directions are ill-conditioned)
        vc = tuple(max(1, (b + 1) // 2) for b in box)
        t4, s4 = fit(max(1, n // 3), vc)
        if not np.allclose(t1, t4, atol=1e-4 * scale):
            fails.append(dict(desc, clause="VoxelChunkingInvariant", maxdiff=float(np.abs(t1 - t4).max() / scale)))
        if n > 5:
            _, s5 = fit(n, None, 4)
            _, s6 = fit(max(1, n // 3), vc, 4)
            if not np.allclose(s5, s6, rtol=1e-4):
                fails.append(dict(desc, clause="SingularValuesVoxelChunking", observed=s6.tolist(), expected=s5.tolist()))
            if not np.allclose(s5[:2], s1, rtol=1e-4):
                fails.append(dict(desc, clause="LeadingValuesIndependentOfNComponents"))
    return dict(failures=fails)


def replay_groups(case) -> dict:
    """Clearly separated groups of VERY unequal size (one large cloud, two handfuls of outliers) get distinct clusters for every seed;
    projecting and predicting images given as a numpy array neither changes them nor depends on earlier calls (soft mask)."""
    import dask.array as da
    from acryo.classification import PcaClassifier

    rng = np.random.default_rng(case["seed"])
    box = (5, 5, 5)
    V = 125
    big, small = case["big"], 4
    base = rng.normal(size=V)
    d1, d2 = rng.normal(size=V), rng.normal(size=V)
    # the two handfuls lie far from the cloud (45) and nearer to each other (13), all far beyond every group's own radius (< 3.5)
    X = np.concatenate([base + 0.3 * rng.normal(size=(big, V)), base + 4.0 * d1 + 0.6 * d2 + 0.1 * rng.normal(size=(small, V)),
                        base + 4.0 * d1 - 0.6 * d2 + 0.1 * rng.normal(size=(small, V))])
    truth = [0] * big + [1] * small + [2] * small
    perm = rng.permutation(len(truth))
    X = X[perm].astype(np.float32).reshape((-1,) + box)
    truth = [truth[i] for i in perm]
    zz, yy, xx = np.indices(box)
    soft = np.clip(1.2 - np.sqrt((zz - 2) ** 2 + (yy - 2) ** 2 + (xx - 2) ** 2) / 3.0, 0.2, 1.0).astype(np.float32)
    desc = dict(part="groups", big=big, seed=case["seed"], clf_seed=case["clf_seed"])
    fails = []
    clf = PcaClassifier(da.from_array(X, chunks=(64,) + box), soft, n_components=3, n_clusters=3, seed=case["clf_seed"])
    engine.api(clf.run)
    labels = [int(x) for x in clf.labels]
    groups = {}
    for t, l in zip(truth, labels):
        groups.setdefault(t, set()).add(l)
    if any(len(v) != 1 for v in groups.values()) or len({next(iter(v)) for v in groups.values()}) != 3:
        fails.append(dict(desc, clause="SeparatedGroupsGetDistinctClusters", sizes=[labels.count(k) for k in range(3)]))
    Xn = np.array(X, copy=True)
    ref = np.asarray(clf.get_transform(), dtype=np.float64)
    t1 = np.asarray(engine.api(clf.transform, Xn), dtype=np.float64)
    t2 = np.asarray(engine.api(clf.transform, Xn), dtype=np.float64)
    p1 = [int(x) for x in engine.api(clf.predict, Xn)]
    sc = float(np.abs(ref).max())
    if not np.array_equal(Xn, X):
        fails.append(dict(desc, clause="InputImagesChanged"))
    if not (np.allclose(t1, ref, atol=1e-4 * sc) and np.allclose(t2, ref, atol=1e-4 * sc)):
        fails.append(dict(desc, clause="TransformOfTheStackIsGetTransform", first=float(np.abs(t1 - ref).max() / sc), second=float(np.abs(t2 - ref).max() / sc)))
    if p1 != labels:
        fails.append(dict(desc, clause="PredictOfTheStackGivesItsLabels"))
    return dict(failures=fails)


def replay(case) -> dict:
    if case.get("kind") == "groups":
        return replay_groups(case)
    if case.get("kind") == "classify":
        return replay_classify(case)
    if case.get("kind") == "noisy":
        return replay_noisy(case)
    import dask.array as da
    from acryo.classification import PcaClassifier

    cfg = case["cfg"]
    stack, blocks, mask, weights = _stack(case)
    n = stack.shape[0]
    box = stack.shape[1:]
    V = int(np.prod(box))
    chunks = (tuple(case["rowchunks"]),) + ((box[0],) if not cfg["voxchunk"] else ((box[0] + 1) // 2, box[0] // 2),) + tuple((b,) for b in box[1:])
    if case.get("_int"):
        # an integer-typed stack (the designs are integer valued; only the junk outside the mask is rounded)
        stack = np.round(stack).astype(np.int16)
    dstack = da.from_array(stack, chunks=chunks)
    ncomp = cfg["ncomp"]
    desc = dict(part="pca", n=n, voxels=V, large=V > 500, ncomp=ncomp, J=cfg["design"]["J"], truncated=ncomp < cfg["design"]["J"], mask=cfg["mask"], soft=cfg.get("soft", False),
                rowchunks=cfg["rowchunks"], voxchunk=cfg["voxchunk"], int_stack=bool(case.get("_int")))
    fails = []

    def fit():
        clf = PcaClassifier(dstack, mask, n_components=ncomp, n_clusters=2, seed=0)
        clf.run()
        return clf

    clf, exc = engine.api_try(fit)
    if exc is not None:
        return dict(failures=[dict(desc, clause="Raised", error=f"{exc.kind}: {exc.msg[:80]}")])
    order = sorted(range(cfg["design"]["J"]), key=lambda j: case["rank"][j])
    S2 = np.asarray(clf.pca.singular_values_, dtype=np.float64) ** 2
    T = np.asarray(clf.get_transform(), dtype=np.float64)
    comps = np.asarray(clf.pca.components_, dtype=np.float64)
    for r in range(ncomp):
        j = order[r]
        want = float(case["sigma2x4"][j]) / 4
        if abs(S2[r] - want) > 1e-3 * want:
            fails.append(dict(desc, clause="SingularValues", comp=r, observed=float(S2[r]), expected=want))
            continue
        p2 = np.array([case["proj2x4"][i][j] for i in range(n)], dtype=np.float64) / 4
        if abs(float(np.sum(weights[j] ** 2)) * 4 - case["w4"][j]) > 1e-9:
            raise RuntimeError("harness mask does not realise the block weights of the specification")
        if np.max(np.abs(T[:, r] ** 2 - p2)) > 1e-3 * max(1.0, p2.max()):
            fails.append(dict(desc, clause="Projections", comp=r))
        c = comps[r]
        supp = np.zeros(V)
        supp[blocks[j]] = weights[j] / np.sqrt(np.sum(weights[j] ** 2))
        if min(np.max(np.abs(c - supp)), np.max(np.abs(c + supp))) > 1e-3:
            fails.append(dict(desc, clause="Components", comp=r, maxdev=float(min(np.max(np.abs(c - supp)), np.max(np.abs(c + supp))))))
    # projections of a SELECTION of images come back for exactly those images, in the requested order
    for sel in (list(range(n - 1, -1, -1)), [2, 0, 2], [1]):
        Tsel = np.asarray(engine.api(clf.get_transform, sel), dtype=np.float64)
        if Tsel.shape != (len(sel), T.shape[1]) or not np.allclose(Tsel, T[sel], atol=1e-5 * max(1.0, float(np.abs(T).max()))):
            fails.append(dict(desc, clause="TransformOfSelection", selection=sel[:4]))
            break
    # run-to-run reproducibility
    clf2, exc2 = engine.api_try(fit)
    if exc2 is None and not np.allclose(np.abs(np.asarray(clf2.get_transform())), np.abs(T), atol=1e-4 * max(1.0, float(np.abs(T).max()))):
        fails.append(dict(desc, clause="RunToRun"))
    if len(clf.labels) != n:
        fails.append(dict(desc, clause="LabelCount"))
    return dict(failures=fails)


def replay_classify(case) -> dict:
    import polars as pl
    from scipy.spatial.transform import Rotation
    from acryo import BatchLoader, Molecules, SubtomogramLoader

    rng = np.random.default_rng(case["seed"])
    n = case["n"]
    box = (9, 9, 9)
    kinds = [i % 2 for i in range(n)]
    rng.shuffle(kinds)
    zz, yy, xx = np.indices(box).astype(np.float32)
    base = np.exp(-((zz - 4) ** 2 + (yy - 4) ** 2 + (xx - 4) ** 2) / 6.0)
    extra = 1.5 * np.exp(-((zz - 4) ** 2 + (yy - 6.5) ** 2 + (xx - 2) ** 2) / 2.0)
    tomo = (0.02 * rng.normal(size=(24, 24, 14 * n + 10))).astype(np.float32)
    pos = np.array([[12, 12, 10 + 14 * i] for i in range(n)], dtype=np.float32)
    # orientations: identity, or quarter turns mixed with identities INDEPENDENTLY of the structural class (the density is planted in
    # each molecule's own frame, so the loaded sub-volumes of a class are the same whatever the orientation)
    from harness.lattice import apply_rot24

    Q = np.array([[1, 0, 0], [0, 0, -1], [0, 1, 0]])
    mixed = case.get("orient") == "mixed"
    mats = [Q if (mixed and (i // 2) % 2) else np.eye(3, dtype=int) for i in range(n)]
    for i, p in enumerate(pos):
        sl = tuple(slice(int(c) - 4, int(c) + 5) for c in p)
        tomo[sl] += apply_rot24(base + (extra if kinds[i] else 0), mats[i], (0, 0, 0))
    feats = pl.DataFrame({"tag": list(range(100, 100 + n)), "name": [f"m{i}" for i in range(n)]})
    mole = Molecules(pos, Rotation.from_matrix(np.array(mats, dtype=float)), features=feats)
    if case["loader"] == "single":
        loader = SubtomogramLoader(tomo, mole, order=1, output_shape=box)
    else:
        loader = BatchLoader(order=1, output_shape=box)
        half = n // 2
        loader.add_tomogram(tomo, mole.subset(slice(0, half)))
        loader.add_tomogram(tomo.copy(), mole.subset(slice(half, n)))
    desc = dict(part="classify", n=n, loader=case["loader"], tilt=case.get("tilt"), orient=case.get("orient", "identity"))
    fails = []
    before_pos = np.array(loader.molecules.pos, copy=True)
    before_feat = loader.molecules.features.clone()
    ckw = dict(tilt=tuple(case["tilt"]), cutoff=1.0) if case.get("tilt") else {}
    res, exc = engine.api_try(loader.classify, n_components=2, n_clusters=2, seed=case["seed"], label_name="cls", **ckw)
    if exc is not None:
        return dict(failures=[dict(desc, clause="Raised", error=f"{exc.kind}: {exc.msg[:80]}")])
    out = res.loader.molecules
    f = out.features
    if list(f.columns) != list(before_feat.columns) + ["cls"]:
        fails.append(dict(desc, clause="ExactlyOneLabelColumn", columns=list(f.columns)))
        return dict(failures=fails)
    if not f["cls"].dtype.is_integer():
        fails.append(dict(desc, clause="IntegerLabels", dtype=str(f["cls"].dtype)))
    if not (np.array_equal(np.asarray(out.pos), before_pos) and f.drop("cls").equals(before_feat)):
        fails.append(dict(desc, clause="NothingElseChanged"))
    if not (np.array_equal(np.asarray(loader.molecules.pos), before_pos) and loader.molecules.features.equals(before_feat)):
        fails.append(dict(desc, clause="ParentUnchanged"))
    if case.get("tilt"):
        # the stack that is classified is the wedge-masked difference: image i minus the average, both limited to the region of
        # Fourier space that molecule i's orientation leaves sampled (cutoff 1.0: no low-pass).  Its exact SVD gives the singular values.
        from acryo.tilt import single_axis

        subs = np.stack([np.asarray(loader.load(i), dtype=np.float64) for i in range(n)])
        avg = subs.mean(axis=0)
        tm = single_axis(tuple(case["tilt"]))
        rows = []
        for i in range(n):
            mw = np.asarray(tm.create_mask(loader.molecules.rotator[i], box), dtype=np.float64)
            rows.append(np.fft.ifftn(np.fft.fftn(subs[i] - avg) * mw).real.ravel())
        X = np.stack(rows)
        sv = np.linalg.svd(X - X.mean(axis=0), compute_uv=False)[:2]
        got_sv = np.asarray(res.classifier.pca.singular_values_, dtype=np.float64)[:2]
        if got_sv.shape != sv.shape or np.max(np.abs(got_sv - sv)) > 2e-3 * max(1.0, float(sv[0])):
            fails.append(dict(desc, clause="ClassifiesTheWedgeMaskedDifferences", observed=[round(float(x), 4) for x in got_sv], expected=[round(float(x), 4) for x in sv]))
    labels = f["cls"].to_list()
    groups = {}
    for k, l in zip(kinds, labels):
        groups.setdefault(k, set()).add(l)
    if any(len(v) != 1 for v in groups.values()) or len({next(iter(v)) for v in groups.values()}) != len(groups):
        fails.append(dict(desc, clause="SeparatedGroupsGetDistinctClusters", kinds=kinds, labels=labels))
    return dict(failures=fails)


def run(rep: engine.Report, tier: str, seed: int):
    mc = rep.add_tlc(engine.tlc("MC_C18", "MC_C18", workers=1))
    cases = mc.emitted
    if not cases:
        raise engine.MachineryError("MC_C18 emitted nothing")
    budget = 500 if tier == "quick" else len(cases)
    sel = engine.stratified_sample(cases, lambda c: (tuple(c["cfg"]["box"]), c["cfg"]["ncomp"], c["cfg"]["mask"], c["cfg"]["soft"], c["cfg"]["rowchunks"], c["cfg"]["voxchunk"], len(c["cfg"]["design"]["A"])), budget, seed)
    for i, c in enumerate(sel):
        c["_int"] = (i + seed) % 2
    cls = [dict(kind="classify", n=n, loader=l, seed=seed + i) for i, (n, l) in enumerate((n, l) for n in (6, 9, 12) for l in ("single", "batch"))]
    cls += [dict(kind="classify", n=n, loader=l, seed=seed + 7 + i, tilt=list(t), orient=o)
            for i, (n, l, t, o) in enumerate((n, l, t, o) for n in (8, 12) for l in ("single", "batch") for t in ((-60.0, 60.0), (-40.0, 50.0)) for o in ("identity", "mixed"))]
    noisy = [dict(kind="noisy", n=n, box=list(b), seed=seed * 31 + i) for i, (n, b) in enumerate((n, b) for n in (6, 12, 30, 60) for b in ((4, 4, 4), (6, 7, 8), (7, 8, 9), (10, 10, 10)))]
    grp = [dict(kind="groups", big=b, seed=seed + 11 * i, clf_seed=cs) for i, (b, cs) in enumerate((b, cs) for b in (200, 400) for cs in range(12))]
    allc = sel + cls + noisy + grp
    results = engine.parallel_replay("harness.props.c18", "replay", allc)
    engine.collect(rep, allc, results, key=lambda c: c.get("cfg") or c)
    rep.traces_validated = len(allc)
    rep.samples = [dict(cfg=sel[0]["cfg"], sigma2x4=sel[0]["sigma2x4"]), cls[0]]
    rep.rule = (
        "TLC enumerates block-orthogonal integer designs (4 and 8 images, 3 blocks, 3 weightings x 3 block-size vectors with pairwise "
        "distinct singular values) x boxes of 27, 40 and 729 voxels x n_components {2,3} x mask {none, 0/1, soft with weights 1/2 and 1} x row chunkings {one, one row each, uneven} "
        f"x voxel chunking, with exact sigma^2, squared projections and component supports; {len(cases)} cases, {len(sel)} run through "
        f"PcaClassifier; plus {len(cls)} loader.classify cases on planted two-class tomograms (single and batch loaders; without and with a tilt "
        "range, molecules all in one orientation or in two orientations mixed independently of the class: singular values = exact SVD of the wedge-masked differences)"
    )
    rep.assumptions += ["agreement with an exact SVD on full-rank noisy data is not decided (no exact oracle inside the technique); it is covered "
                        "through the exact low-rank family (incl. truncation n_components < rank), chunking invariance and run-to-run reproducibility"]


def replay_file(path: str) -> int:
    v = json.loads(open(path).read())
    r = replay(v["case"])
    print(json.dumps(r, indent=1, default=str))
    return 1 if r["failures"] else 0


def selftest() -> int:
    mc = engine.tlc("MC_C18", "MC_C18", workers=1)
    case = next(c for c in mc.emitted if c["cfg"]["box"] == [3, 3, 3] and c["cfg"]["ncomp"] == 3 and not c["cfg"]["mask"] and c["cfg"]["rowchunks"] == "one" and not c["cfg"]["voxchunk"])
    good = replay(case)
    bad = json.loads(json.dumps(case))
    bad["sigma2x4"][0] += 20
    r = replay(bad)
    ok = not good["failures"] and bool(r["failures"])
    print("selftest C18:", "ok" if ok else f"FAILED {good}")
    return 0 if ok else 2
