"""C14 - simulated tomograms contain the template at the requested poses.

spec/Simulator.tla: placement of every template voxel in doubled-integer coordinates (template centre
at the molecule position), clipping, exact-paste condition, and the historical even-axis deviation;
MC_C14.tla enumerates template shapes (odd/even/non-cubic), grid-coincident poses (interior, straddling
faces, outside), Rot24 orientations, one or two molecules in one or two components, orders and scales,
and emits for every molecule the exact list of (tomogram voxel, template voxel) contributions.
Replay on TomogramSimulator: exact paste, additivity and order independence, clipping without error,
load-back through SubtomogramLoader, and simulate_2d = z-projection of simulate.
"""
from __future__ import annotations

import json

import numpy as np

from harness import engine

PROP = "C14"
LEVEL = "model_checking"


def _template(shape, seed):
    rng = np.random.default_rng(seed)
    t = rng.integers(1, 7, size=shape).astype(np.float32)
    return t


def _expected(tshape, tmpl, pastes):
    out = np.zeros(int(np.prod(tshape)), dtype=np.float64)
    flat = tmpl.ravel()
    for paste in pastes:
        for lin, n in paste:
            out[lin] += flat[n - 1]
    return out.reshape(tshape)


def replay(case) -> dict:
    from scipy.spatial.transform import Rotation
    from acryo import Molecules, SubtomogramLoader, TomogramSimulator

    cfg = case["cfg"]
    shape = tuple(cfg["shape"])
    tshape = tuple(case["tshape"])
    scale = cfg["s2"] / 2.0
    tmpl = _template(shape, sum(shape))
    R1 = Rotation.from_matrix(np.array([cfg["R"]], dtype=float))
    p1 = np.array(cfg["p"], dtype=float) / 2.0 * scale
    p2 = np.array(case["p_second"], dtype=float) / 2.0 * scale
    p1_0, p2_0 = p1.copy(), p2.copy()
    desc = dict(shape=list(shape), thin=list(tshape) != [10, 11, 12], even=[n % 2 == 0 for n in shape], second=cfg["second"], order=cfg["order"], scale=scale,
                rotated=cfg["R"] != [[1, 0, 0], [0, 1, 0], [0, 0, 1]], p=cfg["p"])
    fails = []
    want = _expected(tshape, tmpl, [case["paste1"]] + ([case["paste2"]] if cfg["second"] != "none" else []))

    # how the simulator gets its settings: the constructor, or replace() on a simulator that was set up (and filled) with OTHER
    # settings - components are kept, providers are evaluated at the scale in force when the simulation runs
    via_replace = (sum(int(x) for x in cfg["p"]) + cfg["order"] + len(cfg["second"])) % 2 == 1
    desc["settings_from"] = "replace" if via_replace else "constructor"

    with_empty = (sum(int(x) for x in cfg["p"]) + 2 * cfg["order"] + len(cfg["second"])) % 4 if cfg["second"] != "same_component" else 0
    with_empty = with_empty if with_empty in (1, 2) else 0
    desc["empty_component"] = with_empty

    def build(order_flip=False, dz=0.0):
        sim = TomogramSimulator(order=cfg["order"], scale=scale) if not via_replace else TomogramSimulator(order=3 if cfg["order"] != 3 else 1, scale=scale * 2.0)
        p1, p2 = p1_0 + np.array([dz, 0.0, 0.0]), p2_0 + np.array([dz, 0.0, 0.0])
        m1 = Molecules(p1[None, :], R1)
        comps = []
        if cfg["second"] == "same_component":
            both = Molecules(np.stack([p1, p2]), Rotation.concatenate([R1, Rotation.identity(1)]))
            if order_flip:
                both = both.subset([1, 0])
            comps = [(both, tmpl)]
        elif cfg["second"] == "other_component":
            from acryo import pipe

            # the second component's density is given as an ImageProvider at the simulator's own scale: the same image
            comps = [(m1, tmpl), (Molecules(p2[None, :]), pipe.from_array(tmpl.copy(), original_scale=scale))]
            if order_flip:
                comps = comps[::-1]
        else:
            comps = [(m1, tmpl)]
        for i, (m, im) in enumerate(comps):
            sim.add_molecules(m, im, name=f"c{i}")
        if with_empty:
            # a component without molecules (what a filter that selects nothing leaves behind) adds nothing
            sim.add_molecules(m1.subset([]) if with_empty == 1 else Molecules(np.zeros((0, 3))), tmpl, name="nothing")
        if via_replace:
            sim = sim.replace(order=cfg["order"], scale=scale)
        return sim

    sim = build()
    tomo = np.asarray(engine.api(sim.simulate, tshape), dtype=np.float64)
    if tomo.shape != tshape or not np.all(np.isfinite(tomo)):
        fails.append(dict(desc, clause="ShapeOrFinite"))
        return dict(failures=fails)
    err = float(np.max(np.abs(tomo - want)))
    if err > 2e-3:
        i = tuple(int(x) for x in np.unravel_index(int(np.argmax(np.abs(tomo - want))), tshape))
        fails.append(dict(desc, clause="ExactPaste", maxerr=round(err, 4), at=list(i), observed=float(tomo[i]), expected=float(want[i])))
    if cfg["order"] == 0 and cfg["second"] == "none" and err <= 2e-3 and min(tshape) >= 9:
        # nearest-neighbour simulation: a molecule a fraction of a pixel off a grid-coincident pose pastes exactly the same voxels
        # (a 7^3 template whose density stays 2 voxels away from its own faces, as the property asks for non-grid poses)
        t7 = np.zeros((7, 7, 7), np.float32)
        t7[2:5, 2:5, 2:5] = (np.arange(27).reshape(3, 3, 3) % 5 + 1).astype(np.float32)
        c7 = np.array([n // 2 for n in tshape], dtype=float)
        want7 = np.zeros(tshape)
        want7[tuple(slice(int(c) - 3, int(c) + 4) for c in c7)] += t7
        for dxyz in ((0.0, 0.0, 0.3), (0.0, -0.2, 0.3), (0.4, 0.0, 0.0)):
            off = TomogramSimulator(order=0, scale=scale) if not via_replace else TomogramSimulator(order=3, scale=scale * 2.0)
            off.add_molecules(Molecules(((c7 + np.array(dxyz)) * scale)[None, :]), t7, name="c0")
            if via_replace:
                off = off.replace(order=0, scale=scale)
            t_off = np.asarray(engine.api(off.simulate, tshape), dtype=np.float64)
            if float(np.max(np.abs(t_off - want7))) > 2e-3:
                fails.append(dict(desc, clause="NearestNeighbourPaste", offset=list(dxyz), maxerr=round(float(np.max(np.abs(t_off - want7))), 4)))
                break
    if cfg["second"] == "other_component":
        # history: the second component is OVERWRITTEN by the same molecules with twice the density, on the simulator that has
        # already simulated once; the next simulation must show the new component (the simulation is linear in the density)
        sim_h = build()
        np.asarray(sim_h.simulate(tshape))
        sim_h.add_molecules(Molecules(p2_0[None, :]), (2.0 * tmpl).astype(np.float32), name="c1", overwrite=True)
        want_h = _expected(tshape, tmpl, [case["paste1"]]) + 2.0 * _expected(tshape, tmpl, [case["paste2"]])
        tomo_h = np.asarray(engine.api(sim_h.simulate, tshape), dtype=np.float64)
        if float(np.max(np.abs(tomo_h - want_h))) > 4e-3:
            fails.append(dict(desc, clause="OverwrittenComponentIsSimulated", maxerr=float(np.max(np.abs(tomo_h - want_h)))))
        # simulating never changes the molecules it was given: a second simulation gives the same tomogram
        again = np.asarray(engine.api(sim.simulate, tshape), dtype=np.float64)
        if float(np.max(np.abs(again - tomo))) > 1e-5:
            fails.append(dict(desc, clause="SimulationRepeatable", maxerr=float(np.max(np.abs(again - tomo)))))
    if cfg["second"] != "none":
        tomo_f = np.asarray(build(order_flip=True).simulate(tshape), dtype=np.float64)
        if float(np.max(np.abs(tomo_f - tomo))) > 1e-4:
            fails.append(dict(desc, clause="OrderIndependent"))
    # load-back: an interior exact paste loads back as the template itself
    inside = len(case["paste1"]) == int(np.prod(shape))
    if inside and cfg["second"] == "none" and not fails:
        ld = SubtomogramLoader(tomo.astype(np.float32), Molecules(p1[None, :], R1), order=cfg["order"], scale=scale, output_shape=shape)
        back = np.asarray(engine.api(ld.load, 0), dtype=np.float64)
        if float(np.max(np.abs(back - tmpl))) > 2e-3:
            fails.append(dict(desc, clause="LoadBackIsTemplate", maxerr=float(np.max(np.abs(back - tmpl)))))
    # 2-D simulation = z projection of the 3-D one (when the volume contains the molecules in z)
    zs = [p1[0] / scale] + ([p2[0] / scale] if cfg["second"] != "none" else [])
    # the 3-D reference clips at z < 0 exactly like the 2-D simulation must; the top of the volume must contain the molecules
    if all(z + (shape[0] - 1) / 2 <= tshape[0] - 1 for z in zs):
        proj = np.asarray(engine.api(sim.simulate_2d, tshape[1:]), dtype=np.float64)
        if proj.shape != tshape[1:] or float(np.max(np.abs(proj - want.sum(axis=0)))) > 5e-3:
            fails.append(dict(desc, clause="Projection2D", maxerr=float(np.max(np.abs(proj - want.sum(axis=0)))) if proj.shape == tshape[1:] else None))
    # a projection along z does not depend on how high the molecules sit: lifting every molecule by 40 pixels (any scale)
    # changes nothing, provided they are entirely above z = 0 before
    if all(z - (max(shape) - 1) / 2 - 1 >= 0 for z in zs):
        lo = np.asarray(engine.api(sim.simulate_2d, tshape[1:]), dtype=np.float64)
        hi = np.asarray(engine.api(build(dz=40.0 * scale).simulate_2d, tshape[1:]), dtype=np.float64)
        if lo.shape != hi.shape or float(np.max(np.abs(lo - hi))) > 5e-3:
            fails.append(dict(desc, clause="Projection2DIndependentOfHeight", maxerr=float(np.max(np.abs(lo - hi))) if lo.shape == hi.shape else None))
    return dict(failures=fails, classes={("interior" if inside else "clipped_or_outside"): 1})


def run(rep: engine.Report, tier: str, seed: int):
    mc = rep.add_tlc(engine.tlc("MC_C14", "MC_C14", workers=1))
    cases = mc.emitted
    if not cases:
        raise engine.MachineryError("MC_C14 emitted nothing")
    budget = 1800 if tier == "quick" else len(cases)
    sel = engine.stratified_sample(cases, lambda c: (tuple(c["cfg"]["shape"]), tuple(c["tshape"]), c["cfg"]["second"], c["cfg"]["order"], c["cfg"]["s2"], json.dumps(c["cfg"]["R"]), len(c["paste1"])), budget, seed)
    rep.exhaustive = len(sel) == len(cases)
    results = engine.parallel_replay("harness.props.c14", "replay", sel)
    engine.collect(rep, sel, results, key=lambda c: c["cfg"])
    rep.traces_validated = rep.evaluations
    rep.samples = [dict(cfg=c["cfg"], paste1_head=c["paste1"][:4]) for c in sel[:3]]
    rep.rule = (
        "TLC enumerates template shapes (3,3,3),(4,4,4),(3,4,5),(6,5,4) x 18 grid-coincident position classes (interior, on a face, "
        "straddling, fully outside, per axis) x Rot24 orientations for the cubic odd template x {one molecule, two in one component, "
        "two components} x orders 0/1/3 x scales 1/2,1,2, plus six volumes THINNER than the template along one axis (the template overhangs both "
        "faces: slabs of 1-3 voxels) and emits the exact voxel contributions; "
        f"{len(cases)} cases, {len(sel)} replayed on TomogramSimulator.simulate / simulate_2d and SubtomogramLoader.load"
    )
    rep.assumptions += ["only grid-coincident poses have an exact expectation; other poses are covered through C01/C02"]


def replay_file(path: str) -> int:
    v = json.loads(open(path).read())
    r = replay(v["case"])
    print(json.dumps(r, indent=1, default=str))
    return 1 if r["failures"] else 0


def selftest() -> int:
    mc = engine.tlc("MC_C14", "MC_C14", workers=1)
    case = next(c for c in mc.emitted if c["cfg"]["shape"] == [4, 4, 4] and c["cfg"]["second"] == "none" and len(c["paste1"]) == 64 and c["cfg"]["order"] == 1)
    good = replay(case)
    bad = json.loads(json.dumps(case))
    bad["paste1"] = [[lin + 1, n] for lin, n in bad["paste1"]]
    r = replay(bad)
    ok = not good["failures"] and bool(r["failures"])
    print("selftest C14:", "ok" if ok else f"FAILED {good}")
    return 0 if ok else 2
