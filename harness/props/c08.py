"""C08 - missing-wedge masks follow the tilt geometry.

spec/Wedge.tla decides every bin by integer sign tests (physical frequency k/N rotated by the
orientation against the two tilt planes); MC_C08.tla checks DC kept / symmetry (off Nyquist) / the
index-grid lemma on every (shape, orientation, tilt pair, axis) and emits the expected mask.  The
masks of all real entry points are compared bin by bin.
"""
from __future__ import annotations

import json
import math
import warnings

import numpy as np

from harness import engine, memo
from harness.lattice import rot_from_spec

PROP = "C08"
LEVEL = "model_checking"


def _deg(t) -> float:
    return math.degrees(math.atan2(t[0], t[1]))


def _cmp(desc, name, got, exp, fails):
    got = np.asarray(got)
    if got.shape != exp.shape:
        fails.append(dict(desc, clause="MaskShape", entry=name, observed=list(got.shape)))
        return
    g = got.astype(float)
    bad = ((exp == 1) & (g < 0.5)) | ((exp == 0) & (g > 0.5))
    if bad.any():
        i = tuple(int(x) for x in np.argwhere(bad)[0])
        fails.append(dict(desc, clause="BinGeometry", entry=name, bin=list(i), observed=float(g[i]), expected=int(exp[i]), nbad=int(bad.sum())))


def _sym(desc, name, got, shape, fails):
    g = np.asarray(got).astype(float) > 0.5
    neg = g[np.ix_(*[(-np.arange(n)) % n for n in shape])]
    asym = g != neg
    if not asym.any():
        return
    nyq = np.zeros(shape, bool)
    for a, n in enumerate(shape):
        if n % 2 == 0:
            sl = [slice(None)] * 3
            sl[a] = n // 2
            nyq[tuple(sl)] = True
    off = asym & ~nyq
    if off.any():
        fails.append(dict(desc, clause="Symmetric", entry=name, nyquist=False, nasym=int(off.sum())))
    else:
        fails.append(dict(desc, clause="Symmetric", entry=name, nyquist=True, nasym=int(asym.sum())))
    if not g[0, 0, 0]:
        fails.append(dict(desc, clause="DCKept", entry=name))


def replay(case) -> dict:
    from scipy.spatial.transform import Rotation
    from acryo import _utils as au
    from acryo.alignment import ZNCCAlignment
    from acryo.backend import Backend
    from acryo.tilt import dual_axis, no_wedge, single_axis

    cfg = case["cfg"]
    shape = tuple(cfg["shape"])
    R = rot_from_spec(cfg["R"])
    exp = np.array(case["mask"], dtype=int)
    d0, d1 = _deg(cfg["tp"][0]), _deg(cfg["tp"][1])
    desc = dict(kind=cfg["kind"], axis=cfg["axis"], shape=list(shape), cubic=len(set(shape)) == 1,
                odd=[n % 2 for n in shape], rot24=cfg["R"]["d"] == 1, tilt=[round(d0, 3), round(d1, 3)])
    fails = []
    quat = R.as_quat()
    templ = np.zeros(shape, np.float32)
    templ[0, 0, 0] = 1.0
    rng = np.random.default_rng(7)
    img = rng.normal(size=shape).astype(np.float32)
    ft = np.fft.fftn(img)

    def model_mask(**kw):
        with warnings.catch_warnings():
            warnings.simplefilter("ignore")
            m = ZNCCAlignment(templ, **kw)
        return m, m.get_missing_wedge_mask(quat)

    if cfg["kind"] == "single":
        tm = single_axis((d0, d1), axis=cfg["axis"])
        entries = [("tilt_model", engine.api(tm.create_mask, R, shape))]
        entries.append(("apply_mask", None))
        if cfg["axis"] == "y":
            entries.append(("backend", engine.api(Backend().missing_wedge_mask, R, (d0, d1), shape)))
            entries.append(("utils", engine.api(au.missing_wedge_mask, R, (d0, d1), shape)))
            entries.append(("model_tuple", engine.api(model_mask, tilt=(d0, d1))[1]))
            entries.append(("model_legacy_kw", engine.api(model_mask, tilt_range=(d0, d1))[1]))
        mdl, mm = engine.api(model_mask, tilt=tm)
        entries.append(("model_object", mm))
        from acryo.tilt import UnionAxes

        entries.append(("union_of_one", engine.api(UnionAxes([tm]).create_mask, R, shape)))
        entries.append(("union_of_same_twice", engine.api(UnionAxes([tm, single_axis((d0, d1), axis=cfg["axis"])]).create_mask, R, shape)))
        for name, got in entries:
            if name == "apply_mask":
                # mask_missing_wedge on a spectrum: kept bins unchanged, dropped bins zero
                out = np.asarray(engine.api(mdl.mask_missing_wedge, ft.astype(np.complex64), quat))
                keep = np.abs(out - ft.astype(np.complex64)) < 1e-4 * (1 + np.abs(ft))
                zero = np.abs(out) < 1e-6
                if out.shape != shape or not np.all(keep | zero):
                    fails.append(dict(desc, clause="MaskApplication", entry=name))
                    continue
                got = np.where(zero & ~keep, 0.0, 1.0)
            _cmp(desc, name, got, exp, fails)
            _sym(desc, name, got, shape, fails)
    elif cfg["kind"] == "none":
        from acryo.tilt import UnionAxes

        # a union keeps every bin that ANY member keeps: with a no-wedge member it keeps everything (Wedge.tla: Union2(1, b) = 1)
        for name, got in (("no_wedge", no_wedge().create_mask(R, shape)), ("single_axis_None", single_axis(None).create_mask(R, shape)),
                          ("model_none", model_mask()[1]),
                          ("union_nowedge_first", engine.api(UnionAxes([no_wedge(), single_axis((d0, d1), "y")]).create_mask, R, shape)),
                          ("union_nowedge_last", engine.api(UnionAxes([single_axis((d0, d1), "x"), no_wedge()]).create_mask, R, shape)),
                          ("model_union_nowedge", model_mask(tilt=UnionAxes([no_wedge(), single_axis((d0, d1), "y")]))[1])):
            _cmp(desc, name, got, exp, fails)
    else:
        xp = case["xpair"]
        got = engine.api(dual_axis((d0, d1), (_deg(xp[0]), _deg(xp[1]))).create_mask, R, shape)
        _cmp(desc, "dual_axis", got, exp, fails)
        a = single_axis((d0, d1), "y").create_mask(R, shape)
        b = single_axis((_deg(xp[0]), _deg(xp[1])), "x").create_mask(R, shape)
        if not np.array_equal(np.asarray(got).astype(bool), np.asarray(a).astype(bool) | np.asarray(b).astype(bool)):
            fails.append(dict(desc, clause="DualIsUnion", entry="dual_axis"))
        _sym(desc, "dual_axis", got, shape, fails)
    nb = int((exp == 2).sum())
    return dict(failures=fails, classes={"boundary_bins": nb, "decided_bins": int(exp.size - nb)})


def _stratum(c):
    g = c["cfg"]
    s = g["shape"]
    return (g["kind"], g["axis"], tuple(n % 2 for n in s), len(set(s)) == 1, g["R"]["d"] == 1, json.dumps(g["tp"]))


def run(rep: engine.Report, tier: str, seed: int):
    mc = rep.add_tlc(engine.tlc("MC_C08", "MC_C08" if tier == "quick" else "MC_C08_deep", workers=1, timeout=3000))
    cases = mc.emitted
    if not cases:
        raise engine.MachineryError("MC_C08 emitted nothing")
    budget = 5000 if tier == "quick" else 40000
    sel = engine.stratified_sample(cases, _stratum, budget, seed)
    rep.exhaustive = len(sel) == len(cases)
    results = engine.parallel_replay("harness.props.c08", "replay", sel)
    engine.collect(rep, sel, results, key=lambda c: c["cfg"])
    rep.traces_validated = rep.evaluations
    memo.run_family(rep, ["wedge_single_y", "wedge_single_x", "wedge_dual", "wedge_backend", "wedge_utils"])
    rep.samples = [dict(cfg=c["cfg"], mask=c["mask"]) for c in sel[:2]]
    rep.rule = (
        f"TLC enumerates all box shapes in [1..N]^3 (N=4 quick, 5 thorough) x 24 Rot24 + 6 rational orientations x tilt pairs "
        f"with rational tangents incl. +-90 degrees x tilt axis y/x, plus no-wedge and dual-axis cases; each expected mask "
        f"(keep/drop/boundary per bin) is compared with single_axis().create_mask, Backend.missing_wedge_mask, "
        f"_utils.missing_wedge_mask, Model.get_missing_wedge_mask (tuple, model object, legacy keyword), "
        f"Model.mask_missing_wedge on a spectrum, dual_axis, no_wedge; {len(cases)} cases, {len(sel)} replayed"
    )
    rep.assumptions += ["bins exactly on a wedge plane (class boundary) may take either value; the zero frequency must be kept"]


def replay_file(path: str) -> int:
    v = json.loads(open(path).read())
    r = replay(v["case"])
    print(json.dumps(r, indent=1, default=str))
    return 1 if r["failures"] else 0


def selftest() -> int:
    mc = engine.tlc("MC_C08", "MC_C08", workers=1)
    case = next(c for c in mc.emitted if c["cfg"]["kind"] == "single" and c["cfg"]["shape"] == [3, 3, 3] and c["cfg"]["R"]["d"] == 1)
    good = replay(case)
    bad = json.loads(json.dumps(case))
    m = np.array(bad["mask"])
    i = tuple(np.argwhere(m == 0)[0])
    m[i] = 1
    bad["mask"] = m.tolist()
    r = replay(bad)
    ok = not [f for f in good["failures"] if f["clause"] == "BinGeometry"] and any(f["clause"] == "BinGeometry" for f in r["failures"])
    print("selftest C08:", "ok" if ok else "FAILED")
    return 0 if ok else 2
