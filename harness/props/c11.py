"""C11 - molecule poses obey rigid-motion algebra in z,y,x order.

spec/Zyx.tla + Motion.tla (pose machine: world/internal rotations and translations with copy
flag; left/right composition and frame laws model-checked by TLC) and PoseStatics.tla (axes,
handedness, reconstruction from any two axes incl. mixed batches, local coordinates) in exact
integer/rational arithmetic on Rot24 and rational rotations.  TLC emits expected trajectories
and observables; they are replayed on real Molecules objects.
"""
from __future__ import annotations

import json
import random

import numpy as np

from harness import engine
from harness.lattice import geodesic_deg, mat_from_spec, rot_from_spec

PROP = "C11"
LEVEL = "model_checking"
SEQS = ["ZXZ", "ZYZ", "XYX", "XZX", "YXY", "YZY", "XYZ", "XZY", "YXZ", "YZX", "ZXY", "ZYX"]


def _is24(r) -> bool:
    return r["d"] == 1


def _angle(a, b) -> float:
    return geodesic_deg(a, b)


def replay_static(case) -> dict:
    from scipy.spatial.transform import Rotation
    from acryo import Molecules

    cfg = case["cfg"]
    R = rot_from_spec(cfg["R"])
    tolv = 1e-9 if _is24(cfg["R"]) else 1e-6
    fails = []
    desc = dict(part="static", kind=cfg["kind"], rot24=_is24(cfg["R"]), R=cfg["R"])
    ax = case["axes"]
    d = float(ax["d"])
    pos = np.array([[1.0, 2.0, 3.0]])
    if cfg["kind"] == "batch":
        R2 = rot_from_spec(cfg["R2"])
        ax2 = case["axes2"]
        rows = [(ax, R), (ax2, R2)]
        pos2 = np.array([[1.0, 2.0, 3.0], [4.0, 5.0, 6.0]])
        for pair in ("zy", "zx", "yx"):
            kw = {c: np.array([np.array(a[c], dtype=float) * (1.0 + i) for i, (a, _) in enumerate(rows)]) for c in pair}
            mol = engine.api(Molecules.from_axes, pos2, **kw)
            for i, (_, Ri) in enumerate(rows):
                ang = _angle(mol.rotator[i], Ri)
                if ang > 1e-3:
                    fails.append(dict(desc, clause="FromAxesBatch", pair=pair, row=i, angle_deg=round(ang, 4), R2=cfg["R2"],
                                      mixed=True))
        return dict(failures=fails)
    mol = Molecules(pos, Rotation.concatenate([R]))
    # axes
    for name, got in (("z", mol.z), ("y", mol.y), ("x", mol.x)):
        want = np.array(ax[name], dtype=float) / d
        if np.max(np.abs(np.asarray(got).ravel() - want)) > tolv:
            fails.append(dict(desc, clause="Axes", axis=name, observed=np.asarray(got).ravel().round(6).tolist(), expected=want.tolist()))
    # reconstruction from two (unnormalised) axes
    # any valid pair of axes, of any (non-zero) length: the spec's axes are numerators, here also rescaled
    for pair in ("zy", "zx", "yx"):
        for f0, f1 in ((1.0, 1.0), (2.0, 1.0), (1.0, 3.0), (0.5, 0.25)):
            kw = {pair[0]: np.array([ax[pair[0]]], dtype=float) * f0, pair[1]: np.array([ax[pair[1]]], dtype=float) * f1}
            m2 = engine.api(Molecules.from_axes, pos, **kw)
            ang = _angle(m2.rotator[0], R)
            if ang > 1e-3:
                fails.append(dict(desc, clause="FromAxes", pair=pair, angle_deg=round(ang, 4), mixed=False, lengths=[f0, f1]))
                break
    # representation round trips (relations between real calls)
    for name, back in (
        ("quat", lambda: Molecules.from_quat(pos, mol.quaternion())),
        ("rotvec", lambda: Molecules.from_rotvec(pos, mol.rotvec())),
        ("matrix", lambda: Molecules.from_matrix(pos, mol.matrix())),
    ):
        ang = _angle(engine.api(back).rotator[0], R)
        if ang > 1e-4:
            fails.append(dict(desc, clause="RepresentationRoundTrip", rep=name, angle_deg=round(ang, 5)))
    import warnings

    with warnings.catch_warnings():
        warnings.simplefilter("ignore")
        for seq0 in SEQS:
            for seq in (seq0, seq0.lower()):
                for deg in (False, True):
                    e = mol.euler_angle(seq, degrees=deg)
                    ang = _angle(engine.api(Molecules.from_euler, pos, e, seq=seq, degrees=deg).rotator[0], R)
                    if ang > 1e-3:
                        fails.append(dict(desc, clause="EulerRoundTrip", seq=seq, degrees=deg, angle_deg=round(ang, 4)))
                e2 = R.as_euler(seq)
                ang = _angle(engine.api(Molecules.from_euler, pos, e2[None, :], seq=seq, order="zyx").rotator[0], R)
                if ang > 1e-3:
                    fails.append(dict(desc, clause="EulerZyxOrder", seq=seq, angle_deg=round(ang, 4)))
        # batches: row i of an (N, 3) angle array belongs to molecule i (both coordinate orders)
        from scipy.spatial.transform import Rotation as _Rot

        others = _Rot.from_quat([[1, 2, 0, 3], [0, 1, 3, 1]])
        rot3 = _Rot.concatenate([R, others[0] * R, others[1]])
        pos3 = np.array([[1.0, 2.0, 3.0], [4.0, 5.0, 6.0], [7.0, 8.0, 9.0]])
        mol3 = Molecules(pos3, rot3)
        for seq in ("ZXZ", "zyx", "XYZ"):
            for deg in (False, True):
                e3 = mol3.euler_angle(seq, degrees=deg)
                back3 = engine.api(Molecules.from_euler, pos3, e3, seq=seq, degrees=deg)
                worst = max(_angle(back3.rotator[i], rot3[i]) for i in range(3))
                if worst > 1e-3 or not np.allclose(back3.pos, pos3):
                    fails.append(dict(desc, clause="EulerBatchRowwise", seq=seq, degrees=deg, angle_deg=round(worst, 4)))
            back3 = engine.api(Molecules.from_euler, pos3, rot3.as_euler(seq), seq=seq, order="zyx")
            worst = max(_angle(back3.rotator[i], rot3[i]) for i in range(3))
            if worst > 1e-3:
                fails.append(dict(desc, clause="EulerBatchRowwise", seq=seq, order="zyx", angle_deg=round(worst, 4)))
    # local sampling coordinates and affine matrices
    shape = tuple(case["shape"])
    for scale in (1.0, 0.5, 2.0):
        p_px = np.array(case["p2"], dtype=float) / 2.0
        ml = Molecules((p_px * scale)[None, :], Rotation.concatenate([R]))
        coords = engine.api(ml.local_coordinates, shape, scale)
        for ent in case["local"]:
            k = tuple(ent["k"])
            want = np.array(ent["c2n"], dtype=float) / (2.0 * d)
            got = np.array([coords[a][k] for a in range(3)], dtype=float)
            if np.max(np.abs(got - want)) > 2e-4:
                fails.append(dict(desc, clause="LocalCoordinates", k=list(k), scale=scale, observed=got.round(4).tolist(), expected=want.round(4).tolist()))
                break
    src = np.array([1.5, -2.0, 0.25])
    M = engine.api(mol.affine_matrix, src)[0]
    Rm = mat_from_spec(cfg["R"])
    if np.max(np.abs(M[:3, :3] - Rm)) > 1e-5 or np.max(np.abs(M @ np.append(src, 1.0) - np.append(pos[0], 1.0))) > 1e-4:
        fails.append(dict(desc, clause="AffineMatrix"))
    Mi = engine.api(mol.affine_matrix, src, np.array([[0.5, 0.5, 0.5]]), True)[0]
    if np.max(np.abs(Mi[:3, :3] - Rm.T)) > 1e-5 or np.max(np.abs(Mi @ np.append(src, 1.0) - np.array([0.5, 0.5, 0.5, 1.0]))) > 1e-4:
        fails.append(dict(desc, clause="AffineMatrixInverse"))
    return dict(failures=fails)


def _mk(pose):
    from scipy.spatial.transform import Rotation
    from acryo import Molecules
    import polars as pl

    p = np.array(pose["p"], dtype=float) / float(pose["den"])
    return Molecules(p[None, :], Rotation.concatenate([rot_from_spec(pose["R"])]), features=pl.DataFrame({"tag": [7]}))


def _pose_err(mol, pose):
    """Pose error as seen through EVERY public accessor of the orientation (rotator, matrix, quaternion, rotation vector,
    axes): they must all describe the pose the specification prescribes, at every step of a session."""
    from scipy.spatial.transform import Rotation

    p = np.array(pose["p"], dtype=float) / float(pose["den"])
    dp = float(np.max(np.abs(np.asarray(mol.pos[0], dtype=float) - p)))
    R = rot_from_spec(pose["R"])
    da = _angle(mol.rotator[0], R)
    da = max(da, _angle(Rotation.from_matrix(np.asarray(mol.matrix())[0]), R))
    da = max(da, _angle(Rotation.from_quat(np.asarray(mol.quaternion())[0]), R))
    da = max(da, _angle(Rotation.from_rotvec(np.asarray(mol.rotvec())[0]), R))
    axes = np.stack([np.asarray(mol.z)[0], np.asarray(mol.y)[0], np.asarray(mol.x)[0]], axis=1)   # columns = images of the unit vectors
    if np.max(np.abs(axes - R.as_matrix())) > 1e-4:
        da = max(da, 90.0)
    return dp, da


def replay_program(case) -> dict:
    from scipy.spatial.transform import Rotation

    fails = []
    mol = _mk(case["init"])
    tracked = [[mol, case["init"]]]      # every object ever seen in the session with the pose it must currently have
    for step, (op, tr) in enumerate(zip(case["prog"], case["traj"])):
        name, copy = op["name"], bool(op["copy"])
        desc = dict(part="program", op=name, via=op.get("via", ""), copy=copy, step=step)
        recv = mol
        if name in ("rotate_world", "rotate_internal"):
            W = rot_from_spec(op["rot"])
            if name == "rotate_internal":
                out = engine.api(recv.rotate_by_rotvec_internal, W.as_rotvec()[None, :], copy=copy)
            elif op["via"] == "rotator":
                out = engine.api(recv.rotate_by, Rotation.concatenate([W]), copy=copy)
            elif op["via"] == "matrix":
                out = engine.api(recv.rotate_by_matrix, W.as_matrix()[None, :, :], copy=copy)
            elif op["via"] == "quat":
                out = engine.api(recv.rotate_by_quaternion, W.as_quat()[None, :], copy=copy)
            else:
                # the same world rotation as a rotation vector or as Euler angles (both axis conventions, degrees or radians)
                form = (step + 2 * len(case["prog"]) + int(copy)) % 5
                desc["form"] = ("rotvec", "euler_zyx_deg", "euler_xyz_rad", "euler_xyz_deg", "euler_zyx_rad")[form]
                if form == 0:
                    out = engine.api(recv.rotate_by_rotvec, W.as_rotvec()[None, :], copy=copy)
                elif form in (1, 4):
                    deg = form == 1
                    out = engine.api(recv.rotate_by_euler_angle, W.as_euler("ZXZ", degrees=deg)[None, :], seq="ZXZ", degrees=deg, order="zyx", copy=copy)
                else:
                    deg = form == 3
                    out = engine.api(recv.rotate_by_euler_angle, W.as_euler("XZX", degrees=deg)[::-1][None, :], seq="ZXZ", degrees=deg, order="xyz", copy=copy)
        elif name == "translate":
            out = engine.api(recv.translate, np.array(op["t"], dtype=float), copy=copy)
        else:
            out = engine.api(recv.translate_internal, np.array(op["t"], dtype=float), copy=copy)
        dp, da = _pose_err(out, tr["post"])
        if dp > 2e-4 or da > 2e-3:
            fails.append(dict(desc, clause="PoseAfterOp", dpos=round(dp, 5), dang_deg=round(da, 4)))
            break
        dp, da = _pose_err(recv, tr["receiver_after"])
        if dp > 2e-4 or da > 2e-3:
            fails.append(dict(desc, clause="CopySemantics", dpos=round(dp, 5), dang_deg=round(da, 4)))
            break
        if (out is recv) == copy:
            fails.append(dict(desc, clause="CopyIdentity", returned_self=out is recv))
            break
        if out.features["tag"].to_list() != [7]:
            fails.append(dict(desc, clause="FeaturesLost"))
            break
        # copy=True never alters ANY earlier object of the session, copy=False alters only its receiver
        for ent in tracked:
            if ent[0] is recv:
                ent[1] = tr["receiver_after"]
        if not any(ent[0] is out for ent in tracked):
            tracked.append([out, tr["post"]])
        stale = False
        for obj, pose in tracked:
            dp, da = _pose_err(obj, pose)
            if dp > 2e-4 or da > 2e-3:
                fails.append(dict(desc, clause="EarlierObjectAltered", dpos=round(dp, 5), dang_deg=round(da, 4)))
                stale = True
                break
        if stale:
            break
        mol = out
    return dict(failures=fails)


def replay(case) -> dict:
    return replay_program(case) if "prog" in case else replay_static(case)


def run(rep: engine.Report, tier: str, seed: int):
    quick = tier == "quick"
    mc = rep.add_tlc(engine.tlc("MC_C11", "MC_C11", coverage=True))
    engine.check_not_vacuous(mc, ["Step"])
    st = rep.add_tlc(engine.tlc("MC_C11s", "MC_C11s", workers=1))
    statics = st.emitted
    em = rep.add_tlc(engine.tlc("MC_C11", "EMIT_C11", workers=1))
    steps = em.emitted
    sim = rep.add_tlc(engine.tlc("MC_C11", "SIM_C11", workers=1,
                                 extra=["-simulate", f"num={200 if quick else 2000}", "-depth", "7", "-seed", str(seed + 3)], tag="sim"))
    rng = random.Random(seed)
    byprefix = {}
    for p in sim.emitted:
        byprefix.setdefault(json.dumps([p["init"], p["prog"][:-1]], sort_keys=True), []).append(p)
    progs = [rng.choice(v) for _, v in sorted(byprefix.items())]
    if not statics or not steps or not progs:
        raise engine.MachineryError("C11: an emit run produced nothing")
    if quick:
        steps = engine.stratified_sample(steps, lambda c: (c["prog"][0]["name"], c["prog"][0].get("via"), c["prog"][0]["copy"], c["init"]["R"]["d"] == 1), 1500, seed)
        batch = [c for c in statics if c["cfg"]["kind"] == "batch"]
        single = [c for c in statics if c["cfg"]["kind"] != "batch"]
        statics = single + batch
    cases = statics + steps + progs
    results = engine.parallel_replay("harness.props.c11", "replay", cases)
    engine.collect(rep, cases, results, key=lambda c: c.get("cfg") or (c["init"], c["prog"]))
    rep.traces_validated = len(steps) + len(progs)
    rep.samples = [statics[0]["cfg"], dict(init=progs[0]["init"], prog=progs[0]["prog"])]
    rep.rule = (
        f"statics: all 24 Rot24 + 8 rational orientations (axes, from_axes for the three axis pairs with unnormalised "
        f"integer axes, quaternion/rotvec/matrix round trips, 24 Euler sequences x radians/degrees, zyx-ordered Euler, local "
        f"coordinates at 3 scales, affine matrices) and all 576 ordered Rot24 pairs as 2-row from_axes batches "
        f"({len(statics)} cases); dynamics: every (pose, operation) pair explored by TLC at depth 1 ({len(steps)} replayed) and "
        f"{len(progs)} TLC-simulated 6-step programs over world/internal rotations (4 call forms) and translations with both "
        "copy flags, compared after every step (returned pose, receiver pose, identity of the returned object)"
    )
    rep.assumptions += ["tolerances: 1e-9 on Rot24 axes, 1e-3 degree on orientations, 2e-4 px on float32 positions"]


def replay_file(path: str) -> int:
    v = json.loads(open(path).read())
    r = replay(v["case"])
    print(json.dumps(r, indent=1, default=str))
    return 1 if r["failures"] else 0


def selftest() -> int:
    em = engine.tlc("MC_C11", "EMIT_C11", workers=1)
    case = next(c for c in em.emitted if c["prog"][0]["name"] == "translate_internal" and c["init"]["R"]["d"] == 1 and c["init"]["R"]["m"] != [[1, 0, 0], [0, 1, 0], [0, 0, 1]])
    good = replay(case)
    bad = json.loads(json.dumps(case))
    bad["traj"][0]["post"]["p"][0] += bad["traj"][0]["post"]["den"]
    r = replay(bad)
    ok = not good["failures"] and bool(r["failures"])
    print("selftest C11:", "ok" if ok else "FAILED")
    return 0 if ok else 2
