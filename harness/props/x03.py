"""X03 (extended coverage, not a listed property) - the component registry of a TomogramSimulator.

spec/SimRegistry.tla: add / copy / replace / subset / swap / collect / simulate over two live simulators; TLC checks name
uniqueness, that subset keeps the receiver's order and that an operation on one simulator never changes the other
(action property OtherUntouched), and simulates 7-step programmes.  Replay on real TomogramSimulator objects: after every
step both simulators have exactly the registry (names in order, component identity), order and scale of the model;
collect_molecules is the concatenation in registry order; simulate is the sum of the components' own simulations.
"""
from __future__ import annotations

import json

import numpy as np

from harness import engine

PROP = "X03"
LEVEL = "model_checking"
SHAPE = (16, 18, 20)


def _comps():
    from acryo import Molecules

    out = {}
    for c in (1, 2, 3):
        rng = np.random.default_rng(c)
        img = np.zeros((3, 3, 3), np.float32)
        img[1, 1, 1] = float(c)
        img[0, 1, 2] = 0.5 * c
        pos = np.array([[4 + c, 5, 6 + 2 * c], [9, 10 + c, 8]], dtype=np.float32)
        out[c] = (Molecules(pos), img)
    return out


def _state(sim, comps):
    if sim is None:
        return dict(reg=[], order=-1, scale4=0)
    reg = []
    for name, comp in sim.components.items():
        cid = next((c for c, (m, im) in comps.items() if comp.molecules is m and np.array_equal(np.asarray(comp.image), im)), -1)
        reg.append(dict(name=name, comp=cid))
    return dict(reg=reg, order=int(sim.order), scale4=int(round(sim.scale * 4)))


def _model(s, op):
    s = json.loads(json.dumps(s))
    n = op["name"]
    if n == "add":
        names = [e["name"] for e in s["reg"]]
        if op["n"] in names:
            if op["ow"]:
                s["reg"][names.index(op["n"])] = dict(name=op["n"], comp=op["c"])
        else:
            s["reg"].append(dict(name=op["n"], comp=op["c"]))
    elif n == "replace_order":
        s["order"] = op["v"]
    elif n == "replace_scale":
        s["scale4"] = op["v"]
    elif n == "subset":
        s["reg"] = [e for e in s["reg"] if e["name"] in op["ns"]]
    return s


def replay(case) -> dict:
    from acryo import TomogramSimulator

    comps = _comps()
    cur, other = TomogramSimulator(order=3, scale=1.0), None
    mcur, mother = dict(reg=[], order=3, scale4=4), dict(reg=[], order=-1, scale4=0)
    fails = []
    for i, op in enumerate(case["prog"]):
        n = op["name"]
        desc = dict(op=n, step=i)
        err = ""
        try:
            if n == "add":
                mol, img = comps[op["c"]]
                cur.add_molecules(mol, img, name=op["n"], overwrite=bool(op["ow"]))
            elif n == "copy":
                cur, other = cur.copy(), cur
            elif n == "replace_order":
                cur, other = cur.replace(order=op["v"]), cur
            elif n == "replace_scale":
                cur, other = cur.replace(scale=op["v"] / 4), cur
            elif n == "subset":
                cur, other = cur.subset(sorted(op["ns"])), cur
            elif n == "swap":
                if other is None:
                    raise RuntimeError("harness: swap without a second simulator (TLC does not generate this)")
                cur, other = other, cur
            elif n == "collect":
                got = np.asarray(cur.collect_molecules().pos) if len(cur.components) else np.zeros((0, 3))
                want = np.concatenate([np.asarray(comps[e["comp"]][0].pos) for e in mcur["reg"]]) if mcur["reg"] else np.zeros((0, 3))
                if got.shape != want.shape or not np.array_equal(got, want):
                    fails.append(dict(desc, clause="CollectInRegistryOrder"))
            elif n == "simulate":
                import warnings

                with warnings.catch_warnings():
                    warnings.simplefilter("ignore")
                    got = np.asarray(cur.simulate(SHAPE), dtype=np.float64)
                    want = np.zeros(SHAPE)
                    for e in mcur["reg"]:
                        one = TomogramSimulator(order=cur.order, scale=cur.scale)
                        one.add_molecules(*comps[e["comp"]], name="x")
                        want += np.asarray(one.simulate(SHAPE), dtype=np.float64)
                if got.shape != want.shape or float(np.max(np.abs(got - want))) > 1e-4:
                    fails.append(dict(desc, clause="SimulateIsSumOfComponents"))
        except ValueError as e:
            err = str(e)[:80]
        # model step
        expect_err = n == "add" and op["n"] in [e["name"] for e in mcur["reg"]] and not op["ow"]
        if bool(err) != expect_err:
            fails.append(dict(desc, clause="AddRejectsExactlyDuplicateNames", error=err, expected_error=expect_err))
            break
        if n in ("copy", "replace_order", "replace_scale", "subset"):
            mcur, mother = _model(mcur, op), mcur
        elif n == "swap":
            mcur, mother = mother, mcur
        else:
            mcur = _model(mcur, op)
        gc, go = _state(cur, comps), _state(other, comps)
        if gc != mcur:
            fails.append(dict(desc, clause="RegistryAfterOp", observed=gc, expected=mcur))
            break
        if go != mother:
            fails.append(dict(desc, clause="OtherSimulatorChanged", observed=go, expected=mother))
            break
    if not fails and case.get("final") is not None:
        fin = case["final"]
        norm = lambda s: dict(reg=[dict(name=e["name"], comp=e["comp"]) for e in s["reg"]], order=s["order"], scale4=s["scale4"])
        if norm(fin["cur"]) != mcur or norm(fin["other"]) != mother:
            raise RuntimeError(f"harness transcription of SimRegistry differs from TLC: {mcur} / {mother} vs {fin}")
    return dict(failures=fails, classes={"steps": len(case["prog"])})


def run(rep: engine.Report, tier: str, seed: int):
    rep.add_tlc(engine.tlc("SimRegistry", "MC_X03", timeout=900))
    num = 400 if tier == "quick" else 4000
    sim = rep.add_tlc(engine.tlc("SimRegistry", "SIM_X03", workers=1, extra=["-simulate", f"num={num}", "-depth", "8", "-seed", str(seed + 7)], tag="sim"))
    seen, progs = set(), []
    for p in sim.emitted:
        k = json.dumps(p["prog"], sort_keys=True)
        if k not in seen and len(p["prog"]) == 7:
            seen.add(k)
            progs.append(dict(prog=p["prog"], final=p["final"]))
    if not progs:
        raise engine.MachineryError("SIM_X03 emitted nothing")
    results = engine.parallel_replay("harness.props.x03", "replay", progs)
    engine.collect(rep, progs, results, key=lambda c: json.dumps(c["prog"], sort_keys=True))
    rep.traces_validated = len(progs)
    rep.rule = (f"EXTENDED COVERAGE (no listed property): {len(progs)} TLC-simulated 7-step programmes over add/copy/replace/subset/swap/collect/"
                "simulate on real TomogramSimulator objects; both live simulators compared with the model after every step")


def replay_file(path: str) -> int:
    v = json.loads(open(path).read())
    r = replay(v["case"])
    print(json.dumps(r, indent=1, default=str))
    return 1 if r["failures"] else 0


def selftest() -> int:
    good = replay(dict(prog=[dict(name="add", n="a", c=1, ow=False), dict(name="copy"), dict(name="add", n="b", c=2, ow=False), dict(name="simulate")], final=None))
    import harness.props.x03 as me

    orig = me._model
    me._model = lambda s, op: orig(s, dict(op, n="c") if op["name"] == "add" else op)
    try:
        bad = replay(dict(prog=[dict(name="add", n="a", c=1, ow=False)], final=None))
    finally:
        me._model = orig
    ok = not good["failures"] and bool(bad["failures"])
    print("selftest X03:", "ok" if ok else f"FAILED {good} {bad}")
    return 0 if ok else 2
