"""C07 - correlation scores mean what they say.

spec/Score.tla: NCC / ZNCC as exact integer triples <<num, da, db>> (score = num/sqrt(da db)), masks
as integer weights, the ZNCC landscape as the score of the mean-padded window at every integer
displacement; MC_C07.tla checks Cauchy-Schwarz, self-score = 1 and "landscape centre = score" on the
exact values and emits sub-volume, template, mask, score triple and the 27 landscape triples.
Replay compares Model.score / Model.landscape / Model.align(0); relations the property states between
real outputs (invariances, score = landscape centre = zero-range alignment score, landscape arg-max =
reported shift, loader-level agreement) are checked on float images of odd/even/non-cubic boxes.
"""
from __future__ import annotations

import json
import math

import numpy as np

from harness import engine, memo

PROP = "C07"
LEVEL = "model_checking"
IDQ = np.array([0.0, 0.0, 0.0, 1.0])
ZERO = np.zeros(3)


def _models():
    from acryo.alignment import FSCAlignment, NCCAlignment, PCCAlignment, ZNCCAlignment

    return dict(ZNCC=ZNCCAlignment, NCC=NCCAlignment, PCC=PCCAlignment, FSC=FSCAlignment)


def _val(t):
    d = t[1] * t[2]
    return None if d <= 0 else t[0] / math.sqrt(d)


def replay_exact(case) -> dict:
    cfg = case["cfg"]
    s = tuple(cfg["s"])
    sub = np.array(case["sub"], np.float32).reshape(s)
    tmpl = np.array(case["tmpl"], np.float32).reshape(s)
    mask = None if cfg["mask"] == "none" else (np.array(case["mask2"], np.float32).reshape(s) / 2.0)
    desc = dict(part="exact", model=cfg["model"], shape=list(s), mask=cfg["mask"], gain=cfg["gain"], shift=cfg["shift"])
    fails = []
    want = _val(case["score"])
    if want is None:
        return dict(failures=[], classes={"degenerate": 1})
    model = _models()[cfg["model"]](tmpl, mask)
    got = float(engine.api(model.score, sub, IDQ, ZERO))
    if not abs(got - want) < 2e-4:
        fails.append(dict(desc, clause="ScoreIsPearson", observed=got, expected=want))
    got0 = float(engine.api(model.align, sub, (0.0, 0.0, 0.0)).score)
    if cfg["model"] == "ZNCC" and not abs(got0 - want) < 2e-3:
        fails.append(dict(desc, clause="ZeroRangeAlignScore", observed=got0, expected=want))
    if case["landscape"]:
        lds = np.asarray(engine.api(model.landscape, sub, (1.0, 1.0, 1.0)), dtype=np.float64)
        if lds.shape != (3, 3, 3):
            fails.append(dict(desc, clause="LandscapeShape", observed=list(lds.shape)))
        else:
            exp = [_val(t) for t in case["landscape"]]
            g = lds.ravel()
            for i, w in enumerate(exp):
                if w is None:
                    continue
                if not abs(g[i] - w) < 5e-4:
                    fails.append(dict(desc, clause="LandscapeValue", disp=i, observed=float(g[i]), expected=w))
                    break
            amax = int(np.argmax([(-9 if w is None else w) for w in exp]))
            top = sorted(w for w in exp if w is not None)
            if len(top) > 1 and top[-1] - top[-2] > 1e-3 and int(np.argmax(g)) != amax:
                fails.append(dict(desc, clause="LandscapeArgmax", observed=int(np.argmax(g)), expected=amax))
    return dict(failures=fails, classes={"exact": 1})


def _blob(shape, centre, rng, sigma=1.6):
    zz, yy, xx = np.indices(shape).astype(np.float64)
    out = np.zeros(shape)
    for dz, dy, dx, w, sg in ((0, 0, 0, 1.0, sigma), (1.5, -1.0, 0.5, 0.7, 1.1), (-1.0, 1.2, -1.4, -0.5, 1.3)):
        out += w * np.exp(-((zz - centre[0] - dz) ** 2 + (yy - centre[1] - dy) ** 2 + (xx - centre[2] - dx) ** 2) / (2 * sg**2))
    return out.astype(np.float32)


def replay_rel(case) -> dict:
    from scipy.spatial.transform import Rotation

    shape = tuple(case["shape"])
    rng = np.random.default_rng(case["seed"])
    c = (np.array(shape) - 1) / 2
    tmpl = _blob(shape, c, rng)
    d = np.array(case["disp"], dtype=float)
    sub = (_blob(shape, c + d, rng) + 0.02 * rng.normal(size=shape)).astype(np.float32)
    mask = None
    if case["mask"] != "none":
        zz, yy, xx = np.indices(shape)
        r = np.sqrt((zz - c[0]) ** 2 + (yy - c[1]) ** 2 + (xx - c[2]) ** 2)
        R0 = min(shape) / 2 - 0.5
        mask = (r <= R0).astype(np.float32) if case["mask"] == "binary" else np.clip((R0 + 1 - r) / 2, 0, 1).astype(np.float32)
    kw = {}
    if case["cutoff"]:
        kw["cutoff"] = case["cutoff"]
    if case["tilt"]:
        kw["tilt"] = tuple(case["tilt"])
    quat = IDQ if case["orient"] == "id" else Rotation.from_quat([1, 1, 0, 3]).as_quat()
    desc = dict(part="relation", model=case["model"], shape=list(shape), mask=case["mask"], cutoff=case["cutoff"], tilt=case["tilt"],
                orient=case["orient"], even=[n % 2 == 0 for n in shape])
    fails = []
    M = _models()[case["model"]]
    # argument forms: float64 sub-volume, boolean mask array, quaternion / position given as lists
    form = case["seed"] % 4
    if form == 1:
        sub = sub.astype(np.float64)
    elif form == 2 and case["mask"] == "binary":
        mask = mask.astype(bool)
    elif form == 3:
        quat = [float(x) for x in quat]
    model = M(tmpl, mask, **kw)
    sc = float(engine.api(model.score, sub, quat, ZERO))
    normalised = case["model"] in ("ZNCC", "NCC", "FSC")
    if case["model"] in ("ZNCC", "NCC") and not (-1 - 1e-4 <= sc <= 1 + 1e-4):
        fails.append(dict(desc, clause="Bounded", observed=sc))
    if normalised:
        self_sc = float(engine.api(model.score, tmpl, quat, ZERO))
        if not abs(self_sc - 1) < 2e-3:
            fails.append(dict(desc, clause="SelfIsOne", observed=self_sc))
        g = float(model.score((sub * 3.5).astype(np.float32), quat, ZERO))
        if not abs(g - sc) < 2e-3:
            fails.append(dict(desc, clause="GainInvariant", observed=g, expected=sc))
        # weak and strong data (exact powers of two): the score and, below, every other route to it stay where they are
        gain = (1.0, 2.0**-16, 2.0**10)[(case["seed"] // 4) % 3]
        if gain != 1.0:
            sub = (np.asarray(sub) * gain).astype(sub.dtype)
            g2 = float(model.score(sub, quat, ZERO))
            desc["gain"] = gain
            if not abs(g2 - sc) < 2e-3:
                fails.append(dict(desc, clause="GainInvariant", observed=g2, expected=sc))
    if case["model"] == "ZNCC" and mask is None:
        # (the constant is of the size of the data: float32 cannot hold a signal of 1e-5 on top of 2)
        o = float(model.score((sub + np.float32(2.0 * desc.get("gain", 1.0))).astype(np.float32), quat, ZERO))
        if not abs(o - sc) < 2e-3:
            fails.append(dict(desc, clause="OffsetInvariant", observed=o, expected=sc))
    if case["model"] in ("ZNCC", "FSC"):
        lds1 = np.asarray(engine.api(model.landscape, sub, (1.0, 1.0, 1.0), quat, ZERO))
        cen = float(lds1[1, 1, 1])
        a0 = float(engine.api(model.align, sub, (0.0, 0.0, 0.0), quat, ZERO).score)
        if not (abs(cen - sc) < 3e-3 and abs(a0 - sc) < 3e-3):
            fails.append(dict(desc, clause="ScoreLandscapeAlignAgree", score=sc, centre=cen, align0=a0))
    # landscape maximum at the reported displacement
    m = 2.0
    lds = np.asarray(engine.api(model.landscape, sub, (m, m, m), quat, ZERO))
    res = engine.api(model.align, sub, (m, m, m), quat, ZERO)
    am = np.array(np.unravel_index(int(np.argmax(lds)), lds.shape)) - (np.array(lds.shape) - 1) / 2
    flat = np.sort(lds.ravel())
    if flat[-1] - flat[-2] > 1e-4 * max(1.0, abs(flat[-1])) and np.max(np.abs(am - np.asarray(res.shift))) > 1.0 + 1e-6:  # the sub-pixel refinement searches within 1 px of the integer arg-max
        fails.append(dict(desc, clause="LandscapeMaxAtShift", argmax=am.tolist(), shift=[float(x) for x in res.shift]))
    return dict(failures=fails, classes={"relation": 1})


def replay_loader(case) -> dict:
    from acryo import Molecules, SubtomogramLoader

    rng = np.random.default_rng(case["seed"])
    shape = tuple(case["shape"])
    tmpl = _blob(shape, (np.array(shape) - 1) / 2, rng)
    tomo = (0.05 * rng.normal(size=(30, 30, 48))).astype(np.float32)
    pos = np.array([[15, 15, 12], [14, 16, 34]], dtype=np.float32)
    mole = Molecules(pos)
    loader = SubtomogramLoader(tomo, mole, order=1, output_shape=shape)
    M = _models()[case["model"]]
    desc = dict(part="loader", model=case["model"], shape=list(shape))
    fails = []
    subs = loader.asnumpy()
    model = M(tmpl)
    want = [float(model.score(s, IDQ, pos[i])) for i, s in enumerate(subs)]
    got = engine.api(loader.score, [tmpl], alignment_model=M)[0]
    if not np.allclose(got, want, atol=2e-3):
        fails.append(dict(desc, clause="LoaderScoreAgrees", observed=[float(x) for x in got], expected=want))
    # several templates and a mask given as a converter (computed FROM each template): template j is scored under ITS mask
    from acryo import pipe

    tmpl2 = _blob(shape, (np.array(shape) - 1) / 2 + np.array([0.0, 1.5, -1.0]), np.random.default_rng(case["seed"] + 1), )
    tmpl2 = (tmpl2 + np.roll(tmpl, 2, axis=0) * 0.5).astype(np.float32)
    conv = pipe.soft_otsu(sigma=1.0, radius=1.0)
    got2 = engine.api(loader.score, [tmpl, tmpl2], mask=conv, alignment_model=M)
    for jt, t in enumerate((tmpl, tmpl2)):
        mj = np.asarray(conv(t, float(loader.scale)), dtype=np.float32)
        mdl = M(t, mj)
        wantj = [float(mdl.score(s, IDQ, pos[i])) for i, s in enumerate(subs)]
        if not np.allclose(got2[jt], wantj, atol=2e-3):
            fails.append(dict(desc, clause="LoaderScoreUsesEachTemplatesOwnMask", template=jt, observed=[float(x) for x in got2[jt]], expected=wantj))
    lds = engine.api(loader.construct_landscape, tmpl, max_shifts=1.0, alignment_model=M).compute()
    for i, s in enumerate(subs):
        ref = np.asarray(model.landscape(s, (1.0, 1.0, 1.0), IDQ, pos[i]))
        if lds[i].shape != ref.shape or not np.allclose(lds[i], ref, atol=2e-3):
            fails.append(dict(desc, clause="LoaderLandscapeAgrees", row=i))
    return dict(failures=fails, classes={"loader": 1})


def replay_wedge(case) -> dict:
    """Composition with the wedge geometry of spec/Wedge.tla: at the molecule's orientation the model uses the mask the
    specification prescribes (every bin off a plane), and the score is the (centred / uncentred) normalised correlation of the
    sub-volume and template after that mask."""
    import warnings

    from harness.lattice import rot_from_spec
    from harness.props.c08 import _deg
    from acryo.tilt import single_axis

    cfg = case["cfg"]
    shape = tuple(cfg["shape"])
    R = rot_from_spec(cfg["R"])
    quat = R.as_quat()
    exp = np.array(case["mask"], dtype=int)
    d0, d1 = _deg(cfg["tp"][0]), _deg(cfg["tp"][1])
    rng = np.random.default_rng(case["seed"])
    tmpl = rng.normal(size=shape).astype(np.float32)
    sub = (0.6 * tmpl + rng.normal(size=shape)).astype(np.float32)
    desc = dict(part="wedge", model=case["model"], shape=list(shape), cubic=len(set(shape)) == 1, rot24=cfg["R"]["d"] == 1,
                identity=bool(np.allclose(R.as_matrix(), np.eye(3))), axis=cfg["axis"], tilt=[round(d0, 2), round(d1, 2)])
    fails = []
    with warnings.catch_warnings():
        warnings.simplefilter("ignore")
        model = _models()[case["model"]](tmpl, tilt=single_axis((d0, d1), axis=cfg["axis"]))
        W = np.asarray(engine.api(model.get_missing_wedge_mask, quat), dtype=np.float64)
        got = float(engine.api(model.score, sub, quat, ZERO))
    if W.shape != exp.shape:
        return dict(failures=[dict(desc, clause="WedgeMaskShape", observed=list(W.shape))])
    bad = ((exp == 1) & (W < 0.5)) | ((exp == 0) & (W > 0.5))
    if bad.any():
        fails.append(dict(desc, clause="WedgeAtOrientation", nbad=int(bad.sum()), bin=[int(x) for x in np.argwhere(bad)[0]]))
    a = np.fft.ifftn(np.fft.fftn(sub.astype(np.float64)) * W).real
    b = np.fft.ifftn(np.fft.fftn(tmpl.astype(np.float64)) * W).real
    if case["model"] == "ZNCC":
        a, b = a - a.mean(), b - b.mean()
    den = math.sqrt(float((a * a).sum() * (b * b).sum()))
    if den < 1e-6:
        return dict(failures=fails, classes={"degenerate": 1})
    want = float((a * b).sum()) / den
    if not abs(got - want) < 2e-3:
        fails.append(dict(desc, clause="ScoreIsPearsonOfWedgeMasked", observed=got, expected=want))
    return dict(failures=fails, classes={"wedge": 1})


def replay_lowpass(case) -> dict:
    """Composition with the Butterworth gains of spec/Filter.tla: with a cutoff the score is the normalised correlation of the
    sub-volume and template after the exact gain (TLC's rationals) has been applied to both."""
    from harness.props.c16 import _gains

    cfg = case["cfg"]
    shape = tuple(cfg["s"])
    c = cfg["c"][0] / cfg["c"][1]
    G = _gains(case)
    rng = np.random.default_rng(case["seed"])
    tmpl = rng.normal(size=shape).astype(np.float32)
    sub = (0.6 * tmpl + rng.normal(size=shape)).astype(np.float32)
    desc = dict(part="lowpass", model=case["model"], shape=list(shape), odd=[n % 2 for n in shape], cutoff=round(c, 4), identity=case["identity"])
    model = _models()[case["model"]](tmpl, cutoff=c)
    got = float(engine.api(model.score, sub, IDQ, ZERO))
    a = np.fft.ifftn(np.fft.fftn(sub.astype(np.float64)) * G).real
    b = np.fft.ifftn(np.fft.fftn(tmpl.astype(np.float64)) * G).real
    if case["model"] == "ZNCC":
        a, b = a - a.mean(), b - b.mean()
    den = math.sqrt(float((a * a).sum() * (b * b).sum()))
    if den < 1e-6:
        return dict(failures=[], classes={"degenerate": 1})
    want = float((a * b).sum()) / den
    fails = []
    if not abs(got - want) < 2e-3:
        fails.append(dict(desc, clause="ScoreIsPearsonOfLowpassFiltered", observed=got, expected=want))
    return dict(failures=fails, classes={"lowpass": 1})


def replay_rotland(case) -> dict:
    """Searches over rotations (and templates) with a mask that is NOT rotation symmetric: every candidate has its own rotated
    mask; the landscape (one block per candidate) and the alignment must describe the same search."""
    from scipy.spatial.transform import Rotation

    shape = tuple(case["shape"])
    rng = np.random.default_rng(case["seed"])
    c = (np.array(shape) - 1) / 2
    T = case["T"]
    tmpls = [_blob(shape, c, rng), _blob(shape, c + np.array([0.7, -0.6, 0.4]), rng, sigma=1.2)][:T]
    rots = [Rotation.identity(), Rotation.from_euler("z", 90, degrees=True), Rotation.from_euler("zyx", [40, 25, -30], degrees=True)]
    zz, yy, xx = np.indices(shape)
    # an off-centre, elongated soft mask: its rotated copies differ from one another
    mask = np.clip(1.6 - np.sqrt(((zz - c[0] - 0.8) / 3.0) ** 2 + ((yy - c[1] + 0.5) / 2.0) ** 2 + ((xx - c[2]) / 4.0) ** 2), 0, 1).astype(np.float32)
    d = np.array(case["disp"], dtype=float)
    sub = (_blob(shape, c + d, rng) + 0.05 * rng.normal(size=shape)).astype(np.float32)
    M = _models()[case["model"]]
    if case.get("norot"):
        rots = [Rotation.identity()]
        model = M(tmpls, mask)           # several templates, no rotation search: a different construction path
    else:
        model = M(tmpls if T > 1 else tmpls[0], mask, rotations=rots)
    desc = dict(part="rotland", model=case["model"], shape=list(shape), T=T, K=len(rots))
    fails = []
    l0 = np.asarray(engine.api(model.landscape, sub, (0.0, 0.0, 0.0)), dtype=np.float64)
    r0 = engine.api(model.align, sub, (0.0, 0.0, 0.0))
    flat0 = l0.reshape(l0.shape[0], -1)[:, 0] if l0.ndim == 4 else l0.ravel()
    if len(flat0) != T * len(rots):
        fails.append(dict(desc, clause="LandscapeBlocks", observed=list(l0.shape)))
        return dict(failures=fails)
    if case.get("norot") and case["model"] == "ZNCC":   # the property states score = landscape centre for ZNCC (and FSC) only
        # block j of a multi-template landscape is what the single-template model of template j computes
        for jj in range(T):
            single = float(engine.api(M(tmpls[jj], mask).score, sub, IDQ, ZERO))
            if abs(float(flat0[jj]) - single) > 3e-3:
                fails.append(dict(desc, clause="MultiTemplateBlockIsSingleTemplateScore", template=jj, block=float(flat0[jj]), single=single))
    top = np.sort(flat0)
    if case["model"] in ("ZNCC", "NCC") and abs(float(top[-1]) - float(r0.score)) > 3e-3:
        fails.append(dict(desc, clause="ZeroRangeLandscapeMaxIsAlignScore", landscape_max=float(top[-1]), align0=float(r0.score)))
    if top[-1] - top[-2] > 0.05 * max(1e-6, abs(top[-1])) and int(np.argmax(flat0)) != int(r0.label):
        fails.append(dict(desc, clause="LandscapeArgmaxIsAlignLabel", observed=int(np.argmax(flat0)), expected=int(r0.label)))
    lds = np.asarray(engine.api(model.landscape, sub, (2.0, 2.0, 2.0)), dtype=np.float64)
    res = engine.api(model.align, sub, (2.0, 2.0, 2.0))
    if lds.ndim == 4:
        am = np.unravel_index(int(np.argmax(lds)), lds.shape)
        flat = np.sort(lds.ravel())
        # the landscape is sampled at integer shifts, the alignment refines to sub-pixel: the two may legitimately prefer
        # different candidates when two blocks are nearly as good, so the comparison needs a clear winner among the blocks
        bm = np.sort(lds.reshape(lds.shape[0], -1).max(axis=1))
        clear = len(bm) < 2 or bm[-1] - bm[-2] > 0.05 * max(1e-6, abs(bm[-1]))
        if clear and flat[-1] - flat[-2] > 1e-3 * max(1.0, abs(flat[-1])):
            sh = np.array(am[1:]) - (np.array(lds.shape[1:]) - 1) / 2
            if int(am[0]) != int(res.label) or np.max(np.abs(sh - np.asarray(res.shift))) > 1.0 + 1e-6:
                fails.append(dict(desc, clause="LandscapeMaxAtShiftAndLabel", block=int(am[0]), label=int(res.label), argmax=sh.tolist(), shift=[float(x) for x in res.shift]))
    return dict(failures=fails, classes={"rotland": 1})


def replay(case) -> dict:
    k = case.get("part")
    if k == "rotland":
        return replay_rotland(case)
    if k == "wedge":
        return replay_wedge(case)
    if k == "lowpass":
        return replay_lowpass(case)
    if k == "relation":
        return replay_rel(case)
    if k == "loader":
        return replay_loader(case)
    return replay_exact(case)


def run(rep: engine.Report, tier: str, seed: int):
    mc = rep.add_tlc(engine.tlc("MC_C07", "MC_C07", workers=1))
    exact = mc.emitted
    if not exact:
        raise engine.MachineryError("MC_C07 emitted nothing")
    rel = []
    i = 0
    shapes = [(8, 8, 8), (9, 9, 9), (7, 8, 10), (12, 9, 8)]
    for model in ("ZNCC", "NCC", "PCC", "FSC"):
        for shape in shapes:
            for mask in ("none", "binary", "soft"):
                for cutoff in (None, 0.3, 0.5):
                    for tilt in (None, [-60, 60]):
                        for orient in ("id", "rotq"):
                            i += 1
                            if tilt is None and orient == "rotq":
                                continue
                            for rep_i in range(1 if tier == "quick" else 4):
                                rel.append(dict(part="relation", model=model, shape=list(shape), mask=mask, cutoff=cutoff, tilt=tilt, orient=orient,
                                                seed=seed * 7919 + i + 100003 * rep_i, disp=[(1, -1, 0), (0, 1, 1), (-1, 0, 1), (1, 1, -1)][(i + rep_i) % 4]))
    ldr = [dict(part="loader", model=m, shape=list(s), seed=seed + j) for j, (m, s) in enumerate((m, s) for m in ("ZNCC", "NCC", "PCC") for s in shapes[:3])]
    wc = rep.add_tlc(engine.tlc("MC_C08", "MC_C08", workers=1, timeout=3000, tag="wedge"))
    wsel = [c for c in wc.emitted if c["cfg"]["kind"] == "single" and min(c["cfg"]["shape"]) >= 2]
    wsel = engine.stratified_sample(wsel, lambda c: (len(set(c["cfg"]["shape"])) == 1, c["cfg"]["R"]["d"] == 1, c["cfg"]["axis"], json.dumps(c["cfg"]["tp"])),
                                    240 if tier == "quick" else 2400, seed)
    wedge = [dict(part="wedge", model=("ZNCC", "NCC")[j % 2], cfg=c["cfg"], mask=c["mask"], seed=seed * 31 + j) for j, c in enumerate(wsel)]
    fc = rep.add_tlc(engine.tlc("MC_C16", "MC_C16", workers=1, timeout=3000, tag="lowpass"))
    fsel = [c for c in fc.emitted if c["cfg"]["order"] == 2 and min(c["cfg"]["s"]) >= 2 and c["cfg"]["c"][0] > 0]
    fsel = engine.stratified_sample(fsel, lambda c: (tuple(n % 2 for n in c["cfg"]["s"]), json.dumps(c["cfg"]["c"])), 200 if tier == "quick" else len(fsel), seed)
    lowp = [dict(part="lowpass", model=("ZNCC", "NCC")[j % 2], cfg=c["cfg"], rden=c["rden"], rnum=c["rnum"], identity=c["identity"], seed=seed * 17 + j) for j, c in enumerate(fsel)]
    rotl = [dict(part="rotland", model=m, shape=list(sh), T=T, seed=seed * 13 + i, disp=[(1, -1, 0), (0, 1, 1), (-1, 0, 1)][i % 3])
            for i, (m, sh, T) in enumerate((m, sh, T) for m in ("ZNCC", "NCC", "PCC") for sh in ((9, 9, 9), (8, 9, 10), (10, 8, 8)) for T in (1, 2))]
    rotl += [dict(part="rotland", model=m, shape=list(sh), T=2, norot=True, seed=seed * 17 + i, disp=[(1, -1, 0), (0, 1, 1)][i % 2])
             for i, (m, sh) in enumerate((m, sh) for m in ("ZNCC", "NCC", "PCC") for sh in ((9, 9, 9), (8, 9, 10)))]
    allc = exact + rel + ldr + wedge + lowp + rotl
    results = engine.parallel_replay("harness.props.c07", "replay", allc)
    engine.collect(rep, allc, results, key=lambda c: (c.get("part"), c.get("model"), c["cfg"]) if c.get("part") in ("wedge", "lowpass") else (c.get("cfg") or c))
    rep.traces_validated = len(allc)
    memo.run_family(rep, ["zncc_landscape", "pcc_landscape", "zncc_score_tilt", "ncc_score_tilt", "zncc_landscape_tilt", "zncc_align_tilt", "pcc_align_tilt", "fsc_score_tilt"])
    rep.samples = [dict(cfg=exact[0]["cfg"], score=exact[0]["score"]), rel[0], ldr[0]]
    rep.rule = (
        f"exact: TLC computes NCC/ZNCC triples for 5 integer image pairs x boxes (2,2,2),(3,3,3),(2,3,4),(4,4,4) x masks none/binary/"
        f"soft x gain, and the 27-point ZNCC landscape incl. displaced templates ({len(exact)} cases, all replayed on Model.score/"
        f"landscape/align(0)); relations on float blobs: 4 models x 4 box shapes (odd/even/non-cubic) x masks x cutoffs x tilt x "
        f"orientation ({len(rel)} cases: bounds, self=1, gain/offset invariance, score=landscape centre=align(0).score, landscape "
        f"arg-max = reported shift); loader.score / construct_landscape vs the model ({len(ldr)} cases); wedge composition: "
        f"{len(wedge)} (box, orientation, tilt pair, axis) cases with the exact mask of spec/Wedge.tla (TLC): the model's mask at the "
        "molecule orientation agrees on every bin off a plane, and ZNCC/NCC score = normalised correlation after that mask; low-pass "
        f"searches over 3 rotations x 1-2 templates with a rotation-asymmetric mask ({len(rotl)} cases: zero-range landscape maximum = align score, arg-max block = label, landscape maximum at the reported shift); composition: {len(lowp)} (box, cutoff) cases with the exact Butterworth gains of spec/Filter.tla: score = normalised correlation of the filtered pair"
    )
    rep.assumptions += ["with a tilt model the score is checked against the correlation after the wedge mask (bins exactly on a wedge plane as the model "
                        "has them); with a cutoff against the correlation after the exact Butterworth gain (boxes up to 5^3); cutoff and wedge TOGETHER only through relations"]


def replay_file(path: str) -> int:
    v = json.loads(open(path).read())
    r = replay(v["case"])
    print(json.dumps(r, indent=1, default=str))
    return 1 if r["failures"] else 0


def selftest() -> int:
    mc = engine.tlc("MC_C07", "MC_C07", workers=1)
    case = next(c for c in mc.emitted if c["cfg"]["s"] == [3, 3, 3] and c["cfg"]["mask"] == "soft" and c["cfg"]["model"] == "ZNCC")
    good = replay(case)
    bad = json.loads(json.dumps(case))
    bad["score"][0] = int(bad["score"][0] * 0.9) - 1
    r = replay(bad)
    ok = not good["failures"] and bool(r["failures"])
    print("selftest C07:", "ok" if ok else f"FAILED {good}")
    return 0 if ok else 2
