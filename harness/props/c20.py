"""C20 - particle picking finds planted particles regardless of chunking.

spec/Picker.tla: ownership of picks by chunk cores and the local->global mapping, checked by TLC for
every partition (<= 3 chunks, each >= depth) of every extent <= 24 and every particle position
(ExactlyOnceAtTruePosition), together with the exact characterisation of the historical duplication /
displacement; MC_C20.tla also emits the 3-D chunk families to replay.  Replay: images with planted
blobs (or planted rotated templates) are picked with LoGPicker / DoGPicker / ZNCCTemplateMatcher as
numpy arrays and under every emitted dask chunking; the pick sets must equal the planted set.
"""
from __future__ import annotations

import json

import numpy as np

from harness import engine, memo

PROP = "C20"
LEVEL = "model_checking"
# planted voxel positions (z, y, x): interior, next to chunk boundaries of the emitted families, near faces
PLANTS = [(6, 7, 8), (19, 21, 23), (20, 30, 12), (33, 9, 40), (12, 37, 35), (34, 38, 15), (26, 15, 30)]


# "diagonal" layout: pairs farther apart than the exclusion distance but inside the cube that encloses the exclusion ball
DIAG_BASE = [(8, 9, 10), (19, 21, 23), (28, 12, 34), (12, 32, 30)]


SLAB_PLANTS = [(1.5, 12.0, 12.0), (1.5, 30.0, 34.0), (1.5, 14.0, 36.0)]


def _plants(case):
    if case.get("layout") == "slab":
        return list(SLAB_PLANTS)
    if case.get("layout") != "diagonal":
        return list(PLANTS)
    off = case["corner"]
    return [p for b in DIAG_BASE for p in (b, tuple(int(x + o) for x, o in zip(b, off)))]


def _blobs(shape, pts, sigma):
    zz, yy, xx = np.indices(shape).astype(np.float32)
    img = np.zeros(shape, np.float32)
    for p in pts:
        img += np.exp(-((zz - p[0]) ** 2 + (yy - p[1]) ** 2 + (xx - p[2]) ** 2) / (2 * sigma**2))
    return img


def _template():
    zz, yy, xx = np.indices((9, 9, 9)).astype(np.float32)
    t = np.exp(-((zz - 4) ** 2 + (yy - 4) ** 2 + (xx - 4) ** 2) / 4.0) + 0.9 * np.exp(-((zz - 2) ** 2 + (yy - 4) ** 2 + (xx - 6) ** 2) / 1.5)
    t += 0.7 * np.exp(-((zz - 5) ** 2 + (yy - 6.5) ** 2 + (xx - 3) ** 2) / 1.5)
    t[t < 0.02] = 0
    return t.astype(np.float32)


def _template_even():
    """8^3 template: its centre (3.5, 3.5, 3.5) is a half pixel, so picks sit on half pixels."""
    zz, yy, xx = np.indices((8, 8, 8)).astype(np.float32)
    t = np.exp(-((zz - 3.5) ** 2 + (yy - 3.5) ** 2 + (xx - 3.5) ** 2) / 4.0) + 0.9 * np.exp(-((zz - 1.5) ** 2 + (yy - 3.5) ** 2 + (xx - 5.5) ** 2) / 1.5)
    t += 0.7 * np.exp(-((zz - 4.5) ** 2 + (yy - 6) ** 2 + (xx - 2.5) ** 2) / 1.5)
    t[t < 0.02] = 0
    return t.astype(np.float32)


def _rot_cube(img, m):
    """Exact voxel permutation of a cube (even or odd) about its centre: out[c + m u] = img[c + u], in doubled coordinates."""
    n = img.shape[0]
    u2 = 2 * np.indices(img.shape).reshape(3, -1) - (n - 1)
    dst = (np.asarray(m).round().astype(int) @ u2 + (n - 1)) // 2
    out = np.zeros_like(img)
    out[tuple(dst)] = img[tuple((u2 + (n - 1)) // 2)]
    return out


def replay_even(case) -> dict:
    """Even-sized template: the particles' centres are half pixels; chunk boundaries at, just before and just after a centre."""
    import dask.array as da
    from scipy.spatial.transform import Rotation
    from acryo import pick
    from harness.lattice import geodesic_deg

    shape = tuple(case["extents"])
    chunks = tuple(tuple(c) for c in case["chunks"])
    scale = case["scale"]
    tmpl = _template_even()
    R = [np.eye(3, dtype=int), np.array([[1, 0, 0], [0, 0, -1], [0, 1, 0]]), np.array([[0, 1, 0], [0, 0, 1], [1, 0, 0]])]
    use_rot = case["rotations"]
    centres = [tuple(x / 2 for x in p) for p in case["plants2"]]
    img = np.zeros(shape, np.float32)
    planted = {}
    for i, c in enumerate(centres):
        m = R[i % 3] if use_rot else R[0]
        k = [int(round(x - 3.5)) for x in c]
        img[k[0] : k[0] + 8, k[1] : k[1] + 8, k[2] : k[2] + 8] += _rot_cube(tmpl, m)
        planted[c] = m
    picker = pick.ZNCCTemplateMatcher(tmpl, rotation=[Rotation.from_matrix(m.astype(float)) for m in R] if use_rot else None)
    desc = dict(picker="ZNCC", layout="even_template", scale=scale, rotations=use_rot, chunks=[list(c) for c in chunks], as_numpy=case["as_numpy"])
    arr = img if case["as_numpy"] else da.from_array(img, chunks=chunks)
    mol, exc = engine.api_try(picker.pick_molecules, arr, scale, min_distance=4.0 * scale, min_score=0.6)
    if exc is not None:
        return dict(failures=[dict(desc, clause="Raised", error=f"{exc.kind}: {exc.msg[:80]} @ {exc.where}")])
    got = np.asarray(mol.pos, dtype=np.float64) / scale
    fails, used = [], set()
    for c in centres:
        d = np.linalg.norm(got - np.array(c), axis=1) if len(got) else np.array([])
        exact = [int(j) for j in np.flatnonzero(d <= 0.3)]
        near = [int(j) for j in np.flatnonzero(d <= 2.5)]
        if not exact:
            fails.append(dict(desc, clause="ParticleFound", particle=list(c), nearest=[round(float(x), 2) for x in got[int(np.argmin(d))]] if len(got) else None))
        if len(near) > 1:
            fails.append(dict(desc, clause="NoDuplicates", particle=list(c), count=len(near), picks=[[round(float(x), 2) for x in got[j]] for j in near]))
        used.update(near)
        if exact and use_rot:
            ang = geodesic_deg(mol.rotator[exact[0]], Rotation.from_matrix(planted[c].astype(float)))
            if ang > 0.1:
                fails.append(dict(desc, clause="RotationOfPick", particle=list(c), angle=round(ang, 2)))
    extra = [j for j in range(len(got)) if j not in used]
    if extra:
        fails.append(dict(desc, clause="NoMisplacedPicks", count=len(extra), first=[round(float(x), 2) for x in got[extra[0]]]))
    return dict(failures=fails, classes={"picks": int(len(got))})


def replay_lobes(case) -> dict:
    """A template with two lobes: its correlation landscape has side maxima above min_score within the exclusion distance of the main
    peak.  They are suppressed by the main peak - also when a chunk boundary runs between them (the exclusion distance is larger
    than the margin by which a chunk's landscape extends beyond its own region unless the overlap accounts for it)."""
    import dask.array as da
    from scipy import ndimage as ndi
    from acryo import pick

    shape = tuple(case["extents"])
    chunks = tuple(tuple(c) for c in case["chunks"])
    scale = case["scale"]
    t = np.zeros((9, 9, 9), np.float32)
    t[4, 4, 2] = t[4, 4, 6] = 1
    t = ndi.gaussian_filter(t, 0.8)
    centres = [(9, 14, 19), (27, 30, 25), (20, 12, 36)]
    img = (np.random.default_rng(0).normal(0, 0.001, shape)).astype(np.float32)
    for c in centres:
        img[c[0] - 4 : c[0] + 5, c[1] - 4 : c[1] + 5, c[2] - 4 : c[2] + 5] += t
    desc = dict(picker="ZNCC", layout="two_lobes", scale=scale, chunks=[list(c) for c in chunks], as_numpy=case["as_numpy"],
                case_key=f"two_lobes|{scale}|{[list(c) for c in chunks]}")
    arr = img if case["as_numpy"] else da.from_array(img, chunks=chunks)
    mol, exc = engine.api_try(pick.ZNCCTemplateMatcher(t).pick_molecules, arr, scale, min_distance=6.0 * scale, min_score=0.3)
    if exc is not None:
        return dict(failures=[dict(desc, clause="Raised", error=f"{exc.kind}: {exc.msg[:80]} @ {exc.where}")])
    got = np.asarray(mol.pos, dtype=np.float64) / scale
    fails = []
    used = set()
    for c in centres:
        d = np.linalg.norm(got - np.array(c, dtype=float), axis=1) if len(got) else np.array([])
        hit = [int(j) for j in np.flatnonzero(d <= 0.6)]
        if len(hit) != 1:
            fails.append(dict(desc, clause="ParticleFound" if not hit else "NoDuplicates", particle=list(c), count=len(hit)))
        used.update(hit)
    extra = [j for j in range(len(got)) if j not in used]
    if extra:
        fails.append(dict(desc, clause="NoMisplacedPicks", count=len(extra), first=[round(float(x), 2) for x in got[extra[0]]]))
    return dict(failures=fails, classes={"picks": int(len(got))})


def replay(case) -> dict:
    if case.get("layout") == "two_lobes":
        return replay_lobes(case)
    if case.get("layout") == "even_template":
        return replay_even(case)
    import dask.array as da
    from scipy.spatial.transform import Rotation
    from acryo import pick
    from harness.lattice import apply_rot24, paste

    shape = tuple(case["extents"])
    chunks = tuple(tuple(c) for c in case["chunks"])
    kind = case["picker"]
    scale = case["scale"]
    fails = []
    plants = _plants(case)
    diag = case.get("layout") == "diagonal"
    desc = dict(picker=kind, scale=scale, layout=case.get("layout", "spread"), nchunks=[len(c) for c in chunks], chunks=[list(c) for c in chunks], multi_chunk=any(len(c) > 1 for c in chunks),
                dtype=case["dtype"])
    rots = None
    planted_rot = {}
    if kind == "ZNCC":
        tmpl = _template()
        R = [np.eye(3, dtype=int), np.array([[1, 0, 0], [0, 0, -1], [0, 1, 0]]), np.array([[0, 1, 0], [0, 0, 1], [1, 0, 0]])]
        img = np.zeros(shape, np.float32)
        for i, p in enumerate(plants):
            paste(img, apply_rot24(tmpl, R[i % 3], (0, 0, 0)), p)
            planted_rot[p] = R[i % 3]
        rots = [Rotation.from_matrix(m.astype(float)) for m in R]
        picker = pick.ZNCCTemplateMatcher(tmpl, rotation=rots)
        kw = dict(min_distance=(6.0 if diag else 4.0) * scale, min_score=0.6)
    else:
        slab = case.get("layout") == "slab"
        img = _blobs(shape, plants, 1.2 if slab else (0.8 if diag else 1.6))
        if slab:      # a slab thinner than the overlap depth (2 sigma = 6 px > 4 px)
            picker = pick.LoGPicker(sigma=3.0 * scale) if kind == "LoG" else pick.DoGPicker(sigma_low=3.0 * scale, sigma_high=4.5 * scale)
        else:
            picker = pick.LoGPicker(sigma=(2.5 if diag else 1.6) * scale) if kind == "LoG" else pick.DoGPicker(sigma_low=1.6 * scale, sigma_high=2.6 * scale)
        kw = {}
    if case["dtype"] == "uint8":
        img = np.round(img / img.max() * 200).astype(np.uint8)
    elif case["dtype"] != "float32":
        img = img.astype(case["dtype"])
    arr = img if case["as_numpy"] else da.from_array(img, chunks=chunks)
    mol, exc = engine.api_try(picker.pick_molecules, arr, scale, **kw)
    if exc is not None:
        return dict(failures=[dict(desc, clause="Raised", error=f"{exc.kind}: {exc.msg[:80]} @ {exc.where}")])
    got = np.asarray(mol.pos, dtype=np.float64) / scale
    want = np.array(plants, dtype=np.float64)
    used = set()
    for i, w in enumerate(want):
        d = np.linalg.norm(got - w, axis=1) if len(got) else np.array([])
        near = [j for j in np.flatnonzero(d <= 1.0)]
        if len(near) == 0:
            fails.append(dict(desc, clause="ParticleFound", particle=list(plants[i])))
        elif len(near) > 1:
            fails.append(dict(desc, clause="NoDuplicates", particle=list(plants[i]), count=len(near)))
        used.update(int(j) for j in near)
        if len(near) >= 1 and kind == "ZNCC":
            from harness.lattice import geodesic_deg

            ang = geodesic_deg(mol.rotator[int(near[0])], Rotation.from_matrix(planted_rot[plants[i]].astype(float)))
            if ang > 0.1:
                fails.append(dict(desc, clause="RotationOfPick", particle=list(plants[i]), angle=round(ang, 2)))
    extra = [j for j in range(len(got)) if j not in used]
    if extra:
        fails.append(dict(desc, clause="NoMisplacedPicks", count=len(extra), first=[round(float(x), 2) for x in got[extra[0]]]))
    return dict(failures=fails, classes={"picks": int(len(got))})


def run(rep: engine.Report, tier: str, seed: int):
    mc = rep.add_tlc(engine.tlc("MC_C20", "MC_C20", workers=1, timeout=900))
    slabs = [f for f in mc.emitted if f.get("slab")]
    evens = [f for f in mc.emitted if f.get("even")]
    fams = [f for f in mc.emitted if not f.get("slab") and not f.get("even")]
    if not fams or not slabs:
        raise engine.MachineryError("MC_C20 emitted no chunk families")
    cases = []
    for picker in ("LoG", "DoG"):
        for sc in (1.0, 0.5):
            cases.append(dict(extents=slabs[0]["extents"], chunks=[[n] for n in slabs[0]["extents"]], picker=picker, scale=sc, as_numpy=True, dtype="float32", layout="slab"))
            for f in slabs:
                cases.append(dict(extents=f["extents"], chunks=f["chunks"], picker=picker, scale=sc, as_numpy=False, dtype="float32", layout="slab"))
    for picker in ("LoG", "DoG", "ZNCC"):
        for scale in ((1.0, 0.5) if tier == "quick" else (1.0, 0.5, 2.0)):
            cases.append(dict(extents=fams[0]["extents"], chunks=[[n] for n in fams[0]["extents"]], picker=picker, scale=scale, as_numpy=True, dtype="float32"))
            for f in fams:
                cases.append(dict(extents=f["extents"], chunks=f["chunks"], picker=picker, scale=scale, as_numpy=False, dtype="float32"))
        cases.append(dict(extents=fams[0]["extents"], chunks=fams[3]["chunks"], picker=picker, scale=1.0, as_numpy=False, dtype="uint8"))
        # double-precision images, as numpy and in chunks of which some hold a particle and some do not
        cases.append(dict(extents=fams[0]["extents"], chunks=[[n] for n in fams[0]["extents"]], picker=picker, scale=1.0, as_numpy=True, dtype="float64"))
        for f in (fams[3], fams[5]):
            cases.append(dict(extents=f["extents"], chunks=f["chunks"], picker=picker, scale=0.5, as_numpy=False, dtype="float64"))
        if picker != "DoG":   # the DoG response does not resolve such close pairs to within a voxel
            corner = fams[0]["corner"]["log25" if picker == "LoG" else "zncc60"]
            for sc in (1.0, 0.5, 2.0):
                cases.append(dict(extents=fams[0]["extents"], chunks=[[n] for n in fams[0]["extents"]], picker=picker, scale=sc, as_numpy=True, dtype="float32", layout="diagonal", corner=corner))
                for f in (fams[1], fams[3], fams[-3]):
                    cases.append(dict(extents=f["extents"], chunks=f["chunks"], picker=picker, scale=sc, as_numpy=False, dtype="float32", layout="diagonal", corner=corner))
    if not evens:
        raise engine.MachineryError("MC_C20 emitted no even-template families")
    for use_rot in (False, True):
        for sc in (1.0, 0.5):
            cases.append(dict(layout="even_template", extents=evens[0]["extents"], chunks=[[n] for n in evens[0]["extents"]], plants2=evens[0]["plants2"], scale=sc, rotations=use_rot, as_numpy=True))
            for f in evens:
                if sc == 1.0 or tier != "quick" or len(f["chunks"][0]) + len(f["chunks"][1]) + len(f["chunks"][2]) > 4:
                    cases.append(dict(layout="even_template", extents=f["extents"], chunks=f["chunks"], plants2=f["plants2"], scale=sc, rotations=use_rot, as_numpy=False))
    for sc in (1.0, 0.5):
        cases.append(dict(layout="two_lobes", extents=fams[0]["extents"], chunks=[[n] for n in fams[0]["extents"]], scale=sc, as_numpy=True))
        for f in fams + evens[:8]:
            cases.append(dict(layout="two_lobes", extents=f["extents"], chunks=f["chunks"], scale=sc, as_numpy=False))
    results = engine.parallel_replay("harness.props.c20", "replay", cases, sync_dask=True)
    engine.collect(rep, cases, results, key=lambda c: c)
    rep.exhaustive = True
    rep.traces_validated = len(cases)
    memo.run_family(rep, ["matcher_provider_scales", "log_sigma_pairs"])
    rep.samples = cases[:2]
    rep.rule = (
        "TLC: every extent 6..24 x depth 1..6 x every partition into <= 3 chunks (each >= depth) x every particle voxel: each particle "
        "is reported exactly once at its true position, and the historical defect is characterised exactly; replay: 7 planted particles "
        f"(interior, next to chunk boundaries, near faces) in a 40x44x48 image picked by LoG / DoG / ZNCC template matcher (3 searched "
        f"rotations, planted rotated templates) as numpy and under {len(fams)} dask chunk families (incl. chunks smaller than the overlap "
        f"depth, which dask merges), scales, uint8 input; plus a diagonal layout (pairs at the corner offset of the cube enclosing "
        f"the exclusion ball, from TLC) for LoG and the template matcher, a slab thinner than the overlap depth, and an EVEN-sized template "
        f"(picks on half pixels; {len(evens)} chunkings with a boundary 1.5 / 0.5 px before and after a particle centre on each axis, with and "
        f"without rotation search; Picker.tla: half-open ownership of half pixels, landscape edge outside the keep-window), a two-lobed template whose side maxima "
        f"lie within the exclusion distance of the main peak (suppressed also across chunk boundaries), float64 images; {len(cases)} cases"
    )


def replay_file(path: str) -> int:
    v = json.loads(open(path).read())
    r = replay(v["case"])
    print(json.dumps(r, indent=1, default=str))
    return 1 if r["failures"] else 0


def selftest() -> int:
    global PLANTS
    case = dict(extents=[40, 44, 48], chunks=[[40], [44], [48]], picker="LoG", scale=1.0, as_numpy=True, dtype="float32")
    good = replay(case)
    saved = PLANTS
    PLANTS = saved[:-1] + [(30, 20, 20)]  # expect a particle that was not planted... by planting first, then swapping
    # emulate a corrupted expectation: build the image with the saved plants, compare against the altered ones
    import harness.props.c20 as me

    img = _blobs((40, 44, 48), saved, 1.6)
    from acryo import pick

    mol = pick.LoGPicker(sigma=1.6).pick_molecules(img, 1.0)
    got = np.asarray(mol.pos)
    missing = [p for p in PLANTS if np.min(np.linalg.norm(got - np.array(p), axis=1)) > 1.0]
    PLANTS = saved
    ok = not good["failures"] and len(missing) == 1
    print("selftest C20:", "ok" if ok else f"FAILED {good}")
    return 0 if ok else 2
