"""C06 - rotation/template search returns the best candidate, correctly labelled.

spec/AlignCand.tla is checked exhaustively by TLC (candidate order, arg-max, decode) and
emits every planted configuration (T, K, j, k, d, driver, model) together with the expected
outcome; each emitted case is materialised on the lattice (exact Rot24 voxel permutations of
asymmetric integer templates) and driven through the real public API.
"""
from __future__ import annotations

import json

import numpy as np

from harness import engine
from harness.lattice import (
    apply_rot24,
    asym_template,
    geodesic_deg,
    mat_from_spec,
    paste,
)

PROP = "C06"
LEVEL = "model_checking"
MAX_SHIFT = 2.0


def _model_cls(name):
    from acryo import alignment

    return {"ZNCC": alignment.ZNCCAlignment, "NCC": alignment.NCCAlignment, "PCC": alignment.PCCAlignment}[name]


def _rot_arg(case):
    from scipy.spatial.transform import Rotation

    if case["rotform"] == "range_z":
        return ((90, 90), (0, 0), (0, 0))
    if case["rotform"] == "range_x":
        return ((0, 0), (0, 0), (90, 90))
    return [Rotation.from_matrix(np.array(m, dtype=float)) for m in case["rots"]]


# templates that share a common body and differ by a small bright DOMAIN each (for masks computed FROM the templates by a
# function: the common mask of a multi-template search must see every template's own domain)
_DOMAINS = ([(4, 4, 0), (4, 3, 0)], [(0, 4, 4), (1, 4, 4)], [(4, 0, 4), (4, 0, 3)], [(0, 0, 0), (0, 0, 1)])


def dom_template(j: int) -> np.ndarray:
    t = asym_template(0).copy()
    lo = 2
    for dom in _DOMAINS:
        for v in dom:
            t[lo + v[0], lo + v[1], lo + v[2]] = 0.0
    for v in _DOMAINS[j]:
        t[lo + v[0], lo + v[1], lo + v[2]] = 7.0
    return t


def _thr_mask(t):
    """An intensity-dependent mask function: neighbourhood of the brightest voxels of the image it is given."""
    from scipy import ndimage as ndi

    t = np.asarray(t)
    return ndi.binary_dilation(t >= 0.9 * t.max(), iterations=3).astype(np.float32)


def _mask_form(cfg):
    T, K, j, k = cfg["T"], cfg["K"], cfg["j"], cfg["k"]
    h = j + k + T + K + len(cfg["d"])
    # only for the NORMALISED scores: there the planted candidate scores exactly 1 under any mask and every other candidate less
    # (Cauchy-Schwarz), so "the planted candidate is reported" follows from the property.  The phase correlation of PCC is not a
    # normalised score: under a mask of a few hundred voxels another rotation can legitimately score higher.
    if 2 <= T <= len(_DOMAINS) and cfg["driver"] in ("model", "loader_multi", "loader_stack") and h % 4 == 0 and cfg["model"] in ("ZNCC", "NCC"):
        return "function"
    return "array" if h % 2 == 1 else "none"


def _templates(cfg):
    if _mask_form(cfg) == "function":
        return [dom_template(t) for t in range(cfg["T"])]
    return [asym_template(t) for t in range(cfg["T"])]


def _subvolume(case, j, k, d):
    cfg = case["cfg"]
    tmpl = _templates(cfg)[j] if j < cfg["T"] else asym_template(j)
    return apply_rot24(tmpl, np.array(case["rots"][k]), d)


def replay(case) -> dict:
    if "grid" in case:
        return replay_grid(case)
    try:
        return _replay(case)
    except engine.ApiRaised as e:
        c = case["cfg"]
        return dict(failures=[dict(model=c["model"], driver=c["driver"], T=c["T"], K=c["K"], j=c["j"], k=c["k"],
                                   d=c["d"], rs=c["rs"], single_nonidentity=(c["K"] == 1 and c["rs"] == "A"), clause="Raised", error=e.kind, message=e.msg[:200])])


def _replay(case) -> dict:
    from scipy.spatial.transform import Rotation

    cfg = case["cfg"]
    T, K, j, k = cfg["T"], cfg["K"], cfg["j"], cfg["k"]
    d = case["shift"]
    templates = _templates(cfg)
    rots = _rot_arg(case)
    cls = _model_cls(cfg["model"])
    failures = []
    expect_rot = Rotation.from_matrix(np.array(case["quat"], dtype=float))
    desc = dict(model=cfg["model"], driver=cfg["driver"], T=T, K=K, j=j, k=k, d=cfg["d"], rs=cfg["rs"],
                single_nonidentity=(K == 1 and cfg["rs"] == "A"))

    def check(label_mod, quat, shift, where, row=0, exp=(j, expect_rot, d)):
        ej, erot, ed = exp
        if label_mod != ej:
            failures.append(dict(desc, clause="Label", observed=int(label_mod), expected=int(ej), where=where, row=row))
        ang = geodesic_deg(Rotation.from_quat(quat), erot)
        if ang > 0.05:
            failures.append(dict(desc, clause="Rotation", observed_angle_deg=round(ang, 3), where=where, row=row))
        err = float(np.max(np.abs(np.asarray(shift, dtype=float) - np.asarray(ed, dtype=float))))
        if err > 0.5:
            failures.append(dict(desc, clause="Shift", observed=[round(float(x), 3) for x in shift], expected=list(ed), where=where, row=row))

    drv = cfg["driver"]
    # half of the cases search with a mask that is NOT invariant under the searched rotations: the support of all the templates,
    # grown by more than the largest displacement (so it never cuts the planted density, which it follows under each candidate)
    mask = None
    mform = _mask_form(cfg)
    if mform == "array":
        from scipy import ndimage as ndi

        sup = np.zeros_like(templates[0], dtype=bool)
        for t in templates:
            sup |= np.asarray(t) != 0
        mask = ndi.binary_dilation(sup, iterations=int(MAX_SHIFT) + 1).astype(np.float32)
    elif mform == "function":
        # the mask is a FUNCTION of the template (a callable for a model, an ImageConverter for a loader)
        if drv in ("model", "model_range"):
            mask = _thr_mask
        else:
            from acryo import pipe

            mask = pipe.converter_function(lambda img, scale: _thr_mask(img))()
    desc["mask_form"] = mform
    desc["mask"] = mask is not None
    if drv in ("model", "model_range"):
        sub = _subvolume(case, j, k, d)
        model = cls(templates if T > 1 else templates[0], mask, rotations=rots)
        sub_before = np.array(sub, copy=True)
        res = engine.api(model.align, sub, (MAX_SHIFT,) * 3)
        check(int(res.label) % T, res.quat, res.shift, "Model.align")
        if not np.array_equal(sub, sub_before):
            failures.append(dict(desc, clause="InputImageChanged", where="Model.align"))
        res2 = engine.api(model.align, sub_before, (MAX_SHIFT,) * 3)       # the same model asked again gives the same answer
        if int(res2.label) != int(res.label) or float(np.max(np.abs(np.asarray(res2.shift) - np.asarray(res.shift)))) > 1e-6:
            failures.append(dict(desc, clause="SecondCallDiffers", where="Model.align"))
        return dict(failures=failures)

    # loader-level drivers: a tomogram with planted sub-volumes at integer positions, identity poses
    from acryo import Molecules, SubtomogramLoader
    import polars as pl

    # decoy rows so that a row mix-up is visible; each row has its own (j,k,d)
    rows = [(j, k, d), ((j + 1) % T, (k + 1) % K, [0, 0, 0]), (j, (k + 1) % K, [-x for x in d])]
    tomo = np.zeros((24, 24, 56), dtype=np.float32)
    centres = [(12, 12, 10 + 18 * i) for i in range(len(rows))]
    for (jj, kk, dd), c in zip(rows, centres):
        paste(tomo, _subvolume(case, jj, kk, dd), c)
    mole = Molecules(np.array(centres, dtype=np.float32), features=pl.DataFrame({"g": [0, 1, 0]}))
    loader = SubtomogramLoader(tomo, mole, order=1, scale=1.0)
    kw = dict(max_shifts=(MAX_SHIFT,) * 3, alignment_model=cls, rotations=rots)
    if mask is not None and drv in ("loader_stack", "loader_multi", "loader_range"):
        kw["mask"] = mask
    if drv == "loader_stack":
        out = [engine.api(loader.align, np.stack(templates, axis=0), **kw).molecules]
        order = [[0, 1, 2]]
    elif drv == "loader_multi":
        out = [engine.api(loader.align_multi_templates, templates, **kw).molecules]
        order = [[0, 1, 2]]
    elif drv == "loader_range":
        if T > 1:
            out = [engine.api(loader.align_multi_templates, templates, **kw).molecules]
        else:
            out = [engine.api(loader.align, templates[0], **kw).molecules]
        order = [[0, 1, 2]]
    elif drv in ("group_list", "group_map", "group_map_hetero", "group_map_factory"):
        grp = loader.groupby("g")
        if drv == "group_map_factory":
            # ONE model factory (Model.with_params) serves both groups, whose template lists hold the same images in
            # OPPOSITE order: each group's labels refer to its own list
            targ = {0: templates, 1: templates[::-1]}
            kw = dict(max_shifts=(MAX_SHIFT,) * 3, alignment_model=cls.with_params(rotations=rots))
        elif drv == "group_map_hetero":
            # the groups search template lists of DIFFERENT lengths: one group gets an extra decoy template at the end
            longer = templates + [asym_template(T)]
            targ = {0: templates, 1: longer} if j % 2 == 0 else {0: longer, 1: templates}
        else:
            targ = templates if drv == "group_list" else {0: templates, 1: templates}
        res = engine.api(grp.align_multi_templates, targ, **kw)
        got = engine.api(lambda: {key: ldr.molecules for key, ldr in res})
        out = [got[0], got[1]]
        order = [[0, 2], [1]]
    else:
        raise ValueError(drv)
    for mol, idxs in zip(out, order):
        if len(mol) != len(idxs):
            failures.append(dict(desc, clause="RowCount", observed=len(mol), expected=len(idxs), where=drv))
            continue
        feats = mol.features
        quats = mol.quaternion()
        for r, src in enumerate(idxs):
            jj, kk, dd = rows[src]
            if "labels" in feats.columns:
                lab = int(feats["labels"][r])
            elif T == 1:
                lab = 0
            else:
                failures.append(dict(desc, clause="LabelColumnMissing", where=drv))
                continue
            shift = [float(feats["align-dz"][r]), float(feats["align-dy"][r]), float(feats["align-dx"][r])]
            erot = Rotation.from_matrix(np.array(case["rots"][kk], dtype=float))
            if drv == "group_map_factory" and src == 1:      # row 1 is the molecule of group 1 (reversed template list)
                jj = T - 1 - jj
            check(lab, quats[r], shift, drv, row=src, exp=(jj, erot, dd))
    return dict(failures=failures)


# ------------------------------------------------------------------ spec/RotGrid.tla: what a (max, step) request denotes
def _req_arg(case):
    r = case["r"]
    if case["form"] == "scalar":
        return (r[0][0], r[0][1])
    return tuple((a, b) for a, b in r)


def _compose(t):
    """Materialise the specification's Rz(az) o Ry(ay) o Rx(ax): elementary rotation vectors angle * e_axis in z,y,x components."""
    from scipy.spatial.transform import Rotation

    z, y, x = (float(np.deg2rad(a)) for a in t)
    return Rotation.from_rotvec([z, 0, 0]) * Rotation.from_rotvec([0, y, 0]) * Rotation.from_rotvec([0, 0, x])


GRID_SHIFTS = ([0, 0, 0], [1, -1, 0], [-1, 0, 2], [2, 2, -2], [0, -2, 1])


def replay_grid(case) -> dict:
    from scipy.spatial.transform import Rotation

    req = _req_arg(case)
    grid = case["grid"]
    n = case["count"]
    mats = case.get("mats") or []
    desc = dict(family="rotgrid", form=case["form"], r=case["r"], count=n)
    fails = []
    if mats:        # the harness's materialisation of an angle triple must agree with the specification's exact matrices
        for i, t in enumerate(grid):
            if geodesic_deg(_compose(t), Rotation.from_matrix(np.array(mats[i], dtype=float))) > 1e-6:
                return dict(machinery_error=f"harness materialisation of {t} differs from RotGrid.RotOf")
    tmpl = asym_template(0)
    names = ("ZNCC", "NCC", "PCC")
    which = (n + sum(a + b for a, b in case["r"])) % 3
    cls = _model_cls(names[which])
    for route in ("ctor", "with_params", "ctor_list"):
        try:
            if route == "ctor":
                quats = engine.api(lambda: cls(tmpl, rotations=req).quaternions)
            elif route == "with_params":
                quats = engine.api(lambda: cls.with_params(rotations=req).quaternions)
            else:   # the same request as lists (a user reading it from a JSON / YAML file)
                quats = engine.api(lambda: cls(tmpl, rotations=[list(p) for p in req] if case["form"] == "triple" else list(req)).quaternions)
        except engine.ApiRaised as e:
            fails.append(dict(desc, clause="Raised", route=route, error=e.kind, message=e.msg[:200]))
            continue
        quats = np.asarray(quats)
        if quats.ndim != 2 or quats.shape[1] != 4 or quats.shape[0] != n:
            fails.append(dict(desc, clause="GridCount", route=route, observed=list(quats.shape), expected=n))
            continue
        got = Rotation.from_quat(quats.astype(np.float64))
        worst, at = 0.0, -1
        for i, t in enumerate(grid):
            a = geodesic_deg(got[i], _compose(t))
            if a > worst:
                worst, at = a, i
        if worst > 0.05:
            fails.append(dict(desc, clause="GridCandidate", route=route, index=at, angles=grid[at], off_by_deg=round(worst, 3)))
        c = case["centre"] - 1
        if got[c].magnitude() > 1e-3:
            fails.append(dict(desc, clause="IdentityNotAtCentre", route=route))
    if n == 1:
        # the same one-candidate set given as a Rotation OBJECT: stacked (length 1) or single (not stacked) - a set of one rotation
        for form, robj in (("stacked", Rotation.identity(1)), ("single", Rotation.identity())):
            try:
                model = engine.api(cls, tmpl, rotations=robj)
                q = np.asarray(engine.api(lambda: model.quaternions))
                res = engine.api(model.align, apply_rot24(tmpl, np.eye(3, dtype=int), [1, -1, 0]), (MAX_SHIFT,) * 3)
            except engine.ApiRaised as e:
                fails.append(dict(desc, clause="Raised", route="rotation_object_" + form, error=e.kind, message=e.msg[:200]))
                continue
            if q.shape != (1, 4) or Rotation.from_quat(q[0]).magnitude() > 1e-3:
                fails.append(dict(desc, clause="GridCount", route="rotation_object_" + form, observed=list(q.shape), expected=1))
            elif float(np.max(np.abs(np.asarray(res.shift, dtype=float) - np.array([1.0, -1.0, 0.0])))) > 0.5:
                fails.append(dict(desc, clause="Shift", route="rotation_object_" + form, observed=[round(float(x), 3) for x in res.shift], expected=[1, -1, 0]))
    # every candidate of a small quarter-turn grid, planted and searched for
    plant = case.get("plant") or []
    for k1, first in enumerate(plant, start=1):
        M = np.array(mats[k1 - 1])
        d = GRID_SHIFTS[(k1 + n) % len(GRID_SHIFTS)]
        sub = apply_rot24(tmpl, M, d)
        try:
            model = cls(tmpl, rotations=req)
            res = engine.api(model.align, sub, (MAX_SHIFT,) * 3)
        except engine.ApiRaised as e:
            fails.append(dict(desc, clause="Raised", route="align", k=k1 - 1, error=e.kind, message=e.msg[:200]))
            continue
        ang = geodesic_deg(Rotation.from_quat(res.quat), Rotation.from_matrix(M.astype(float)))
        if ang > 0.05:
            fails.append(dict(desc, clause="PlantedCandidateNotReported", k=k1 - 1, first_same=first - 1, label=int(res.label), off_by_deg=round(ang, 3)))
        elif float(np.max(np.abs(np.asarray(res.shift, dtype=float) - np.asarray(d, dtype=float)))) > 0.5:
            fails.append(dict(desc, clause="Shift", k=k1 - 1, observed=[round(float(x), 3) for x in res.shift], expected=d))
        elif int(res.label) != k1 - 1 and not np.array_equal(np.array(mats[int(res.label)]), M):
            fails.append(dict(desc, clause="LabelNamesAnotherRotation", k=k1 - 1, label=int(res.label)))
    return dict(failures=fails, classes={"grid_requests": 1, "grid_planted": len(plant)})


def _gkey(case):
    return ("rotgrid", case["form"], json.dumps(case["r"]))


def _gstratum(case):
    return (case["form"], case["quarter"], min(case["count"], 30), len(case.get("plant") or []) > 0)


def _key(case):
    c = case["cfg"]
    return (c["T"], c["K"], c["j"], c["k"], c["d"], c["driver"], c["model"], c["rs"])


def _stratum(case):
    c = case["cfg"]
    return (c["T"], c["K"], c["driver"], c["model"], c["rs"])


def run(rep: engine.Report, tier: str, seed: int):
    res = rep.add_tlc(engine.tlc("AlignCand", "MC_C06", workers=1, coverage=True))
    engine.check_not_vacuous(res, ["Gen", "Opt", "ArgMax", "Decode"])
    cases = res.emitted
    if not cases:
        raise engine.MachineryError("AlignCand emitted no cases")
    budget = 420 if tier == "quick" else len(cases)
    big = [c for c in cases if c["cfg"]["T"] * c["cfg"]["K"] > 256]
    small = [c for c in cases if c["cfg"]["T"] * c["cfg"]["K"] <= 256]
    hi = [c for c in big if c["expect"]["flat"] >= 256]
    big_quick = [next(c for c in hi if c["cfg"]["driver"] == "loader_multi"), next(c for c in hi if c["cfg"]["driver"] == "model")] if hi else []
    sel = engine.stratified_sample(small, _stratum, budget, seed) + (big if tier != "quick" else big_quick)
    rep.exhaustive = len(sel) == len(cases)
    rep.rule = (
        "TLC enumerates every (T<=3 templates, K<=4 rotations, planted j,k, shift tag, driver, model) plus searches with 11 templates x 24 "
        "rotations (264 candidates, flat index beyond one byte); "
        "each case plants template j rotated by searched rotation k (exact Rot24 voxel permutation) and "
        "displaced by an integer shift, and drives Model.align / loader.align / align_multi_templates / "
        "LoaderGroup.align_multi_templates; non-trivial = distinct (T,K,j,k,d,driver,model); "
        f"{len(cases)} emitted, {len(sel)} replayed (stratified by T,K,driver,model)"
    )
    results = engine.parallel_replay("harness.props.c06", "replay", sel)
    engine.collect(rep, sel, results, key=_key)
    # spec/RotGrid.tla: the candidate list a (max, step) request denotes
    rg = rep.add_tlc(engine.tlc("MC_RotGrid", "MC_RotGrid", workers=1))
    gcases = rg.emitted
    if len(gcases) < 700:
        raise engine.MachineryError(f"RotGrid emitted {len(gcases)} requests")
    gsel = engine.stratified_sample(gcases, _gstratum, 120 if tier == "quick" else len(gcases), seed)
    rep.rule += (f"; RotGrid: {len(gcases)} range requests (9 per-axis (max, step) pairs, triples and the scalar form) with the angle grid "
                 f"TLC computed, {len(gsel)} replayed on Model(...).quaternions / with_params / list form, every candidate of every quarter-turn grid "
                 "of <= 27 candidates planted and searched for")
    rep.exhaustive = rep.exhaustive and len(gsel) == len(gcases)
    gres = engine.parallel_replay("harness.props.c06", "replay", gsel)
    engine.collect(rep, gsel, gres, key=_gkey)
    rep.traces_validated = rep.evaluations
    rep.assumptions += [
        "asymmetric integer templates (5^3 core in a 9^3 box) have a unique best candidate",
        "Model.align's label is the flat candidate index; the template is label mod T",
    ]


def replay_file(path: str) -> int:
    v = json.loads(open(path).read())
    r = replay(v["case"])
    print(json.dumps(r, indent=1, default=str))
    return 1 if r["failures"] else 0


def selftest() -> int:
    """The comparator must reject a corrupted expectation."""
    res = engine.tlc("AlignCand", "MC_C06", workers=1)
    case = next(c for c in res.emitted if c["cfg"]["T"] == 2 and c["cfg"]["K"] == 1 and c["cfg"]["driver"] == "model" and c["cfg"]["model"] == "ZNCC" and c["cfg"]["rs"] == "B")
    good = replay(case)
    bad = json.loads(json.dumps(case))
    bad["cfg"]["j"] = 1 - bad["cfg"]["j"]  # expect the other template while planting the original one
    bad2 = dict(bad)
    r = replay_with_expect(case, bad["cfg"]["j"])
    ok = (not good["failures"]) and bool(r["failures"])
    # RotGrid binding: an expectation with y and x exchanged, and one with a candidate missing, must both be rejected
    rg = engine.tlc("MC_RotGrid", "MC_RotGrid", workers=1)
    g = next(c for c in rg.emitted if c["form"] == "triple" and c["r"] == [[90, 90], [0, 0], [180, 90]])
    ok = ok and not replay_grid(g)["failures"]
    swapped = json.loads(json.dumps(g))
    swapped["grid"] = [[t[0], t[2], t[1]] for t in g["grid"]]
    swapped["mats"], swapped["plant"] = [], []
    short = json.loads(json.dumps(g))
    short["grid"], short["count"], short["mats"], short["plant"] = g["grid"][:-1], g["count"] - 1, [], []
    ok = ok and any(f["clause"] == "GridCandidate" for f in replay_grid(swapped)["failures"])
    ok = ok and any(f["clause"] == "GridCount" for f in replay_grid(short)["failures"])
    print("selftest C06:", "ok" if ok else "FAILED")
    return 0 if ok else 2


def replay_with_expect(case, wrong_j):
    """Plant according to case but compare against a corrupted expectation."""
    from scipy.spatial.transform import Rotation

    cfg = case["cfg"]
    sub = _subvolume(case, cfg["j"], cfg["k"], case["shift"])
    templates = _templates(cfg)
    model = _model_cls(cfg["model"])(templates if cfg["T"] > 1 else templates[0], rotations=_rot_arg(case))
    res = model.align(sub, (MAX_SHIFT,) * 3)
    return dict(failures=[] if int(res.label) % cfg["T"] == wrong_j else [dict(clause="Label")])
