"""C10 - results do not depend on dask scheduling, threading or chunking.

spec/Sched.tla: the atomic steps of the shared template cache for every interleaving of 2-3 worker
threads, in the repaired design (invariants NoSpuriousError, ResultsAgree, CacheBounded) and in the
historical design (whose error traces are kept as regression schedules); spec/TaskOrder.tla: every
start/end order of the per-molecule tasks under W workers.
Conformance: (S) every schedule TLC emits is replayed deterministically on real threads calling
model.align, with the cache's dict wrapped so that each primitive operation is a yield point;
(O) every task order is enforced on real loader computations by gating the per-molecule function;
plus real schedulers (synchronous, threads 1..16 with a minimal switch interval), tomogram chunkings
and numpy-vs-dask inputs, all compared bit for bit with the synchronous result; and declared vs
computed shapes of lazily constructed arrays.
"""
from __future__ import annotations

import json
import sys
import threading

import numpy as np

from harness import engine

PROP = "C10"
LEVEL = "model_checking"


# ----------------------------------------------------------------------------- (S)
class Sched:
    """Serialises threads at yield points and follows a schedule (sequence of thread names)."""

    def __init__(self, schedule):
        self.schedule = list(schedule)
        self.sem = {}
        self.ctrl = threading.Semaphore(0)
        self.log = []
        self.done = set()

    def register(self, name):
        self.sem[name] = threading.Semaphore(0)

    def yield_point(self, op):
        name = threading.current_thread().name
        if name not in self.sem:
            return
        self.log.append((name, op))
        self.ctrl.release()
        self.sem[name].acquire()

    def finish(self):
        self.done.add(threading.current_thread().name)
        self.ctrl.release()

    def run(self, threads):
        for t in threads:
            t.start()
        for _ in threads:
            self.ctrl.acquire()
        for name in self.schedule:
            if name in self.done:
                continue
            self.sem[name].release()
            self.ctrl.acquire()
        while len(self.done) < len(threads):
            for t in threads:
                if t.name not in self.done:
                    self.sem[t.name].release()
                    self.ctrl.acquire()
        for t in threads:
            t.join()


class TracedDict(dict):
    """A real dict whose primitive operations are yield points (CPython's own iterator checks stay real)."""

    def __init__(self, inner, sched):
        super().__init__(inner)
        self._s = sched

    def get(self, k, default=None):
        self._s.yield_point("lookup")
        return super().get(k, default)

    def __setitem__(self, k, v):
        self._s.yield_point("insert")
        super().__setitem__(k, v)

    def values(self):
        outer = self
        real = super().values()

        class V:
            def __iter__(s2):
                outer._s.yield_point("iter_new")
                it = iter(real)

                class I:
                    def __iter__(s3):
                        return s3

                    def __next__(s3):
                        outer._s.yield_point("iter_next")
                        return next(it)

                return I()

            def __len__(s2):
                return len(real)

        return V()


def replay_schedule(case) -> dict:
    from acryo.alignment import PCCAlignment, ZNCCAlignment
    from acryo.backend import Backend

    rng = np.random.default_rng(5)
    t = rng.normal(size=(6, 6, 6)).astype(np.float32)
    subs = {1: rng.normal(size=(6, 6, 6)).astype(np.float32), 2: rng.normal(size=(6, 6, 6)).astype(np.float32), 3: rng.normal(size=(6, 6, 6)).astype(np.float32)}
    M = ZNCCAlignment if case["_i"] % 2 == 0 else PCCAlignment
    ref_model = M(t)
    ref = {w: ref_model.align(subs[w], (1.0, 1.0, 1.0)) for w in subs}
    m = M(t)
    names = sorted({str(w) for w in case["schedule"]})
    s = Sched([str(w) for w in case["schedule"]])
    m._template_mask_cache._dict = TracedDict(m._template_mask_cache._dict, s)
    shared = Backend()
    res = {}

    def work(w):
        try:
            be = shared if case["keymode"] == "shared" else Backend()
            r = m.align(subs[w], (1.0, 1.0, 1.0), backend=be)
            res[w] = ("ok", r)
        except Exception as e:  # noqa: BLE001
            res[w] = ("err", type(e).__name__ + ": " + str(e)[:80])
        finally:
            s.finish()

    ths = [threading.Thread(target=work, args=(int(n),), name=n) for n in names]
    for n in names:
        s.register(n)
    s.run(ths)
    fails = []
    desc = dict(part="schedule", design_of_schedule=case["design"], keymode=case["keymode"], schedule="".join(str(w) for w in case["schedule"]),
                model=M.__name__, model_predicts_error=case["error"])
    for w, (st, r) in res.items():
        if st == "err":
            fails.append(dict(desc, clause="NoSpuriousError", worker=w, error=r))
        elif not (np.array_equal(np.asarray(r.shift), np.asarray(ref[w].shift)) and float(r.score) == float(ref[w].score)):
            fails.append(dict(desc, clause="ResultsAgree", worker=w))
    return dict(failures=fails, classes={"yield_points": len(s.log)})


# ----------------------------------------------------------------------------- (O)
class Gate:
    """Enforces a start/end event order on tasks identified by an integer id."""

    def __init__(self, events):
        self.events = events
        self.pos = 0
        self.cv = threading.Condition()
        self.failed = False

    def _wait_for(self, ev, i):
        with self.cv:
            ok = self.cv.wait_for(lambda: self.failed or (self.pos < len(self.events) and self.events[self.pos]["ev"] == ev and self.events[self.pos]["i"] == i), timeout=900)
            if not ok:
                self.failed = True
                self.cv.notify_all()
                raise RuntimeError("gate timeout (machinery)")
            self.pos += 1
            self.cv.notify_all()

    def start(self, i):
        self._wait_for("start", i)

    def end(self, i):
        self._wait_for("end", i)


def _loader(n, chunks=None, seed=3, dtype="float32", layout="ascending"):
    import dask.array as da
    from acryo import Molecules, SubtomogramLoader
    from scipy.spatial.transform import Rotation

    rng = np.random.default_rng(seed)
    tomo = rng.normal(size=(26, 26, 14 * n + 12)).astype(np.float32)
    # the centre voxel of molecule i's neighbourhood carries its id (for the gate)
    pos = np.array([[13, 13, 12 + 14 * i] for i in range(n)], dtype=np.float32)
    for i, p in enumerate(pos):
        tomo[tuple(p.astype(int))] = 100.0 + i
    # orientations come in mutually inverse pairs (q and its conjugate differ only in signs), so that per-orientation
    # state that is keyed too coarsely (|q|, rounded angles ...) makes the result depend on which task ran first
    base = [Rotation.from_euler("zyx", [10 * (i + 1), 5 + 3 * i, -7 * (i + 1)], degrees=True) for i in range((n + 1) // 2)]
    rot = Rotation.concatenate([r if j == 0 else r.inv() for r in base for j in (0, 1)][:n])
    if dtype != "float32":
        # other voxel types (int16 is the usual MRC mode): the numpy and the dask form of the SAME volume give the same results
        tomo = np.round(tomo * 100).astype(dtype) if dtype.startswith("int") else tomo.astype(dtype)
    img = tomo if chunks is None else da.from_array(tomo, chunks=chunks)
    mole = Molecules(pos, rot)
    if layout == "cycle" and n >= 5:
        # the molecule table is NOT in the order of the positions: the permutation that sorts it by position (or by the chunk
        # holding each molecule) has a 3-cycle and a 2-cycle, so it is neither the identity nor its own inverse
        mole = mole.subset([3, 0, 4, 1, 2] + list(range(5, n)))
    return SubtomogramLoader(img, mole, order=1, output_shape=(7, 7, 7)), tomo


def _ops(loader, M, gate_fn=None):
    """The per-molecule computations of the property, as (name, thunk) pairs returning numpy arrays."""
    rng = np.random.default_rng(9)
    tmpl = rng.normal(size=(7, 7, 7)).astype(np.float32)

    def stat(sub):
        if gate_fn:
            return gate_fn(sub, lambda: float(np.sum(sub * sub)))
        return float(np.sum(sub * sub))

    stat.__name__ = "stat"

    # several functions in one apply(): every function is given the sub-volume itself, whatever another function does to ITS
    # argument (a user function may normalise the array it receives in place)
    def norm_inplace(sub):
        sub[...] = sub - sub.min()          # in place, whatever the voxel type
        sub[0, 0, 0] = 0
        return float(sub[3, 3, 3])

    def plain_sum(sub):
        return float(np.sum(sub))

    def plain_max(sub):
        return float(np.max(sub))

    def apply3():
        df = loader.apply([plain_sum, norm_inplace, plain_max])
        alone = [loader.apply(f)[f.__name__].to_numpy() for f in (plain_sum, norm_inplace, plain_max)]
        got = [df[f.__name__].to_numpy() for f in (plain_sum, norm_inplace, plain_max)]
        # the values each function gives when it is the only one, then those of the joint call
        return np.concatenate(alone + got)

    out = [
        ("apply3", apply3),
        ("asnumpy", lambda: loader.asnumpy()),
        # a binned loader of the same tomogram: the block sums do not depend on how the tomogram is chunked
        ("binned_asnumpy", lambda: loader.binning(2, compute=False).asnumpy()),
        ("average", lambda: loader.average()),
        ("apply", lambda: loader.apply(stat)["stat"].to_numpy()),
        ("align", lambda: _mol_array(loader.align(tmpl, max_shifts=1.5, alignment_model=M))),
        ("score", lambda: np.asarray(loader.score([tmpl], alignment_model=M)[0])),
        ("landscape", lambda: loader.construct_landscape(tmpl, max_shifts=1.0, alignment_model=M).compute()),
        # with a missing-wedge model every task uses its own molecule's orientation on the SHARED template
        ("align_tilt", lambda: _mol_array(loader.align(tmpl, max_shifts=1.5, alignment_model=M, tilt=(-50.0, 60.0), cutoff=0.4))),
        ("score_tilt", lambda: np.asarray(loader.score([tmpl], alignment_model=M, tilt=(-50.0, 60.0))[0])),
    ]
    return out


def _one_at_a_time(loader, M):
    """Order-free reference: every molecule aligned / scored alone with a fresh model."""
    rng = np.random.default_rng(9)
    tmpl = rng.normal(size=(7, 7, 7)).astype(np.float32)
    al, sc = [], []
    for i in range(loader.count()):
        one = loader.replace(molecules=loader.molecules.subset([i]))
        al.append(_mol_array(one.align(tmpl, max_shifts=1.5, alignment_model=M, tilt=(-50.0, 60.0), cutoff=0.4)))
        sc.append(np.asarray(one.score([tmpl], alignment_model=M, tilt=(-50.0, 60.0))[0]))
    n = loader.count()
    a = np.stack(al)  # (n, 3 + 4 + 1)
    return dict(align_tilt=np.concatenate([a[:, 0:3].ravel(), a[:, 3:7].ravel(), a[:, 7]]), score_tilt=np.concatenate(sc))


def _mol_array(ldr):
    f = ldr.molecules.features
    return np.concatenate([np.asarray(ldr.molecules.pos, dtype=np.float64).ravel(), ldr.molecules.quaternion().ravel(),
                           f["score"].to_numpy().astype(np.float64)])


def replay_order(case) -> dict:
    import dask
    from acryo.alignment import ZNCCAlignment

    n = case["n"]
    loader, tomo = _loader(n)
    with dask.config.set(scheduler="synchronous"):
        ref = {k: np.asarray(f()) for k, f in _ops(loader, ZNCCAlignment) if k in ("apply",)}
    gate = Gate(case["events"])

    def gate_fn(sub, compute):
        i = int(round(float(np.asarray(sub)[3, 3, 3]))) - 100 + 1
        gate.start(i)
        try:
            return compute()
        finally:
            gate.end(i)

    fails = []
    desc = dict(part="order", n=n, w=case["w"], events="".join(("s" if e["ev"] == "start" else "e") + str(e["i"]) for e in case["events"]))
    with dask.config.set(scheduler="threads", num_workers=n + 2):
        try:
            got = dict(apply=np.asarray(dict(_ops(loader, ZNCCAlignment, gate_fn))["apply"]()))
        except Exception as e:  # noqa: BLE001
            if "machinery" in str(e):
                raise
            fails.append(dict(desc, clause="NoSpuriousError", error=type(e).__name__ + ": " + str(e)[:80]))
            got = {}
    for k, v in got.items():
        if not np.array_equal(v, ref[k]):
            fails.append(dict(desc, clause="ResultsIndependentOfOrder", op=k))
    return dict(failures=fails)


# ----------------------------------------------------------------------------- real schedulers / chunkings / shapes
def replay_real(case) -> dict:
    import dask
    from acryo.alignment import NCCAlignment, PCCAlignment, ZNCCAlignment

    from acryo.alignment import FSCAlignment

    if case["part"] == "mock":
        return replay_mock(case)
    M = dict(ZNCC=ZNCCAlignment, NCC=NCCAlignment, PCC=PCCAlignment, FSC=FSCAlignment)[case["model"]]
    n = case["n"]
    dt = case.get("dtype", "float32")
    lay = case.get("layout", "ascending")
    loader0, tomo = _loader(n, dtype=dt, layout=lay)
    with dask.config.set(scheduler="synchronous"):
        ref = {k: np.asarray(f()) for k, f in _ops(loader0, M)}
        # results are a function of each task's own inputs: the batch must equal one-molecule-at-a-time runs
        ref.update(_one_at_a_time(_loader(n, dtype=dt, layout=lay)[0], M))
    fails = []
    desc = dict(part=case["part"], model=case["model"], n=n, scheduler=case.get("scheduler"), workers=case.get("workers"), chunks=case.get("chunks"),
                dtype=case.get("dtype", "float32"), layout=lay)
    half = len(ref["apply3"]) // 2
    if not np.array_equal(ref["apply3"][:half], ref["apply3"][half:]):
        fails.append(dict(desc, clause="ApplyGivesEachFunctionItsOwnSubvolume", scheduler_of="synchronous"))
    if case["part"] == "scheduler":
        old = sys.getswitchinterval()
        sys.setswitchinterval(1e-6)
        try:
            kw = dict(scheduler=case["scheduler"])
            if case.get("workers"):
                kw["num_workers"] = case["workers"]
            for rep in range(case.get("repeat", 1)):
                loader, _ = _loader(n)
                with dask.config.set(**kw):
                    for k, f in _ops(loader, M):
                        try:
                            v = np.asarray(f())
                        except Exception as e:  # noqa: BLE001
                            fails.append(dict(desc, clause="NoSpuriousError", op=k, error=type(e).__name__ + ": " + str(e)[:80]))
                            continue
                        if v.shape != ref[k].shape or not np.array_equal(v, ref[k]):
                            fails.append(dict(desc, clause="SchedulerIndependent", op=k, maxdiff=float(np.max(np.abs(v - ref[k]))) if v.shape == ref[k].shape else None))
        finally:
            sys.setswitchinterval(old)
    elif case["part"] == "chunks":
        loader, _ = _loader(n, chunks=tuple(case["chunks"]), dtype=dt, layout=lay)
        for k, f in _ops(loader, M):
            v = np.asarray(engine.api(f))
            if v.shape != ref[k].shape or not np.array_equal(v, ref[k]):
                fails.append(dict(desc, clause="ChunkingIndependent", op=k, maxdiff=float(np.max(np.abs(v - ref[k]))) if v.shape == ref[k].shape else None))
    else:  # declared shapes
        rng = np.random.default_rng(1)
        tmpl = rng.normal(size=(7, 7, 7)).astype(np.float32)
        loader = loader0
        d = loader.construct_dask()
        if d.shape != d.compute().shape:
            fails.append(dict(desc, clause="DeclaredShape", what="construct_dask", declared=list(d.shape)))
        for ms in case["limits"]:
            for up in (1, 2, 3):
                for rots in (None, ((10, 10), (0, 0), (0, 0))):
                    kw = dict(max_shifts=ms, alignment_model=M, upsample=up)
                    if rots:
                        kw["rotations"] = rots
                    a = engine.api(loader.construct_landscape, tmpl, **kw)
                    c = a.compute()
                    if tuple(a.shape) != tuple(c.shape):
                        fails.append(dict(desc, clause="DeclaredShape", what="construct_landscape", declared=list(a.shape), computed=list(c.shape), max_shifts=ms, upsample=up))
    return dict(failures=fails)


# process-global random streams are shared state of the tasks: every legacy numpy.random call is made a point at which the
# calling thread gives the others a turn (the real counterpart of a TaskOrder step boundary).  Code that draws from private
# generators never reaches one of these points.
_GLOBAL_RNG_CALLS = ("seed", "normal", "standard_normal", "random", "random_sample", "rand", "randn", "uniform", "poisson", "randint", "choice", "shuffle", "permutation")


class _YieldAtGlobalRng:
    def __enter__(self):
        import time

        self.saved = {}
        for name in _GLOBAL_RNG_CALLS:
            f = getattr(np.random, name, None)
            if f is None:
                continue
            self.saved[name] = f

            def wrapped(*a, _f=f, **k):
                out = _f(*a, **k)
                time.sleep(0.01)
                return out

            setattr(np.random, name, wrapped)
        return self

    def __exit__(self, *exc):
        for name, f in self.saved.items():
            setattr(np.random, name, f)


def replay_mock(case) -> dict:
    """Simulated sub-volumes (MockLoader, projection noise): the per-molecule noise must not depend on which task ran when."""
    import dask
    from acryo import Molecules
    from acryo.loader import MockLoader
    from scipy.spatial.transform import Rotation

    rng = np.random.default_rng(4)
    tmpl = np.zeros((9, 9, 9), np.float32)
    tmpl[2:7, 3:6, 3:7] = rng.normal(size=(5, 3, 4)) + 2
    n = case["n"]
    rot = Rotation.from_euler("zyx", [[7 * i, -3 * i, 2 * i] for i in range(n)], degrees=True)
    mole = Molecules(np.zeros((n, 3), np.float32), rot)

    def ops(ld):
        return dict(asnumpy=lambda: ld.asnumpy(), average=lambda: ld.average(), apply=lambda: ld.apply(np.std)["std"].to_numpy())

    kwl = dict(noise=case["noise"], degrees=np.linspace(-60, 60, 7), order=1)
    with dask.config.set(scheduler="synchronous"):
        ref = {k: np.asarray(f()) for k, f in ops(MockLoader(tmpl, mole, **kwl)).items()}
        one = np.stack([MockLoader(tmpl, mole, **kwl).asnumpy()[i] for i in range(n)])
    fails = []
    desc = dict(part="mock", n=n, noise=case["noise"], scheduler=case["scheduler"], workers=case.get("workers"))
    if not np.array_equal(one, ref["asnumpy"]):
        fails.append(dict(desc, clause="SimulationRepeatable"))
    old = sys.getswitchinterval()
    sys.setswitchinterval(1e-6)
    try:
        kw = dict(scheduler=case["scheduler"])
        if case.get("workers"):
            kw["num_workers"] = case["workers"]
        for r in range(case.get("repeat", 1)):
            with dask.config.set(**kw), _YieldAtGlobalRng():
                for k, f in ops(MockLoader(tmpl, mole, **kwl)).items():
                    try:
                        v = np.asarray(f())
                    except Exception as e:  # noqa: BLE001
                        fails.append(dict(desc, clause="NoSpuriousError", op=k, error=type(e).__name__ + ": " + str(e)[:80]))
                        continue
                    if v.shape != ref[k].shape or not np.array_equal(v, ref[k]):
                        fails.append(dict(desc, clause="SchedulerIndependent", op="mock_" + k, maxdiff=float(np.max(np.abs(v - ref[k]))) if v.shape == ref[k].shape else None))
    finally:
        sys.setswitchinterval(old)
    return dict(failures=fails)


def replay(case) -> dict:
    p = case.get("part")
    if p == "schedule":
        return replay_schedule(case)
    if p == "order":
        return replay_order(case)
    return replay_real(case)


def run(rep: engine.Report, tier: str, seed: int):
    quick = tier == "quick"
    scheds = []
    for cfg in ("MC_C10_fixed_shared", "MC_C10_fixed_pertask", "MC_C10_fixed_other", "MC_C10_v0416_shared", "MC_C10_v0416_pertask", "MC_C10_v0416_other"):
        r = rep.add_tlc(engine.tlc("Sched", cfg, workers=1, expect_ok=True))
        scheds += r.emitted
    rep.add_tlc(engine.tlc("Sched", "MC_C10_fixed3", timeout=600))
    orders = rep.add_tlc(engine.tlc("TaskOrder", "MC_C10_order", workers=1)).emitted
    # random streams of concurrent tasks: private generators hold, one re-seeded global stream must be rejected
    rep.add_tlc(engine.tlc("TaskStream", "MC_C10_stream_private"))
    hz = engine.tlc("TaskStream", "MC_C10_stream_shared", expect_ok=False)
    if hz.violated != "EachTaskDrawsItsOwnNoise":
        raise engine.MachineryError("TaskStream.tla: the shared-stream design was not rejected by TLC (vacuous invariant?)")
    rep.notes.append("TaskStream.tla: shared re-seeded global stream rejected by TLC (EachTaskDrawsItsOwnNoise violated), as it must be")
    if not scheds or not orders:
        raise engine.MachineryError("C10: no schedules emitted")
    cases = []
    for i, s in enumerate(scheds):
        cases.append(dict(s, part="schedule", _i=i))
    for o in orders:
        cases.append(dict(o, part="order"))
    for model in ("ZNCC", "PCC", "FSC") if quick else ("ZNCC", "NCC", "PCC", "FSC"):
        for sch, wk in (("synchronous", None), ("threads", 1), ("threads", 2), ("threads", 4), ("threads", 16)):
            cases.append(dict(part="scheduler", model=model, n=5, scheduler=sch, workers=wk, repeat=2 if quick else 6))
        for ch in ((26, 26, 82), (13, 13, 20), (7, 26, 9), (26, 5, 41)):
            cases.append(dict(part="chunks", model=model, n=5, chunks=list(ch)))
        for ch in ((13, 13, 20), (26, 26, 14)):
            cases.append(dict(part="chunks", model=model, n=5, chunks=list(ch), layout="cycle"))
        for dt in ("int16", "float64"):
            cases.append(dict(part="chunks", model=model, n=5, chunks=[13, 13, 20], dtype=dt))
            cases.append(dict(part="chunks", model=model, n=5, chunks=[26, 26, 82], dtype=dt))
        cases.append(dict(part="shapes", model=model, n=2, limits=[1.0, 1.5, 0.4, (1.2, 2.0, 0.5)]))
    # declared shapes where the models differ in how they turn max_shifts into a search window: FSC (whole pixels, rounded up),
    # PCC (clipped to the box), limits at and beyond half the 7-voxel box
    for model in ("FSC", "PCC", "ZNCC"):
        cases.append(dict(part="shapes", model=model, n=2, limits=[0.6, 2.5, 4.0, (3.6, 1.2, 5.0)]))
    for sch, wk in (("synchronous", None), ("threads", 2), ("threads", 4), ("threads", 16)):
        for noise in (0.0, 0.5):
            cases.append(dict(part="mock", n=6, noise=noise, scheduler=sch, workers=wk, repeat=1 if quick else 3))
    results = engine.parallel_replay("harness.props.c10", "replay", cases, sync_dask=False, procs=8)
    engine.collect(rep, cases, results, key=lambda c: {k: v for k, v in c.items() if k != "_i"})
    rep.traces_validated = len(scheds) + len(orders)
    rep.samples = [scheds[0], orders[0]]
    rep.rule = (
        f"TLC explores every interleaving of the cache's atomic steps for 2 workers (3 key modes x 2 designs, {len(scheds)} maximal "
        f"schedules emitted) and 3 workers (repaired design), and every start/end order of 3 tasks under 2 workers ({len(orders)} orders); "
        "each schedule is replayed deterministically on real threads calling model.align (cache dict operations as yield points) and each "
        "order is enforced on a real loader.apply by gating the per-molecule function; plus synchronous / threaded(1,2,4,16 workers, 1 us "
        "switch interval) schedulers, 4 tomogram chunkings vs numpy, for asnumpy/average/apply/align/score/landscape compared bit for bit "
        "with the synchronous run, and declared vs computed shapes of construct_dask / construct_landscape (ZNCC/NCC/PCC/FSC, fractional limits "
        "up to beyond half the box, upsample 1-3, rotations); MockLoader (projection noise 0 / 0.5) under the same schedulers with every legacy "
        "numpy.random call turned into a thread switch point (TaskStream.tla: private streams hold, a shared re-seeded stream is rejected)"
    )
    rep.assumptions += ["yield points are the primitive dict operations of the template cache; other shared state (lru_caches, default backend) is exercised by the real threaded runs only"]


def replay_file(path: str) -> int:
    v = json.loads(open(path).read())
    r = replay(v["case"])
    print(json.dumps(r, indent=1, default=str))
    return 1 if r["failures"] else 0


def selftest() -> int:
    """The schedule replayer must reproduce a real interleaving failure on a deliberately racy dict user."""
    s = Sched(["1", "1", "2", "2", "2", "2", "1"])
    d = TracedDict({0: "a"}, s)
    res = {}

    def work(w):
        try:
            if d.get(w) is None:
                v = next(iter(d.values()), None)
                d[w] = v
            res[w] = "ok"
        except RuntimeError as e:
            res[w] = "err"
        finally:
            s.finish()

    ths = [threading.Thread(target=work, args=(int(n),), name=n) for n in ("1", "2")]
    for n in ("1", "2"):
        s.register(n)
    s.run(ths)
    ok = res.get(1) == "err" and res.get(2) == "ok"
    print("selftest C10:", "ok" if ok else f"FAILED {res}")
    return 0 if ok else 2
