"""C09 - averages are plain arithmetic means of the loaded subtomograms.

spec/Averaging.tla + AvgOps.tla: averages and half-map splits over weighted one-hot sub-volumes
in exact rational arithmetic; MC_C09.tla checks the split law over all bipartitions and that the
acceptor admits exactly the permitted splits, and enumerates the cases.  Each case is run on
real single/batch/mock loaders and groups; recorded events are judged by TLC (Trace_Avg.tla).
"""
from __future__ import annotations

import json
from fractions import Fraction

import numpy as np

from harness import engine, memo

PROP = "C09"
LEVEL = "model_checking"
BOX = (3, 3, 3)


def _sparse(img) -> list[dict]:
    a = np.asarray(img, dtype=np.float64).ravel()
    out = []
    for v in np.flatnonzero(np.abs(a) > 1e-4):
        fr = Fraction(float(a[v])).limit_denominator(720)
        if abs(float(fr) - a[v]) > 2e-5:
            fr = Fraction(int(round(a[v] * 10**6)), 10**6)  # not a small rational: let TLC reject it
        out.append({"v": int(v), "q": [fr.numerator, fr.denominator]})
    return out


def _onehot(sub):
    a = np.asarray(sub, dtype=np.float64).ravel()
    nz = np.flatnonzero(np.abs(a) > 1e-4)
    if len(nz) != 1 or abs(a[nz[0]] - round(a[nz[0]])) > 1e-3:
        raise RuntimeError(f"harness assumption broken: sub-volume is not a weighted one-hot vector ({len(nz)} non-zeros)")
    return {"v": int(nz[0]), "w": int(round(a[nz[0]]))}


def _build(case):
    import dask.array as da
    import polars as pl
    from acryo import BatchLoader, Molecules, MockLoader, SubtomogramLoader

    cfg, subs, keys = case["cfg"], case["subs"], case["keys"]
    n = cfg["n"]
    feats = pl.DataFrame({"k": [int(x) for x in keys]})
    if cfg["kind"] == "mock":
        templ = np.zeros((5, 5, 5), np.float32)
        templ[2, 2, 2] = 2.0
        offs = [np.array(np.unravel_index(s["v"], BOX)) - 1 for s in subs]
        mole = Molecules(np.array(offs, dtype=np.float32).reshape(n, 3), features=feats)
        return MockLoader(templ, mole, order=1, scale=1.0)
    shape = (12, 12, 8 * n + 8)
    tomos = [np.zeros(shape, np.float32), np.zeros(shape, np.float32)]
    pos = []
    img_of = []
    for i, s in enumerate(subs):
        p = np.array([6, 6, 6 + 8 * i])
        off = np.array(np.unravel_index(s["v"], BOX)) - 1
        m = i % 2 if cfg["kind"] == "batch" else 0
        tomos[m][tuple(p + off)] += s["w"]
        pos.append(p)
        img_of.append(m)

    def wrap(a):
        if cfg["chunks"] == "numpy":
            return a
        ch = (8, 8, 8) if cfg["chunks"] == "dask8" else (5, 7, 11)
        return da.from_array(a, chunks=ch)

    pos = np.array(pos, dtype=np.float32)
    if cfg["kind"] == "single":
        return SubtomogramLoader(wrap(tomos[0]), Molecules(pos, features=feats), order=1, scale=1.0, output_shape=BOX)
    b = BatchLoader(order=1, scale=1.0, output_shape=BOX)
    # registration history: explicit ids 0, 1; or (odd seeds) tomogram 1 under the explicit id 1 first and tomogram 0 with an
    # AUTOMATIC id afterwards, so that the registry is not 0..n-1 when the automatic id is chosen
    gap = cfg["seed"] == 1
    # seed 7: explicit ids that are NOT registered in ascending order (tomogram 0 as id 5 first, tomogram 1 as id 2 afterwards):
    # the order in which ids first appear in the molecule table differs from their sorted order, and for odd n the two
    # tomograms hold different numbers of molecules
    ids = {0: 5, 1: 2} if cfg["seed"] == 7 else {0: 0, 1: 1}
    for m in ((1, 0) if gap else (0, 1)):
        idx = [i for i in range(n) if img_of[i] == m]
        if idx:
            if gap and m == 0:
                b.add_tomogram(wrap(tomos[m]), Molecules(pos[idx], features=feats[idx]))
            else:
                b.add_tomogram(wrap(tomos[m]), Molecules(pos[idx], features=feats[idx]), image_id=ids[m])
    return b


def replay(case) -> dict:
    cfg = case["cfg"]
    loader = _build(case)
    ev = []
    base = dict(n_set=cfg["n_set"], seed=cfg["seed"])
    real = loader.asnumpy()
    try:
        subs = [_onehot(s) for s in real]
    except RuntimeError as e:
        # the tomograms are planted by the harness: one weighted voxel per molecule inside its own box.  A loaded sub-volume
        # that is not such a vector was cut from the wrong place or the wrong tomogram.
        return dict(events=[], planted_mismatch=str(e))
    planted = sorted((s["v"], s["w"]) for s in case["subs"])
    if cfg["kind"] != "mock" and sorted((s["v"], s["w"]) for s in subs) != planted:
        return dict(events=[], planted_mismatch=f"loaded markers {sorted((s['v'], s['w']) for s in subs)} != planted {planted}")
    keys = [int(x) for x in loader.molecules.features["k"].to_list()]

    def event(op, fn):
        out = dict(avg=[], sets=[], sets2=[], groups=[], err="")
        try:
            fn(out)
        except Exception as e:  # noqa: BLE001
            out = dict(avg=[], sets=[], sets2=[], groups=[], err=type(e).__name__ + ": " + str(e)[:100])
        ev.append(dict(id=f"{case['_i']}:{op}", op=op, subs=subs, keys=keys, out=out, **base))

    def halves(arr):  # (n_set, 2, z, y, x)
        return [dict(h0=_sparse(a[0]), h1=_sparse(a[1])) for a in arr]

    event("average", lambda o: o.update(avg=_sparse(loader.average())))

    def split(o):
        o["sets"] = halves(loader.average_split(n_set=cfg["n_set"], seed=cfg["seed"], squeeze=False))
        o["sets2"] = halves(loader.average_split(n_set=cfg["n_set"], seed=cfg["seed"], squeeze=False))

    if cfg["n"] >= 2:
        event("average_split", split)
    if cfg["kind"] != "mock":
        def gavg(o):
            o["groups"] = [dict(key=int(k), avg=_sparse(a), sets=[]) for k, a in loader.groupby("k").average().items()]

        event("group_average", gavg)
        if min(keys.count(k) for k in set(keys)) >= 2:
            def gsplit(o):
                r = loader.groupby("k").average_split(n_set=cfg["n_set"], seed=cfg["seed"], squeeze=False)
                o["groups"] = [dict(key=int(k), avg=[], sets=halves(a)) for k, a in r.items()]

            event("group_average_split", gsplit)
    return dict(events=ev)


def replay_relation(case) -> dict:
    """A batch average is the count-weighted mean of the averages of its tomograms' OWN loaders (same order, scale, box and
    corner_safe), for rotated molecules on float tomograms - whichever way the sub-loaders are reached."""
    import dask.array as da
    from scipy.spatial.transform import Rotation
    from acryo import BatchLoader, Molecules, SubtomogramLoader

    rng = np.random.default_rng(case["seed"])
    box = tuple(case["box"])
    kw = dict(order=case["order"], scale=case["scale"], output_shape=box, corner_safe=case["cs"])
    tomos, moles = [], []
    for t, n in enumerate(case["counts"]):
        tomo = rng.normal(size=(30, 32, 34)).astype(np.float32) + t
        pos = rng.uniform(12, 18, size=(n, 3)) * case["scale"]
        rot = Rotation.random(n, random_state=int(rng.integers(0, 2**31))) if case["rotated"] else Rotation.identity(n)
        tomos.append(da.from_array(tomo, chunks=(11, 13, 34)) if case["dask"] else tomo)
        moles.append(Molecules(pos, rot))
    b = BatchLoader(**kw)
    for tomo, mol in zip(tomos, moles):
        b.add_tomogram(tomo, mol)
    desc = dict(part="relation", box=list(box), cs=case["cs"], rotated=case["rotated"], order=case["order"], scale=case["scale"], dask=case["dask"])
    fails = []
    got = np.asarray(engine.api(b.average), dtype=np.float64)
    N = sum(case["counts"])
    want = sum(n * np.asarray(SubtomogramLoader(tomo, mol, **kw).average(), dtype=np.float64) for n, tomo, mol in zip(case["counts"], tomos, moles)) / N
    if got.shape != want.shape or float(np.max(np.abs(got - want))) > 1e-4:
        fails.append(dict(desc, clause="BatchAverageIsCountWeightedMean", maxerr=float(np.max(np.abs(got - want))) if got.shape == want.shape else None))
    for how, subs in (("loaders[i]", [b.loaders[i] for i in range(len(tomos))]), ("iteration", list(b.loaders))):
        w2 = sum(s.count() * np.asarray(s.average(), dtype=np.float64) for s in subs) / N
        if float(np.max(np.abs(got - w2))) > 1e-4:
            fails.append(dict(desc, clause="BatchAverageIsMeanOverItsSubLoaders", how=how, maxerr=float(np.max(np.abs(got - w2)))))
    # the half maps that come with an FSC are the plain means of the two halves, whatever mask the FSC itself is computed under
    zz, yy, xx = np.indices(box)
    cen = (np.array(box) - 1) / 2
    msk = np.clip(1.5 - np.sqrt((zz - cen[0]) ** 2 + (yy - cen[1]) ** 2 + (xx - cen[2]) ** 2) / max(box) * 2, 0.1, 1).astype(np.float32)
    plain = np.asarray(engine.api(b.average_split, n_set=2, seed=case["seed"], squeeze=False), dtype=np.float64)
    for mk, m in (("none", None), ("array", msk)):
        raw = engine.api(b.fsc_with_halfmaps, mask=m, seed=case["seed"], n_set=2, zero_norm=False, squeeze=False).halfmaps
        hm = np.stack([np.stack([np.asarray(raw[0][i], dtype=np.float64), np.asarray(raw[1][i], dtype=np.float64)]) for i in range(2)])
        if hm.shape != plain.shape or float(np.max(np.abs(hm - plain))) > 1e-4:
            fails.append(dict(desc, clause="HalfmapsArePlainHalfMeans", mask=mk, maxerr=float(np.max(np.abs(hm - plain))) if hm.shape == plain.shape else None))
    # a group derived from a group (head / filter / tail / sample) is a group like any other: it can be averaged again and again
    import polars as pl

    for how, g in (("head", b.groupby("image-id").head(2)), ("filter", b.groupby("image-id").filter(pl.col("image-id") >= 0)), ("tail", b.groupby("image-id").tail(2))):
        a1 = engine.api(g.average)
        a2 = engine.api(g.average)
        sp = engine.api(g.average_split, n_set=1, seed=case["seed"], squeeze=False) if min(case["counts"]) >= 2 else None
        if set(a1) != set(range(len(tomos))) or set(a2) != set(a1) or any(not np.allclose(a1[k], a2[k], atol=1e-6) for k in a1):
            fails.append(dict(desc, clause="DerivedGroupAveragesAgain", how=how, first=sorted(int(k) for k in a1), second=sorted(int(k) for k in a2)))
        if sp is not None and set(sp) != set(a1):
            fails.append(dict(desc, clause="DerivedGroupSplitsAllGroups", how=how, keys=sorted(int(k) for k in sp)))
    return dict(failures=fails)


def run(rep: engine.Report, tier: str, seed: int):
    mc = rep.add_tlc(engine.tlc("MC_C09", "MC_C09", workers=1))
    cases = mc.emitted
    if not cases:
        raise engine.MachineryError("MC_C09 emitted nothing")
    budget = 500 if tier == "quick" else len(cases)
    sel = engine.stratified_sample(cases, lambda c: (c["cfg"]["n"], c["cfg"]["kind"], c["cfg"]["off"], c["cfg"]["chunks"]), budget, seed)
    for i, c in enumerate(sel):
        c["_i"] = i
    results = engine.parallel_replay("harness.props.c09", "replay", sel)
    events = []
    for c, r in zip(sel, results):
        if "machinery_error" in r:
            rep.machinery_error(r["machinery_error"])
        elif r.get("planted_mismatch"):
            rep.record(dict(cfg=c["cfg"], subs=c["subs"]), [dict(clause="LoadedSubvolumesNotThePlanted", op="asnumpy", n=c["cfg"]["n"], kind=c["cfg"]["kind"],
                                                                 error=r["planted_mismatch"][:160], case=c)], nontrivial_key=("planted", c["cfg"], c["subs"]))
        else:
            events.extend(r["events"])
    res, verdict = engine.validate_trace("Trace_Avg", events, tag="avg")
    rep.add_tlc(res)
    badmap = {b["i"]: b for b in verdict["bad"]}
    for i, e in enumerate(events, start=1):
        fails = []
        if i in badmap:
            fails = [dict(clause=badmap[i]["why"], op=e["op"], n=len(e["subs"]), error=e["out"]["err"], event=e)]
        rep.record(dict(op=e["op"], subs=e["subs"], n_set=e["n_set"], seed=e["seed"]), fails,
                   nontrivial_key=(e["op"], e["subs"], e["keys"], e["n_set"], e["seed"]))
        rep.count(e["op"])
    rep.traces_validated = len(sel)
    memo.run_family(rep, ["batch_average_grow"])
    rel = [dict(part="relation", box=list(bx), cs=cs, rotated=rt, order=o, scale=sc, dask=dk, counts=[2, 3], seed=seed * 101 + i)
           for i, (bx, cs, rt, o, sc, dk) in enumerate((bx, cs, rt, o, sc, dk) for bx in ((9, 9, 9), (7, 9, 11)) for cs in (False, True) for rt in (False, True)
                                                        for o in (1, 3) for sc in (1.0, 0.5) for dk in (False, True))]
    engine.collect(rep, rel, engine.parallel_replay("harness.props.c09", "replay_relation", rel), key=lambda c: c)
    rep.exhaustive = len(sel) == len(cases)
    rep.rule = (
        "TLC enumerates molecule counts 1..6 x single/batch/mock x distinct/coinciding markers x 3 group-key patterns x "
        "numpy/2 dask chunkings x n_set {1,2} x seeds {0,1,7} (seed 1 registers the batch tomograms out of order with an automatic id, seed 7 under explicit ids 5 then 2), proves the split law over all bipartitions and that the "
        f"acceptor admits exactly the permitted splits; {len(cases)} cases, {len(sel)} run on real loaders; events "
        "(average, average_split twice, group average, group average_split) are judged by TLC in exact rationals"
    )
    rep.assumptions += ["loaded sub-volumes are weighted one-hot vectors (verified on every real load; else machinery error)"]


def replay_file(path: str) -> int:
    v = json.loads(open(path).read())
    if "case" in v and "event" not in v and v["case"].get("part") == "relation":
        r = replay_relation(v["case"])
        print(json.dumps(r, indent=1, default=str))
        return 1 if r["failures"] else 0
    if "case" in v and "event" not in v:
        r = replay(v["case"])
        print(json.dumps(dict(planted_mismatch=r.get("planted_mismatch", "")), indent=1))
        return 1 if r.get("planted_mismatch") else 0
    _, verdict = engine.validate_trace("Trace_Avg", [v["event"]], tag="replay")
    print(json.dumps(verdict))
    return 1 if verdict["bad"] else 0


def selftest() -> int:
    case = dict(_i=0, cfg=dict(n=4, kind="single", off="distinct", chunks="numpy", n_set=1, seed=0, keys=[0, 1, 0, 1, 0, 1]),
                subs=[dict(v=0, w=1), dict(v=5, w=2), dict(v=13, w=3), dict(v=26, w=1)], keys=[0, 1, 0, 1])
    ev = replay(case)["events"]
    _, good = engine.validate_trace("Trace_Avg", ev, tag="self")
    bad_ev = json.loads(json.dumps(ev))
    bad_ev[0]["out"]["avg"][0]["q"] = [1, 3]
    _, bad = engine.validate_trace("Trace_Avg", bad_ev, tag="self")
    ok = not good["bad"] and len(bad["bad"]) == 1 and bad["bad"][0]["why"] == "NotTheMean"
    print("selftest C09:", "ok" if ok else f"FAILED {good} {bad}")
    return 0 if ok else 2
