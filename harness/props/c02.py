"""C02 - subtomograms sample the tomogram on the molecule's local grid.

spec/Sampling.tla states the sampling rule in exact (doubled-integer) arithmetic and the
crop-window / slice-and-pad arithmetic of the loader (I layer); SamplingMC.tla is checked by TLC
(axis lemmas for every position/box/order on one axis; case-level laws) and emits, for every
3-D configuration, the expected source of every voxel.  Each case is loaded through the real
loader from an identity-encoding tomogram and compared voxel by voxel.
"""
from __future__ import annotations

import json

import numpy as np

from harness import engine, memo

PROP = "C02"
LEVEL = "model_checking"
ENTRY = ("load_i", "asnumpy", "load_iter", "dask")


def _tomo(tshape, kind, dtype="float32", offset=0.0):
    n = int(np.prod(tshape))
    arr = (np.arange(n, dtype=np.float32) * 3.0 + 7.0).reshape(tshape)
    if dtype == "float64":
        # "all floating-point tomograms": double precision data with a large constant level must not lose their signal
        arr = arr.astype(np.float64) + 2.0**26
    if offset:
        arr = arr + np.asarray(offset, dtype=arr.dtype)
    if kind == "numpy":
        return arr, arr
    import dask.array as da

    chunks = (3, 4, 4) if kind == "dask_chunked" else tuple(tshape)
    return da.from_array(arr, chunks=chunks), arr


def replay_quarter(case) -> dict:
    """Quarter-pixel positions, identity orientation (SamplingQ.tla): order 0 shows the NEAREST voxel, order 1 the trilinear mix."""
    from acryo import BatchLoader, Molecules, SubtomogramLoader

    cfg = case["cfg"]
    h = int(case["_h"])
    tshape = tuple(case["tshape"])
    entry = ENTRY[h % 4]
    kind = ("numpy", "dask_chunked", "dask_single")[(h // 4) % 3]
    scale = (1.0, 2.0, 0.5)[(h // 12) % 3]
    ldr_kind = ("single", "batch2")[(h // 36) % 2]
    cs = bool((h // 72) % 2)
    img, ref = _tomo(tshape, kind)
    flat = ref.ravel()
    shape = tuple(cfg["shape"])
    mole = Molecules((np.array(cfg["P4"], dtype=np.float64) / 4.0 * scale)[None, :])
    desc = dict(fam="quarter", order=cfg["order"], cs=cs, shape=list(shape), entry=entry, image=kind, scale=scale, P4=cfg["P4"], loader=ldr_kind)
    if ldr_kind == "single":
        loader = SubtomogramLoader(img, mole, order=cfg["order"], scale=scale, corner_safe=cs, output_shape=shape)
    else:
        loader = BatchLoader(order=cfg["order"], scale=scale, corner_safe=cs, output_shape=shape)
        loader.add_tomogram(img, mole)
    if entry == "load_i":
        sub = engine.api(loader.load, 0)
    elif entry == "asnumpy":
        sub = engine.api(loader.asnumpy)[0]
    elif entry == "load_iter":
        sub = list(engine.api(loader.load_iter))[0]
    else:
        sub = engine.api(lambda: loader.construct_dask().compute())[0]
    sub = np.asarray(sub, dtype=np.float64)
    if sub.shape != shape or not np.all(np.isfinite(sub)):
        return dict(failures=[dict(desc, clause="Shape" if sub.shape != shape else "NotFinite")])
    got = sub.ravel()
    nexact = 0
    for n, mix in enumerate(case["expect"]):
        if not mix:
            continue
        nexact += 1
        want = sum(float(flat[i]) * w for i, w in mix) / 64.0
        if abs(got[n] - want) > 0.02:
            return dict(failures=[dict(desc, clause="VoxelRule", voxel=n, observed=round(float(got[n]), 3), expected=round(want, 3), nsrc=len(mix))])
    return dict(failures=[], classes={"exact_voxels": nexact, "quarter_cases": 1})


def replay(case) -> dict:
    if case.get("cfg", {}).get("P4") is not None:
        return replay_quarter(case)
    from scipy.spatial.transform import Rotation
    from acryo import Molecules, SubtomogramLoader
    from acryo._utils import SubvolumeOutOfBoundError

    cfg = case["cfg"]
    tshape = tuple(case["tshape"])
    h = int(case["_h"])
    entry = ENTRY[h % 4]
    kind = ("numpy", "dask_chunked", "dask_single")[(h // 4) % 3]
    scale = (1.0, 2.0, 0.5)[(h // 12) % 3]
    ldr_kind = ("single", "batch2")[(h // 36) % 2]
    if ldr_kind == "batch2" and cfg["order"] == 0 and cfg["R"] != [[1, 0, 0], [0, 1, 0], [0, 0, 1]]:
        # a BatchLoader stores orientations through float32: a Rot24 orientation is then axis-aligned only up to ~1e-7, the
        # sample is no longer ON the grid, and for off-grid samples at order 0 the specification fixes nothing but finiteness
        # (Sampling.tla, Expect): such cases stay on the single loader, whose orientation is exact
        ldr_kind = "single"
    dtype = ("float32", "float64")[(h // 72) % 2]
    # where the box shape comes from: the constructor; the call, overriding a SMALLER default; the call, no default at all
    omode = ("ctor", "override", "call_only")[(h // 144) % 3]
    # how the loader comes into being: the constructor; SubtomogramLoader.imread of an MRC file whose header carries the scale;
    # BatchLoader.from_loaders of two single loaders
    route = ("ctor", "imread", "from_loaders")[(h // 432) % 3]
    if route == "imread" and (ldr_kind != "single" or dtype != "float32"):
        route = "ctor"
    if route == "from_loaders" and ldr_kind != "batch2":
        route = "ctor"
    img, ref = _tomo(tshape, kind, dtype)
    flat = ref.ravel()
    shape = tuple(cfg["shape"])
    pos_px = np.array(cfg["P2"], dtype=np.float64) / 2.0
    rot = Rotation.from_matrix(np.array([cfg["R"]], dtype=float))
    mole = Molecules((pos_px * scale)[None, :], rot)
    desc = dict(order=cfg["order"], cs=cfg["cs"], shape=list(shape), fam=cfg["fam"], entry=entry, image=kind, scale=scale,
                P2=cfg["P2"], loader=ldr_kind, dtype=dtype, shape_from=omode, route=route)
    failures = []
    try:
        sub2 = None
        okw = {} if omode == "ctor" else dict(output_shape=shape)
        ckw = dict(output_shape=shape) if omode == "ctor" else (dict(output_shape=(2, 2, 2)) if omode == "override" else {})
        if route == "imread":
            import os, shutil, tempfile
            import mrcfile

            tmpd = tempfile.mkdtemp(prefix="c02-")
            try:
                path = os.path.join(tmpd, "t.mrc")
                with mrcfile.new(path) as mrc:
                    mrc.set_data(np.asarray(ref, dtype=np.float32))
                    mrc.voxel_size = scale * 10.0
                loader = SubtomogramLoader.imread(path, mole, order=cfg["order"], corner_safe=cfg["cs"],
                                                  chunks=(3, 4, 4) if kind == "dask_chunked" else "auto", **ckw)
                if abs(loader.scale - scale) > 1e-6:
                    failures.append(dict(desc, clause="ScaleFromHeader", observed=float(loader.scale)))
                # the file is memory-mapped lazily: everything is loaded before the directory goes away
                if entry == "load_i":
                    sub = np.asarray(loader.load(0, **okw))
                elif entry == "asnumpy":
                    sub = np.asarray(loader.asnumpy(**okw)[0])
                elif entry == "load_iter":
                    sub = np.asarray(list(loader.load_iter(**okw))[0])
                else:
                    sub = np.asarray(loader.construct_dask(**okw).compute()[0])
            finally:
                shutil.rmtree(tmpd, ignore_errors=True)
        elif ldr_kind == "single":
            loader = SubtomogramLoader(img, mole, order=cfg["order"], scale=scale, corner_safe=cfg["cs"], **ckw)
        elif route == "from_loaders":
            from acryo import BatchLoader

            img2, _ = _tomo(tshape, kind, dtype, offset=5000.0)
            # the members' own settings are not the batch's: the batch is built with its own order / scale / box
            l1 = SubtomogramLoader(img, mole, order=1, scale=scale, output_shape=(2, 2, 2))
            l2 = SubtomogramLoader(img2, mole.copy(), order=3, scale=scale)
            loader = BatchLoader.from_loaders([l1, l2], order=cfg["order"], scale=scale, corner_safe=cfg["cs"], **ckw)
        else:
            # two tomograms of the same shape, a molecule at the same pose in each: row 0 must come from the first
            # tomogram, row 1 from the second (which is the first one + 5000)
            from acryo import BatchLoader

            img2, _ = _tomo(tshape, kind, dtype, offset=5000.0)
            loader = BatchLoader(order=cfg["order"], scale=scale, corner_safe=cfg["cs"], **ckw)
            loader.add_tomogram(img, mole)
            loader.add_tomogram(img2, mole.copy())
        if route == "imread":
            pass
        elif entry == "load_i":
            sub = loader.load(0, **okw)
            sub2 = loader.load(1, **okw) if ldr_kind == "batch2" else None
        elif entry == "asnumpy":
            both = loader.asnumpy(**okw)
            sub, sub2 = both[0], (both[1] if ldr_kind == "batch2" else None)
        elif entry == "load_iter":
            both = list(loader.load_iter(**okw))
            sub, sub2 = both[0], (both[1] if ldr_kind == "batch2" else None)
        else:
            both = loader.construct_dask(**okw).compute()
            sub, sub2 = both[0], (both[1] if ldr_kind == "batch2" else None)
        err = None
    except SubvolumeOutOfBoundError as e:
        err = "oob"
    except Exception as e:  # noqa: BLE001
        err = type(e).__name__ + ": " + str(e)[:100]
    classes = {}
    if case["outcome"] == "ok":
        if err is not None:
            failures.append(dict(desc, clause="RaisedOnPartialOverlap", error=err))
            return dict(failures=failures)
    else:  # nothing of the box is inside the tomogram: raise the out-of-bound error, or finite fill
        if err is not None:
            if err != "oob":
                failures.append(dict(desc, clause="WrongErrorKind", error=err))
            classes["oob_raised"] = 1
            return dict(failures=failures, classes=classes)
    sub = np.asarray(sub, dtype=np.float64)
    if sub.shape != shape:
        failures.append(dict(desc, clause="Shape", observed=list(sub.shape)))
        return dict(failures=failures)
    if not np.all(np.isfinite(sub)):
        failures.append(dict(desc, clause="NotFinite", n_nonfinite=int(np.sum(~np.isfinite(sub)))))
        return dict(failures=failures)
    got = sub.ravel()
    nexact = 0
    for n, src in enumerate(case["expect"]):
        if not src:
            continue
        nexact += 1
        want = float(np.mean([flat[i] for i in src]))
        if abs(got[n] - want) > 0.02:
            failures.append(dict(desc, clause="VoxelRule", voxel=n, observed=round(float(got[n]), 3), expected=want,
                                 nsrc=len(src)))
            break
    if sub2 is not None and not failures:
        got2 = np.asarray(sub2, dtype=np.float64).ravel()
        for n, src in enumerate(case["expect"]):
            if src and abs(got2[n] - (float(np.mean([flat[i] for i in src])) + 5000.0)) > 0.02:
                failures.append(dict(desc, clause="VoxelRule", row=1, voxel=n, observed=round(float(got2[n]), 3),
                                     expected=float(np.mean([flat[i] for i in src])) + 5000.0))
                break
    classes["exact_voxels"] = nexact
    classes["route_" + route] = 1
    classes["finite_only_voxels"] = len(case["expect"]) - nexact
    return dict(failures=failures, classes=classes)


def _stratum(c):
    g = c["cfg"]
    return (g["fam"], tuple(g["shape"]), g["order"], g["cs"], json.dumps(g["R"]) if g["fam"] == "rule" else "")


def run(rep: engine.Report, tier: str, seed: int):
    ax = rep.add_tlc(engine.tlc("SamplingMC", "MC_C02_axis"))
    mc = rep.add_tlc(engine.tlc("SamplingMC", "MC_C02", workers=1, timeout=1800))
    cases = mc.emitted
    if not cases:
        raise engine.MachineryError("SamplingMC emitted no cases")
    # drop interior cases in which the rule fixes no voxel at all (e.g. order 0 between grid points)
    useful = [c for c in cases if c["cfg"]["fam"] == "boundary" or any(c["expect"])]
    for i, c in enumerate(useful):
        c["_h"] = (i * 7919 + seed) % 1296
    budget = 4000 if tier == "quick" else len(useful)
    sel = engine.stratified_sample(useful, _stratum, budget, seed)
    rep.exhaustive = len(sel) == len(useful)
    # quarter-pixel positions (SamplingQ.tla): what "interpolated at the loader's order" means off the half-pixel lattice
    mq = rep.add_tlc(engine.tlc("MC_C02q", "MC_C02q", workers=1))
    qcases = [c for c in mq.emitted if any(c["expect"])]
    if not qcases:
        raise engine.MachineryError("MC_C02q emitted nothing")
    for i, c in enumerate(qcases):
        c["_h"] = (i * 7919 + seed) % 144
    qsel = engine.stratified_sample(qcases, lambda c: (c["cfg"]["order"], tuple(c["cfg"]["shape"]), tuple(x % 4 for x in c["cfg"]["P4"])), 512 if tier == "quick" else len(qcases), seed)
    sel = sel + qsel
    results = engine.parallel_replay("harness.props.c02", "replay", sel)
    engine.collect(rep, sel, results, key=lambda c: (c["cfg"], c["_h"]))
    rep.traces_validated = rep.evaluations
    memo.run_family(rep, ["loader_load_inplace"])
    rep.samples = [dict(cfg=c["cfg"], outcome=c.get("outcome"), expect_head=c["expect"][:6]) for c in sel[:4]]
    rep.rule = (
        "TLC enumerates (a) every (position in half pixels, box length 1..6, order, tomogram length) on one axis for the "
        "crop-window lemmas, (b) 3-D cases on a 6x7x8 tomogram: all 24 orientations x 6 box shapes x 8 position parities x "
        "orders {0,1,3} x corner_safe (interior), and a sweep of each axis from fully outside through abutting and "
        "straddling positions plus corner straddles for 4 orientations x 3 boxes; for every case the exact source of "
        f"every voxel is emitted; {len(cases)} emitted, {len(useful)} with a decidable voxel or a boundary outcome, "
        f"{len(sel)} replayed through load(i)/asnumpy/load_iter/construct_dask on numpy/dask tomograms at scales 1, 2, 1/2; "
        f"(c) quarter-pixel positions (SamplingQ.tla: 64 offsets x 4 boxes x orders 0 and 1, identity orientation): nearest voxel at order 0, "
        f"trilinear mix in 64ths at order 1, and the window lemma for an interpolator that treats coordinates above the last voxel centre as outside; {len(qsel)} replayed"
    )
    rep.assumptions += [
        "order 0 exactly half way between grid points (ties) and order 3 off-grid are only required to be finite",
        "linear interpolation at half-grid points is the mean of the 2^h neighbours (tolerance 0.02 on values >= 7 apart by 3)",
    ]


def replay_file(path: str) -> int:
    v = json.loads(open(path).read())
    r = replay(v["case"])
    print(json.dumps(r, indent=1, default=str))
    return 1 if r["failures"] else 0


def selftest() -> int:
    res = engine.tlc("SamplingMC", "MC_C02", workers=1)
    case = next(c for c in res.emitted if c["cfg"]["fam"] == "rule" and c["cfg"]["shape"] == [3, 3, 3] and c["cfg"]["cs"] and all(c["expect"]))
    case["_h"] = 0
    good = replay(case)
    bad = json.loads(json.dumps(case))
    bad["expect"][0], bad["expect"][1] = bad["expect"][1], bad["expect"][0]
    r = replay(bad)
    ok = not good["failures"] and bool(r["failures"])
    print("selftest C02:", "ok" if ok else "FAILED")
    return 0 if ok else 2
