"""C16 - low-pass filtering is a real, linear, zero-phase Butterworth filter.

spec/Filter.tla: exact rational Butterworth gains per FFT bin, identity cases, output shape of the
real-space variants (and the historical irfftn shape defect); MC_C16.tla checks mean preservation
and evenness of the weights on every shape in [1..5]^3 x cutoffs x orders and emits the gain of
every bin.  The gains of the four real implementations are read off an integer image.
"""
from __future__ import annotations

import json
from fractions import Fraction

import numpy as np

from harness import engine, memo

PROP = "C16"
LEVEL = "model_checking"


def _gains(case) -> np.ndarray:
    cfg = case["cfg"]
    o = cfg["order"]
    rden = int(case["rden"])
    if case["identity"]:
        return np.ones(cfg["s"])
    g = [float(Fraction(rden**o, rden**o + int(rn) ** o)) for rn in case["rnum"]]
    return np.array(g).reshape(cfg["s"])


def replay(case) -> dict:
    from acryo import _utils as au
    from acryo import pipe
    from acryo.alignment import ZNCCAlignment
    from acryo.backend import Backend

    cfg = case["cfg"]
    s = tuple(cfg["s"])
    c = cfg["c"][0] / cfg["c"][1]
    o = cfg["order"]
    desc = dict(shape=list(s), cutoff=c, order=o, odd_last=s[2] % 2 == 1, identity=case["identity"])
    fails = []
    rng = np.random.default_rng(sum(s) * 7 + o)
    img = rng.integers(1, 9, size=s).astype(np.float32)
    img[0, 0, 0] += 40.0  # a delta keeps every Fourier coefficient away from zero
    # "all real inputs": the same integer-valued image as float32, float64, int16 or uint8 data
    vox = ("float32", "int16", "float64", "uint8")[(sum(s) + o + abs(cfg["c"][0])) % 4]
    desc["vox"] = vox
    img = img.astype(vox)
    F = np.fft.fftn(img.astype(np.float64))
    want = _gains(case)
    xp = Backend()

    def check_ft(name, out):
        out = np.asarray(out)
        if out.shape != s:
            fails.append(dict(desc, clause="FtShape", impl=name, observed=list(out.shape)))
            return
        g = out / F
        err = float(np.max(np.abs(g - want)))
        if err > 2e-4:
            fails.append(dict(desc, clause="Gain", impl=name, err=round(err, 6)))

    def check_real(name, out):
        out = np.asarray(out)
        if out.shape != tuple(case["out_shape"]):
            fails.append(dict(desc, clause="OutputShape", impl=name, observed=list(out.shape), expected=case["out_shape"]))
            return
        if np.iscomplexobj(out) or not np.all(np.isfinite(out)):
            fails.append(dict(desc, clause="RealOutput", impl=name))
            return
        g = np.fft.fftn(out.astype(np.float64)) / F
        err = float(np.max(np.abs(g - want)))
        if err > 2e-4:
            fails.append(dict(desc, clause="Gain", impl=name, err=round(err, 6)))
        if abs(float(out.mean()) - float(img.mean())) > 1e-4 * abs(float(img.mean())):
            fails.append(dict(desc, clause="MeanPreserved", impl=name))

    check_ft("utils_ft", engine.api(au.lowpass_filter_ft, img, c, o))
    check_ft("backend_ft", engine.api(xp.lowpass_filter_ft, img, c, o))
    check_real("utils", engine.api(au.lowpass_filter, img, c, o))
    check_real("backend", engine.api(xp.lowpass_filter, img, c, o))
    check_real("pipe", engine.api(pipe.lowpass_filter(cutoff=c, order=o), img, 1.0))
    if o == 2 and min(s) >= 1:
        m = ZNCCAlignment(img, cutoff=c if c > 0 else None)
        if c > 0:
            check_ft("model_pre_transform", engine.api(m.pre_transform, img, xp))
    # linearity as a relation between real calls
    img2 = rng.integers(0, 5, size=s).astype(np.float32)
    a = np.asarray(au.lowpass_filter(img, c, o), dtype=np.float64)
    b = np.asarray(au.lowpass_filter(img2, c, o), dtype=np.float64)
    ab = np.asarray(au.lowpass_filter((2 * img + 3 * img2).astype(np.float32), c, o), dtype=np.float64)
    if a.shape == ab.shape == b.shape and np.max(np.abs(2 * a + 3 * b - ab)) > 1e-3:
        fails.append(dict(desc, clause="Linearity", impl="utils"))
    return dict(failures=fails)


def run(rep: engine.Report, tier: str, seed: int):
    mc = rep.add_tlc(engine.tlc("MC_C16", "MC_C16", workers=1))
    cases = mc.emitted
    if not cases:
        raise engine.MachineryError("MC_C16 emitted nothing")
    budget = 1500 if tier == "quick" else len(cases)
    sel = engine.stratified_sample(cases, lambda c: (tuple(n % 2 for n in c["cfg"]["s"]), json.dumps(c["cfg"]["c"]), c["cfg"]["order"], min(c["cfg"]["s"]) == 1), budget, seed)
    rep.exhaustive = len(sel) == len(cases)
    memo.run_family(rep, ["lowpass_utils", "highpass_utils", "low_high_utils", "lowpass_backend", "lowpass_backend_ft"], hazards=True)
    results = engine.parallel_replay("harness.props.c16", "replay", sel)
    engine.collect(rep, sel, results, key=lambda c: c["cfg"])
    rep.traces_validated = rep.evaluations
    rep.samples = [dict(cfg=c["cfg"], identity=c["identity"], rden=c["rden"], rnum_head=c["rnum"][:5]) for c in sel[:3]]
    rep.rule = (
        "TLC enumerates all 125 shapes in [1..5]^3 x 9 rational cutoffs (negative, zero, inside, beyond the Nyquist diagonal) x "
        "orders 1..3, checks W(0)=1, W(k)=W(-k) and the irfftn shape lemma, and emits the exact gain of every bin as a rational; "
        f"{len(cases)} cases, {len(sel)} replayed on _utils.lowpass_filter(_ft), Backend.lowpass_filter(_ft), "
        "pipe.lowpass_filter, Model.pre_transform (gain per bin, output shape, realness, mean, linearity)"
    )


def replay_file(path: str) -> int:
    v = json.loads(open(path).read())
    r = replay(v["case"])
    print(json.dumps(r, indent=1, default=str))
    return 1 if r["failures"] else 0


def selftest() -> int:
    mc = engine.tlc("MC_C16", "MC_C16", workers=1)
    case = next(c for c in mc.emitted if c["cfg"]["s"] == [4, 4, 4] and c["cfg"]["c"] == [1, 5] and c["cfg"]["order"] == 2)
    good = replay(case)
    bad = json.loads(json.dumps(case))
    bad["rnum"][5] *= 2
    r = replay(bad)
    ok = not good["failures"] and bool(r["failures"])
    print("selftest C16:", "ok" if ok else "FAILED")
    return 0 if ok else 2
