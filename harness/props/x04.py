"""X04 (extended coverage, not a listed property) - the task-collection layer under every loader (acryo/_dask.py).

spec/TaskPool.tla: two pools and a nested list; TLC checks that results come in submission order and simulates
programmes.  Replay on real DaskTaskPool / NestedDaskTaskList / DaskArrayList objects: a single pool, both pools in ONE
graph (compute((a, b)) and compute([a, b])), the nested list, arrays made from the tasks (asarrays / tostack /
DaskArrayList.concat / as_stack) all return, at position k of a collection, f(argument k of that collection).
"""
from __future__ import annotations

import json

import numpy as np

from harness import engine

PROP = "X04"
LEVEL = "model_checking"


def replay(case) -> dict:
    from acryo import _dask as ad

    def mk(p):
        def f(x):
            return np.full((2, 3), 10 * x + p, dtype=np.float32)

        f.__name__ = "same_name"        # both pools apply a function of the same name: keys must still not collide
        return ad.DaskTaskPool.from_func(f)

    pools = {1: mk(1), 2: mk(2)}
    nest = ad.NestedDaskTaskList([])
    for op in case["prog"]:
        n = op["name"]
        if n == "add":
            pools[op["p"]].add_task(op["x"])
        elif n == "adds":
            pools[op["p"]].add_tasks(op["n"], op["x"])
        elif n == "nest_insert":
            nest.insert(op["i"] - 1, pools[op["p"]])
        elif n == "nest_set":
            nest[op["i"] - 1] = pools[op["p"]]
        elif n == "nest_del":
            del nest[op["i"] - 1]
    want = {1: list(case["r1"]), 2: list(case["r2"])}
    fails = []

    def vals(res):
        return [int(round(float(np.asarray(r).ravel()[0]))) for r in res]

    def check(name, got, exp):
        if got != exp:
            fails.append(dict(clause="ResultsInSubmissionOrder", where=name, observed=got, expected=exp))

    for p in (1, 2):
        check(f"pool{p}.compute", vals(pools[p].compute()), want[p])
        check(f"compute(pool{p})", vals(ad.compute(pools[p])), want[p])
        check(f"pool{p}.count", [pools[p].count()], [len(want[p])])
    a, b = ad.compute((pools[1], pools[2]))
    check("compute((a,b))[0]", vals(a), want[1])
    check("compute((a,b))[1]", vals(b), want[2])
    la, lb = ad.compute([pools[1], pools[2]])
    check("compute([a,b])[0]", vals(la), want[1])
    check("compute([a,b])[1]", vals(lb), want[2])
    check("nested", [vals(x) for x in nest.compute()], [list(x) for x in case["nest"]])
    # arrays made from the tasks, computed in ONE graph
    arrs = {p: pools[p].asarrays((2, 3), np.float32) for p in (1, 2)}
    both = ad.DaskArrayList.concat([arrs[1], arrs[2]])
    check("asarrays+concat", vals(both.compute()), want[1] + want[2])
    if want[1] and want[2]:
        import dask

        s1, s2 = dask.compute(pools[1].tostack((2, 3), np.float32), pools[2].tostack((2, 3), np.float32))
        check("tostack[0]", [int(round(float(x[0, 0]))) for x in s1], want[1])
        check("tostack[1]", [int(round(float(x[0, 0]))) for x in s2], want[2])
        st = both.as_stack().compute()
        check("as_stack", [int(round(float(x[0, 0]))) for x in st], want[1] + want[2])
    return dict(failures=fails[:3], classes={"programmes": 1})


def run(rep: engine.Report, tier: str, seed: int):
    rep.add_tlc(engine.tlc("TaskPool", "MC_X04", timeout=900))
    num = 300 if tier == "quick" else 3000
    sim = rep.add_tlc(engine.tlc("TaskPool", "SIM_X04", workers=1, extra=["-simulate", f"num={num}", "-depth", "8", "-seed", str(seed + 9)], tag="sim"))
    seen, progs = set(), []
    for p in sim.emitted:
        k = json.dumps(p["prog"], sort_keys=True)
        if k not in seen and len(p["prog"]) == 7:
            seen.add(k)
            progs.append(p)
    if not progs:
        raise engine.MachineryError("SIM_X04 emitted nothing")
    results = engine.parallel_replay("harness.props.x04", "replay", progs, sync_dask=False)
    engine.collect(rep, progs, results, key=lambda c: json.dumps(c["prog"], sort_keys=True))
    rep.traces_validated = len(progs)
    rep.rule = (f"EXTENDED COVERAGE (no listed property): {len(progs)} TLC-simulated 7-step programmes over two task pools and a nested list, "
                "replayed on acryo._dask objects; every way of computing them returns results in submission order, pool by pool")


def replay_file(path: str) -> int:
    v = json.loads(open(path).read())
    r = replay(v["case"])
    print(json.dumps(r, indent=1, default=str))
    return 1 if r["failures"] else 0


def selftest() -> int:
    case = dict(prog=[dict(name="add", p=1, x=2), dict(name="adds", p=2, n=2, x=1), dict(name="nest_insert", i=1, p=2)], r1=[21], r2=[12, 12], nest=[[12, 12]])
    good = replay(case)
    bad = replay(dict(case, r2=[12, 22]))
    ok = not good["failures"] and bool(bad["failures"])
    print("selftest X04:", "ok" if ok else f"FAILED {good} {bad}")
    return 0 if ok else 2
