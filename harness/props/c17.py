"""C17 - Fourier shell correlation is the normalised cross-spectrum per shell.

spec/Fsc.tla: shell labelling by exact integer comparison and per-shell cross/power sums on
exact Gaussian-integer DFTs (box lengths 1, 2, 4); MC_C17.tla checks symmetry, self-correlation,
gain covariance and Parseval on the exact values and emits, per shell, (bin count, boundary bins,
cross, p1, p2).  The real fourier_shell_correlation is compared shell by shell; loader-level FSC is
checked through the relations the property states (FSC of the two C09 halves after the mask).
"""
from __future__ import annotations

import json
import math

import numpy as np

from harness import engine, memo

PROP = "C17"
LEVEL = "model_checking"


def _img(shape, seed, smooth):
    rng = np.random.default_rng(seed)
    z, y, x = np.indices(shape).astype(np.float64)
    c = (np.array(shape) - 1) / 2
    g = np.exp(-((z - c[0] - 0.4) ** 2 + (y - c[1] + 0.3) ** 2 / 1.5 + (x - c[2] - 0.2 * seed) ** 2 / 2.0) / 4.0)
    return (g if smooth else g + 0.6 * rng.normal(size=shape)).astype(np.float32)


def replay_model(case) -> dict:
    """FSC as an alignment score (acryo/backend/_fsc.py through FSCAlignment.score / landscape / align): the mean over the shells of
    width 1/min(shape) of the shell value of the property, so it is symmetric, gain invariant, bounded and 1 for identical inputs -
    with or without a tilt model (both inputs are limited to the sampled region before the shell sums)."""
    from acryo.alignment import FSCAlignment
    from acryo.tilt import dual_axis

    shape = tuple(case["box"])
    a = _img(shape, case["seed"], case["smooth"])
    b = _img(shape, case["seed"] + 7, case["smooth"])
    kw = {}
    if case["tilt"] == "single":
        kw["tilt"] = (-60.0, 60.0)
    elif case["tilt"] == "dual":
        kw["tilt"] = dual_axis((-60.0, 60.0), (-50.0, 50.0))
    quat = np.array(case["quat"], dtype=np.float64)
    quat = quat / np.linalg.norm(quat)
    z3 = np.zeros(3)
    desc = dict(part="model", box=list(shape), tilt=case["tilt"], smooth=case["smooth"], exps=case["exps"], quat=case["quat"])
    fails = []

    def sc(img, tmpl):
        return float(engine.api(FSCAlignment(tmpl, **kw).score, img, quat, z3))

    sab, sba, saa = sc(a, b), sc(b, a), sc(a, a)
    if not (abs(sab) <= 1 + 1e-5 and abs(saa) <= 1 + 1e-5):
        fails.append(dict(desc, clause="Bounded", observed=[sab, saa]))
    if abs(sab - sba) > 1e-4:
        fails.append(dict(desc, clause="SymmetricInInputs", observed=[sab, sba]))
    if abs(saa - 1.0) > 1e-4:
        fails.append(dict(desc, clause="SelfIsOne", observed=saa))
    ea, eb = case["exps"]
    if not case["smooth"]:
        # powers of two: the scaled spectra are exactly the scaled originals, so nothing but the normalisation can differ
        sg = sc(a * np.float32(2.0**ea), b * np.float32(2.0**eb))
        if abs(sg - sab) > 1e-4:
            fails.append(dict(desc, clause="GainInvariant", observed=sg, expected=sab))
        sgs = sc(a * np.float32(2.0**ea), a * np.float32(2.0**ea))
        if abs(sgs - 1.0) > 1e-4:
            fails.append(dict(desc, clause="SelfIsOne", scaled=True, observed=sgs))
        if case["tilt"] == "none":
            # the value itself: mean over the shells floor(|f| min(shape)) of Re sum(F1 conj F2) / sqrt(sum|F1|^2 sum|F2|^2)
            fa, fb = np.fft.fftn(a.astype(np.float64)), np.fft.fftn(b.astype(np.float64))
            fr = np.meshgrid(*[np.fft.fftfreq(n) for n in shape], indexing="ij")
            lab = np.floor(np.sqrt(sum(f**2 for f in fr)) * min(shape) + 1e-9).astype(int)
            vals = []
            for L in range(lab.max() + 1):
                m = lab == L
                den = math.sqrt(float((np.abs(fa[m]) ** 2).sum()) * float((np.abs(fb[m]) ** 2).sum()))
                vals.append(float((fa[m] * np.conj(fb[m])).real.sum()) / den if den > 0 else 0.0)
            want = float(np.mean(vals))
            if abs(want - sab) > 2e-4:
                fails.append(dict(desc, clause="ScoreIsMeanShellValue", observed=sab, expected=want))
    # the other entry points give the same number: the landscape at zero shift, and align on identical inputs
    m = FSCAlignment(b, **kw)
    land = np.asarray(engine.api(m.landscape, a, (1.0, 1.0, 1.0), quat, z3))
    if abs(float(land[tuple(n // 2 for n in land.shape)]) - sab) > 1e-4:
        fails.append(dict(desc, clause="FscEntryPointsAgree", entry="landscape", observed=float(land[tuple(n // 2 for n in land.shape)]), expected=sab))
    r = engine.api(FSCAlignment(a, **kw).align, a, (1.0, 1.0, 1.0), quat, z3)
    if abs(float(r.score) - 1.0) > 1e-3 or float(np.max(np.abs(r.shift))) > 0.051:
        fails.append(dict(desc, clause="SelfIsOne", entry="align", observed=[float(r.score)] + [float(x) for x in r.shift]))
    return dict(failures=fails)


def replay_wide(case) -> dict:
    """Larger boxes and shell widths that are not on any decimal grid (1/16, 1/24, 1.5/min(shape), ...): every shell value against
    the formula of the property evaluated in double precision; bins within 1e-6 of a shell boundary make their two shells uncertain."""
    from acryo._utils import fourier_shell_correlation as fsc

    shape = tuple(case["box"])
    df = case["num"] / case["den"]
    rng = np.random.default_rng(case["seed"])
    a = rng.normal(size=shape).astype(np.float32)
    b = (a + 0.7 * rng.normal(size=shape)).astype(np.float32)
    freq, out = engine.api(fsc, a, b, df)
    out = np.asarray(out, dtype=np.float64)
    fa, fb = np.fft.fftn(a.astype(np.float64)), np.fft.fftn(b.astype(np.float64))
    fr = np.meshgrid(*[np.fft.fftfreq(n) for n in shape], indexing="ij")
    q = np.sqrt(sum(f**2 for f in fr)) / df
    lab = np.floor(q + 1e-12).astype(int)
    near = np.abs(q - np.round(q)) < 1e-6
    unsure = set(int(x) for x in np.round(q[near])) | set(int(x) - 1 for x in np.round(q[near]))
    desc = dict(part="wide", box=list(shape), dfreq=[case["num"], case["den"]])
    fails = []
    nchk = 0
    for L in range(len(out)):
        if abs(float(freq[L]) - (L + 0.5) * df) > 1e-6:
            fails.append(dict(desc, clause="ShellFrequency", shell=L))
        if L in unsure:
            continue
        msk = lab == L
        den = math.sqrt(float((np.abs(fa[msk]) ** 2).sum()) * float((np.abs(fb[msk]) ** 2).sum()))
        if den == 0:
            continue
        want = float((fa[msk] * np.conj(fb[msk])).real.sum()) / den
        nchk += 1
        if abs(out[L] - want) > 1e-4:
            fails.append(dict(desc, clause="ShellValue", shell=L, observed=float(out[L]), expected=want, nbins=int(msk.sum())))
            break
    if not fails:
        # detector-count amplitudes on realistic boxes (exact powers of two: the scaled spectra are exactly the scaled originals)
        for ka, kb in ((22, 22), (-22, -20), (27, 0)):
            _, g = engine.api(fsc, (a * np.float32(2.0**ka)).astype(np.float32), (b * np.float32(2.0**kb)).astype(np.float32), df)
            g = np.asarray(g, dtype=np.float64)
            ok = np.isfinite(out)
            if g.shape != out.shape or not np.array_equal(np.isfinite(g), ok) or float(np.max(np.abs(g[ok] - out[ok]), initial=0.0)) > 1e-5:
                fails.append(dict(desc, clause="GainInvariant", gains_log2=[ka, kb]))
                break
    return dict(failures=fails, classes={"wide_shells_checked": nchk})


def _wide_cases(seed):
    out = []
    for i, (box, num, den) in enumerate((((16, 16, 16), 1, 16), ((16, 16, 16), 3, 32), ((24, 24, 24), 1, 24), ((12, 14, 16), 1, 12), ((12, 14, 16), 3, 24),
                                         ((9, 11, 10), 1, 9), ((9, 11, 10), 1, 7), ((32, 8, 8), 1, 32), ((16, 16, 16), 1, 13), ((20, 20, 20), 3, 40))):
        out.append(dict(kind="wide", box=list(box), num=num, den=den, seed=seed + i))
    return out


def _model_cases():
    out = []
    for box in ((8, 8, 8), (7, 8, 9), (6, 9, 7)):
        for tilt in ("none", "single", "dual"):
            for k, (smooth, exps, quat) in enumerate(((False, (0, 0), (0, 0, 0, 1)), (False, (-20, -20), (1, 1, 0, 3)), (False, (10, -14), (0, 0, 0, 1)),
                                                      (False, (-16, 5), (1, -2, 1, 4)), (True, (0, 0), (0, 0, 0, 1)), (True, (0, 0), (1, 1, 0, 3)))):
                out.append(dict(kind="model", box=list(box), tilt=tilt, smooth=smooth, exps=list(exps), quat=list(quat), seed=1 + k))
    return out


def replay(case) -> dict:
    if case.get("kind") == "model":
        return replay_model(case)
    if case.get("kind") == "wide":
        return replay_wide(case)
    if case.get("kind") == "loader":
        return replay_loader(case)
    if case.get("kind") == "split":
        return replay_split(case)
    from acryo._utils import fourier_shell_correlation as fsc

    cfg = case["cfg"]
    s = tuple(cfg["s"])
    df = cfg["df"][0] / cfg["df"][1]
    desc = dict(kind=cfg["kind"], shape=list(s), dfreq=round(df, 5), seed=cfg["seed"])
    fails = []
    shells = case["shells"]
    uncertain = [sh["nb"] > 0 or sh["nb_up"] > 0 for sh in shells]
    if cfg["kind"] == "values":
        a = np.array(case["img1"], dtype=np.float32).reshape(s)
        b = np.array(case["img2"], dtype=np.float32).reshape(s)
    else:
        a = np.zeros(s, np.float32)
        a[0, 0, 0] = 1.0
        b = a.copy()
    freq, out = engine.api(fsc, a, b, df)
    out = np.asarray(out, dtype=np.float64)
    if not any(uncertain) and len(out) != case["lmax"]:
        fails.append(dict(desc, clause="ShellCount", observed=len(out), expected=case["lmax"]))
        return dict(failures=fails)
    nchk = 0
    for L, sh in enumerate(shells[: len(out)]):
        if abs(float(freq[L]) - (L + 0.5) * df) > 1e-6:
            fails.append(dict(desc, clause="ShellFrequency", shell=L))
        if uncertain[L]:
            continue
        if cfg["kind"] == "values":
            want = sh["cross"] / math.sqrt(sh["p1"] * sh["p2"]) if sh["p1"] * sh["p2"] > 0 else float("nan")
        else:
            want = 1.0 if sh["n"] > 0 else float("nan")
        got = out[L]
        nchk += 1
        if math.isnan(want) != math.isnan(got) or (not math.isnan(want) and abs(got - want) > 2e-5):
            fails.append(dict(desc, clause="ShellValue", shell=L, observed=float(got), expected=want, nbins=sh["n"]))
    if cfg["kind"] == "values":
        fin = np.isfinite(out)
        if np.any(np.abs(out[fin]) > 1 + 1e-5):
            fails.append(dict(desc, clause="Bounded"))
        _, ba = fsc(b, a, df)
        if not np.allclose(np.asarray(ba)[fin], out[fin], atol=1e-5):
            fails.append(dict(desc, clause="SymmetricInInputs"))
        _, g = fsc((a * 2.5).astype(np.float32), (b * 0.5).astype(np.float32), df)
        if not np.allclose(np.asarray(g)[fin], out[fin], atol=1e-5):
            fails.append(dict(desc, clause="GainInvariant"))
        # gains of many orders of magnitude (detector counts vs normalised maps), as exact powers of two: the scaled spectra are
        # exactly the scaled originals, so only the per-shell sums and their normalisation can differ
        for ka, kb in ((22, 21), (40, 38), (-40, -38)):
            _, g2 = fsc((a * np.float32(2.0**ka)).astype(np.float32), (b * np.float32(2.0**kb)).astype(np.float32), df)
            if not np.allclose(np.asarray(g2)[fin], out[fin], atol=1e-5):
                fails.append(dict(desc, clause="GainInvariant", gains_log2=[ka, kb]))
                break
        _, aa = fsc(a, a, df)
        aa = np.asarray(aa)
        if not np.allclose(aa[np.isfinite(aa)], 1.0, atol=1e-5):
            fails.append(dict(desc, clause="SelfIsOne"))
    return dict(failures=fails, classes={"shells_checked": nchk, "shells_boundary": int(sum(uncertain))})


def replay_loader(case) -> dict:
    """Relations between real calls: loader FSC = FSC of the two C09 half-averages after the mask."""
    import polars as pl
    from acryo import Molecules, SubtomogramLoader
    from acryo._utils import fourier_shell_correlation as fsc

    rng = np.random.default_rng(case["seed0"])
    n, box = case["n"], tuple(case["box"])
    tomo = rng.normal(size=(24, 24, 10 * n + 12)).astype(np.float32)
    pos = np.array([[12, 12, 10 + 10 * i] for i in range(n)], dtype=np.float32)
    mole = Molecules(pos, features=pl.DataFrame({"g": [i % 2 if n < 7 else int(i >= n - 2) for i in range(n)]}))
    loader = SubtomogramLoader(tomo, mole, order=1, output_shape=box)
    mask = None
    if case["mask"]:
        zz, yy, xx = np.indices(box)
        c = (np.array(box) - 1) / 2
        rr = np.sqrt((zz - c[0]) ** 2 + (yy - c[1]) ** 2 + (xx - c[2]) ** 2)
        mask = (rr <= min(box) / 2).astype(np.float32)
        if case["mask"] == "soft":       # a soft edge: values strictly between 0 and 1
            mask = np.clip((min(box) / 2 + 1.0 - rr) / 2.0, 0.0, 1.0).astype(np.float32)
    desc = dict(kind="loader", n=n, box=list(box), mask=case["mask"], n_set=case["n_set"], seed=case["seed"], zero_norm=case["zero_norm"])
    fails = []
    dfq = case["dfreq"]
    r = engine.api(loader.fsc_with_halfmaps, mask=mask, seed=case["seed"], n_set=case["n_set"], dfreq=dfq, zero_norm=case["zero_norm"], squeeze=False)
    r2 = engine.api(loader.fsc_with_halfmaps, mask=mask, seed=case["seed"], n_set=case["n_set"], dfreq=dfq, zero_norm=case["zero_norm"], squeeze=False)
    halves = loader.average_split(n_set=case["n_set"], seed=case["seed"], squeeze=False, output_shape=box)
    m = 1.0 if mask is None else mask
    for i in range(case["n_set"]):
        h0, h1 = np.asarray(r.halfmaps[0][i]), np.asarray(r.halfmaps[1][i])
        _, ref = fsc(h0 * m, h1 * m, dfq)
        got = r.fsc[f"FSC-{i}"].to_numpy()
        if got.shape != np.asarray(ref).shape or not np.allclose(got, ref, atol=1e-5, equal_nan=True):
            fails.append(dict(desc, clause="LoaderFscIsFscOfHalves", set=i))
        shift = halves.mean() if case["zero_norm"] else 0.0
        if not (np.allclose(h0 + shift, halves[i, 0], atol=1e-4) and np.allclose(h1 + shift, halves[i, 1], atol=1e-4)):
            fails.append(dict(desc, clause="HalfmapsAreSplitAverages", set=i))
        if not np.allclose(r2.fsc[f"FSC-{i}"].to_numpy(), got, atol=0, equal_nan=True):
            fails.append(dict(desc, clause="Reproducible", set=i))
    if abs(float(r.fsc["freq"][0]) - 0.5 * dfq) > 1e-6:
        fails.append(dict(desc, clause="ShellFrequency"))
    # the three entry points and the argument forms of the mask describe the same computation
    f1 = engine.api(loader.fsc, mask=mask, seed=case["seed"], n_set=case["n_set"], dfreq=dfq)
    fa, avg = engine.api(loader.fsc_with_average, mask=mask, seed=case["seed"], n_set=case["n_set"], dfreq=dfq, zero_norm=case["zero_norm"])
    ref1 = engine.api(loader.fsc_with_halfmaps, mask=mask, seed=case["seed"], n_set=case["n_set"], dfreq=dfq, zero_norm=True, squeeze=False)
    if f1.columns != ref1.fsc.columns or not np.allclose(f1.to_numpy(), ref1.fsc.to_numpy(), atol=1e-6, equal_nan=True):
        fails.append(dict(desc, clause="FscEntryPointsAgree", entry="fsc"))
    if fa.columns != r.fsc.columns or not np.allclose(fa.to_numpy(), r.fsc.to_numpy(), atol=1e-6, equal_nan=True):
        fails.append(dict(desc, clause="FscEntryPointsAgree", entry="fsc_with_average"))
    if not np.allclose(np.asarray(avg), (np.asarray(r.halfmaps[0][0]) + np.asarray(r.halfmaps[1][0])) / 2, atol=1e-5):
        fails.append(dict(desc, clause="AverageIsMeanOfFirstHalfMaps"))
    if mask is not None:
        from acryo import pipe

        rp = engine.api(loader.fsc_with_halfmaps, mask=pipe.from_array(mask, original_scale=float(loader.scale)), seed=case["seed"], n_set=case["n_set"],
                        dfreq=dfq, zero_norm=case["zero_norm"], squeeze=False)
        if not np.allclose(rp.fsc.to_numpy(), r.fsc.to_numpy(), atol=1e-6, equal_nan=True):
            fails.append(dict(desc, clause="MaskAsProviderIsMaskAsArray"))
    # grouped FSC
    grp = loader.groupby("g")
    gf = engine.api(grp.fsc, mask=mask, seed=case["seed"], n_set=case["n_set"], dfreq=dfq)
    gh = grp.average_split(n_set=case["n_set"], seed=case["seed"], squeeze=False, output_shape=box)
    for key, df in gf.items():
        members = np.asarray(loader.filter(pl.col("g") == key).asnumpy(output_shape=box), dtype=np.float64)
        for i in range(case["n_set"]):
            # the two halves of a group are plain means over two disjoint parts of the group that together are the group
            tot, nm = members.sum(axis=0), len(members)
            h0, h1 = np.asarray(gh[key][i, 0], dtype=np.float64), np.asarray(gh[key][i, 1], dtype=np.float64)
            if nm >= 2 and not any(float(np.max(np.abs(n0 * h0 + (nm - n0) * h1 - tot))) < 1e-3 * max(1.0, float(np.abs(tot).max())) for n0 in range(1, nm)):
                fails.append(dict(desc, clause="GroupHalvesAreDisjointMeans", key=str(key), set=i, members=nm))
            _, ref = fsc(gh[key][i, 0] * m, gh[key][i, 1] * m, dfq)
            if not np.allclose(df[f"FSC-{i}"].to_numpy(), ref, atol=1e-5, equal_nan=True):
                fails.append(dict(desc, clause="GroupFscIsFscOfGroupHalves", key=str(key), set=i))
    return dict(failures=fails)


def replay_split(case) -> dict:
    """"the two disjoint half-averages": the half maps returned by fsc_with_halfmaps over weighted one-hot sub-volumes
    (C09's lattice) are recorded as an average_split event and judged by TLC with the Averaging acceptor."""
    from harness.props import c09

    loader = c09._build(case)
    cfg = case["cfg"]
    subs = [c09._onehot(x) for x in loader.asnumpy()]
    keys = [int(x) for x in loader.molecules.features["k"].to_list()]
    out = dict(avg=[], sets=[], sets2=[], groups=[], err="")
    try:
        rs = [loader.fsc_with_halfmaps(seed=cfg["seed"], n_set=cfg["n_set"], zero_norm=False, squeeze=False) for _ in range(2)]
        for r, name in zip(rs, ("sets", "sets2")):
            out[name] = [dict(h0=c09._sparse(r.halfmaps[0][i]), h1=c09._sparse(r.halfmaps[1][i])) for i in range(cfg["n_set"])]
    except Exception as e:  # noqa: BLE001
        out["err"] = type(e).__name__ + ": " + str(e)[:100]
    return dict(events=[dict(id=f"split:{case['_i']}", op="average_split", subs=subs, keys=keys, out=out, n_set=cfg["n_set"], seed=cfg["seed"])])


def _split_cases(seed):
    out = []
    i = 0
    for n in (2, 3, 4, 5, 6, 7):
        for kind in ("single", "batch"):
            for n_set in (1, 2):
                for sd in (0, 1, (seed + n) % 11):
                    subs = [dict(v=(4 * j + n) % 27, w=1 + j % 3) for j in range(n)]
                    out.append(dict(kind="split", _i=i, cfg=dict(n=n, kind=kind, chunks="numpy", n_set=n_set, seed=sd),
                                    subs=subs, keys=[j % 2 for j in range(n)]))
                    i += 1
    return out


def run(rep: engine.Report, tier: str, seed: int):
    mc = rep.add_tlc(engine.tlc("MC_C17", "MC_C17", workers=1, timeout=1800))
    cases = mc.emitted
    if not cases:
        raise engine.MachineryError("MC_C17 emitted nothing")
    lcases = []
    i = 0
    for n in (4, 7, 9):
        for box in ((8, 8, 8), (7, 8, 9), (5, 5, 5)):
            for mask in (False, True, "soft"):
                for n_set in (1, 2):
                    for zn in (True, False):
                        i += 1
                        lcases.append(dict(kind="loader", n=n, box=list(box), mask=mask, n_set=n_set, zero_norm=zn,
                                           seed=(seed + i) % 5, seed0=seed * 1000 + i, dfreq=(1.0 / min(box), 1.5 / min(box), 0.25)[i % 3]))
    mcases = _model_cases() + _wide_cases(seed)
    allc = cases + lcases + mcases
    results = engine.parallel_replay("harness.props.c17", "replay", allc)
    engine.collect(rep, allc, results, key=lambda c: c.get("cfg") or {k: c[k] for k in c if k != "seed0"})
    scases = _split_cases(seed)
    events = []
    for c, r in zip(scases, engine.parallel_replay("harness.props.c17", "replay", scases)):
        if "machinery_error" in r:
            rep.machinery_error(r["machinery_error"])
        else:
            events.extend(r["events"])
    res, verdict = engine.validate_trace("Trace_Avg", events, tag="fschalves")
    rep.add_tlc(res)
    badmap = {b["i"]: b for b in verdict["bad"]}
    bycase = {f"split:{c['_i']}": c for c in scases}
    for i, e in enumerate(events, start=1):
        fails = [dict(clause="HalvesNotDisjointMeans", why=badmap[i]["why"], n=len(e["subs"]), error=e["out"]["err"], event=e)] if i in badmap else []
        rep.record(bycase[e["id"]], fails, nontrivial_key=("split", e["subs"], e["n_set"], e["seed"]))
    rep.count("halfmap_split_events", len(events))
    rep.exhaustive = True
    rep.traces_validated = len(allc) + len(scases)
    memo.run_family(rep, ["fsc_landscape"])
    rep.samples = [dict(cfg=cases[0]["cfg"], shells=cases[0]["shells"][:3]), {k: v for k, v in lcases[0].items()}]
    rep.rule = (
        "TLC computes exact Gaussian-integer DFTs of integer image pairs on 7 box shapes with lengths in {1,2,4} x 3 shell "
        "widths x 6 image pairs (per-shell cross/power sums; laws: symmetry, self = power, gain covariance, Parseval) and the "
        "exact shell occupancy for 22 further shapes up to 6^3 (odd/even/non-cubic); the real fourier_shell_correlation is "
        f"compared shell by shell ({len(cases)} cases) and {len(lcases)} loader/group FSC cases are checked through the stated "
        "relations (FSC of the C09 halves after the mask, half maps = split averages minus the mean, reproducibility); "
        f"{len(mcases)} FSCAlignment score/landscape/align cases (3 boxes x tilt none/single/dual x amplitudes 2^-20..2^10 x orientations: symmetric, "
        "gain invariant, bounded, 1 for identical inputs, equal to the mean shell value, the same through every entry point); "
        f"{len(scases)} fsc_with_halfmaps calls over weighted one-hot sub-volumes are judged by TLC with the Averaging acceptor "
        "(the two half maps are means over a bipartition of the molecules: disjoint, exhaustive, reproducible)"
    )
    rep.assumptions += ["shells adjacent to a bin lying exactly on a shell boundary are not value-checked (floating-point labelling)"]


def replay_file(path: str) -> int:
    v = json.loads(open(path).read())
    r = replay(v["case"])
    if v["case"].get("kind") == "split":
        _, verdict = engine.validate_trace("Trace_Avg", r["events"], tag="replay")
        print(json.dumps(dict(events=r["events"], verdict=verdict), indent=1))
        return 1 if verdict["bad"] else 0
    print(json.dumps(r, indent=1, default=str))
    return 1 if r["failures"] else 0


def selftest() -> int:
    mc = engine.tlc("MC_C17", "MC_C17", workers=1)
    case = next(c for c in mc.emitted if c["cfg"]["kind"] == "values" and c["cfg"]["s"] == [4, 4, 4] and c["cfg"]["df"] == [3, 8])
    good = replay(case)
    bad = json.loads(json.dumps(case))
    for sh in bad["shells"]:
        sh["cross"] += 7
    r = replay(bad)
    ok = not good["failures"] and bool(r["failures"])
    print("selftest C17:", "ok" if ok else f"FAILED {good}")
    return 0 if ok else 2
