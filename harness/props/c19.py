"""C19 - image pipelines compose like functions and are parameterised in physical units.

spec/Pipe.tla: a denotational semantics (Eval) of provider/converter expressions over tiny rational
images: @ is nested application, operators act voxel-wise with either operand order, comparisons give
0/1; MC_C19.tla enumerates every expression up to depth 2 over 2 providers, 3 converters, 2 scalars and
10 operators at 3 scales, checks associativity and the reflected-operator law on the denotation and
emits the value of every program, plus the nm->pixel radius table and ball sizes.  Each program is
rebuilt from real ImageProvider / ImageConverter objects (made with provider_function /
converter_function) and evaluated.  Physical-unit claims are checked as relations between real calls
together with the structural numbers TLC provides.
"""
from __future__ import annotations

import json
import operator

import numpy as np

from harness import engine

PROP = "C19"
LEVEL = "model_checking"
SHAPE = (1, 1, 2)
OPS = dict(add=operator.add, sub=operator.sub, mul=operator.mul, div=operator.truediv, lt=operator.lt, le=operator.le, gt=operator.gt,
           ge=operator.ge, eq=operator.eq, ne=operator.ne)


def _registry():
    from acryo.pipe import converter_function, provider_function

    @provider_function
    def prov_a(scale, k):
        return (2.0 * np.arange(1, 3, dtype=np.float64) + k * 2.0 * scale).reshape(SHAPE)

    @provider_function
    def prov_b(scale):
        return (7.0 - 3.0 * np.arange(1, 3, dtype=np.float64)).reshape(SHAPE)

    @converter_function
    def addk(img, scale, k):
        return img + k * scale

    @converter_function
    def mul2(img, scale):
        return img * 2.0

    @converter_function
    def thr(img, scale, t=3.0):
        return (img > t).astype(np.float64)

    return dict(a=prov_a(1), b=prov_b()), dict(addk=addk(3.0), mul2=mul2(), thr=thr())


def build(e, P, C):
    t = e["t"]
    if t == "prov":
        return P[e["id"]]
    if t == "sc":
        return float(e["v"])
    if t == "conv":
        return C[e["id"]]
    if t == "app":
        return build(e["c"], P, C) @ build(e["e"], P, C)
    if t == "ccomp":
        return build(e["f"], P, C) @ build(e["g"], P, C)
    if t in ("neg", "cneg"):
        return -build(e["e"], P, C)
    if t in ("bin", "cbin"):
        return OPS[e["op"]](build(e["l"], P, C), build(e["r"], P, C))
    raise ValueError(t)


def _kind(e):
    t = e["t"]
    if t in ("bin", "cbin"):
        lt, rt = e["l"]["t"], e["r"]["t"]
        side = "scalar_left" if lt == "sc" else ("scalar_right" if rt == "sc" else "two_pipelines")
        return f"{t}:{e['op']}:{side}"
    if t == "app":
        return "app:" + _kind(e["c"])
    return t


def replay_prog(case) -> dict:
    P, C = _registry()
    scale = case["s2"] / 2.0
    fails = []
    if case["kind"] == "assoc":
        a = case["e"]
        f, g, h, p = (build(a[k], P, C) for k in ("f", "g", "h", "p"))
        desc = dict(part="assoc", s2=case["s2"])
        want = np.array([n / d for n, d in case["value"]])
        for name, obj in (("(f@g)@h@p", ((f @ g) @ h) @ p), ("f@(g@h)@p", (f @ (g @ h)) @ p), ("f@(g@(h@p))", f @ (g @ (h @ p)))):
            got = np.asarray(engine.api(obj, scale), dtype=np.float64).ravel()
            if got.shape != want.shape or np.max(np.abs(got - want)) > 1e-9:
                fails.append(dict(desc, clause="ComposeAssociative", form=name))
        nested = np.asarray(f(g(h(p(scale), scale), scale), scale)).ravel()
        if np.max(np.abs(nested - want)) > 1e-9:
            fails.append(dict(desc, clause="ComposeIsNestedApplication"))
        return dict(failures=fails)
    e = case["e"]
    desc = dict(part="prog", form=_kind(e), s2=case["s2"])
    if not case["defined"]:
        return dict(failures=[], classes={"undefined_division": 1})
    want = np.array([n / d for n, d in case["value"]])
    try:
        obj = build(e, P, C)
        got = np.asarray(obj(scale), dtype=np.float64).ravel()
    except Exception as ex:  # noqa: BLE001
        return dict(failures=[dict(desc, clause="Raised", error=type(ex).__name__ + ": " + str(ex)[:80])])
    if got.shape != want.shape or np.max(np.abs(got - want)) > 1e-9:
        fails.append(dict(desc, clause="EvalMatches", observed=got.tolist(), expected=want.tolist()))
    return dict(failures=fails, classes={"evaluated": 1})


def replay_units(case) -> dict:
    """Physical-unit claims.  `case` carries the radius table and ball sizes computed by TLC."""
    from acryo import pipe

    fails = []
    rng = np.random.default_rng(3)
    desc = dict(part="units")
    # radius in nm -> pixels, observed through the dilation of a single voxel
    ball = case["ball"]
    for r2, row in enumerate(case["radius"]):
        for s2i, rpx in enumerate(row):
            s2 = s2i + 1
            if rpx > 3:
                continue
            img = np.zeros((9, 9, 9), bool)
            img[4, 4, 4] = True
            out = np.asarray(engine.api(pipe.dilation(r2 / 2.0), img, s2 / 2.0))
            if int(out.sum()) != ball[rpx]:
                fails.append(dict(desc, clause="RadiusToPixels", radius_nm=r2 / 2.0, scale=s2 / 2.0, observed=int(out.sum()), expected=ball[rpx]))
    # unit covariance: parameters and scale multiplied by the same factor give the same result
    blob = np.zeros((11, 11, 11), bool)
    blob[3:8, 4:8, 3:7] = True
    fimg = rng.normal(size=(11, 11, 11)).astype(np.float32)
    for lam in (0.5, 2.0, 3.0):
        for name, mk, img in (("dilation", lambda k: pipe.dilation(1.6 * k), blob), ("erosion", lambda k: pipe.dilation(-1.2 * k), blob),
                              ("closing", lambda k: pipe.closing(1.6 * k), blob), ("opening", lambda k: pipe.closing(-1.2 * k), blob),
                              ("gaussian_smooth", lambda k: pipe.gaussian_smooth(1.3 * k), blob), ("gaussian_filter", lambda k: pipe.gaussian_filter(sigma=1.1 * k), fimg),
                              ("shift", lambda k: pipe.shift((1.0 * k, -0.5 * k, 0.0)), fimg), ("soft_otsu", lambda k: pipe.soft_otsu(1.0 * k, 1.5 * k), fimg)):
            a = np.asarray(mk(1.0)(img, 0.8), dtype=np.float64)
            b = np.asarray(mk(lam)(img, 0.8 * lam), dtype=np.float64)
            if a.shape != b.shape or np.max(np.abs(a - b)) > 1e-5:
                fails.append(dict(desc, clause="UnitCovariance", what=name, factor=lam))
        g1 = np.asarray(pipe.from_gaussian(shape=(4.0, 5.0, 6.0), sigma=1.2, shift=(0.5, 0.0, -1.0))(0.5))
        g2 = np.asarray(pipe.from_gaussian(shape=(4.0 * lam, 5.0 * lam, 6.0 * lam), sigma=1.2 * lam, shift=(0.5 * lam, 0.0, -1.0 * lam))(0.5 * lam))
        if g1.shape != g2.shape or np.max(np.abs(g1 - g2)) > 1e-5:
            fails.append(dict(desc, clause="UnitCovariance", what="from_gaussian", factor=lam))
    # Gaussian provider: maximum at the voxel nearest to (shape_px - 1)/2 + shift/scale, value decreasing with distance
    for shape_nm, scale, shift in (((4.0, 5.0, 6.0), 0.5, (0.5, 0.0, -1.0)), ((3.0, 3.0, 3.5), 0.5, (0.0, 0.0, 0.0)), ((8.0, 6.0, 6.0), 1.0, (1.0, -1.0, 2.0)), ((4.5, 4.5, 4.5), 0.5, (0.25, 0.25, -0.25))):
        g = np.asarray(engine.api(pipe.from_gaussian(shape=shape_nm, sigma=1.0, shift=shift), scale))
        shp = tuple(int(round(s / scale)) for s in shape_nm)
        c = (np.array(shp) - 1) / 2 + np.array(shift) / scale
        if g.shape != shp:
            fails.append(dict(desc, clause="GaussianShape", observed=list(g.shape), expected=list(shp)))
            continue
        am = np.array(np.unravel_index(int(np.argmax(g)), g.shape))
        if np.max(np.abs(am - c)) > 0.5 + 1e-6:
            fails.append(dict(desc, clause="GaussianCentre", argmax=am.tolist(), centre=c.tolist()))
        zz, yy, xx = np.indices(shp)
        ref = np.exp(-0.5 * (((zz - c[0]) ** 2 + (yy - c[1]) ** 2 + (xx - c[2]) ** 2) / (1.0 / scale) ** 2))
        if np.max(np.abs(g - ref)) > 1e-5:
            fails.append(dict(desc, clause="GaussianProfile", maxerr=float(np.max(np.abs(g - ref)))))
    # rescaling providers
    arr = rng.normal(size=(6, 8, 10)).astype(np.float32)
    same = np.asarray(pipe.from_array(arr, original_scale=1.0)(1.005))
    if same.shape != arr.shape or not np.array_equal(same, arr):
        fails.append(dict(desc, clause="RescaleWithinTolerance"))
    for osc, sc in ((1.0, 0.5), (0.5, 1.0), (1.0, 0.8)):
        out = np.asarray(pipe.from_array(arr, original_scale=osc)(sc))
        want = tuple(int(round(n * osc / sc)) for n in arr.shape)
        if out.shape != want:
            fails.append(dict(desc, clause="RescaleShape", observed=list(out.shape), expected=list(want)))
    outs = pipe.from_arrays([arr, arr[:4]], original_scale=1.0)(0.5)
    if [o.shape for o in outs] != [(12, 16, 20), (8, 16, 20)]:
        fails.append(dict(desc, clause="RescaleShape", what="from_arrays"))
    # mask converters: extensive / anti-extensive, values in [0, 1]
    for r in (1.0, 2.0):
        if not np.all(np.asarray(pipe.dilation(r)(blob, 0.5)) >= blob):
            fails.append(dict(desc, clause="Extensive", what="dilation"))
        if not np.all(np.asarray(pipe.dilation(-r)(blob, 0.5)) <= blob):
            fails.append(dict(desc, clause="AntiExtensive", what="erosion"))
        if not np.all(np.asarray(pipe.closing(r)(blob, 0.5)) >= blob):
            fails.append(dict(desc, clause="Extensive", what="closing"))
        if not np.all(np.asarray(pipe.closing(-r)(blob, 0.5)) <= blob):
            fails.append(dict(desc, clause="AntiExtensive", what="opening"))
        gs = np.asarray(pipe.gaussian_smooth(r)(blob, 0.5))
        if gs.min() < 0 or gs.max() > 1 + 1e-6 or not np.all(gs >= blob.astype(np.float32) - 1e-6):
            fails.append(dict(desc, clause="SoftMaskRange", what="gaussian_smooth"))
        so = np.asarray(pipe.soft_otsu(r, r)(np.abs(fimg) + blob * 5, 0.5))
        if so.min() < 0 or so.max() > 1 + 1e-6:
            fails.append(dict(desc, clause="SoftMaskRange", what="soft_otsu"))
    # user functions whose `scale` parameter has a DEFAULT are still called with the scale of the evaluation
    from acryo.pipe import converter_function, provider_function

    @provider_function
    def ramp(scale=1.0, n=4):
        return np.full((n, n, n), scale, dtype=np.float32)

    @converter_function
    def addscale(img, scale=1.0, k=1.0):
        return img + k * scale

    for sc in (0.5, 2.0):
        try:
            pv = np.asarray(ramp()(sc))
            pv2 = np.asarray(ramp(n=3)(sc))
            cv = np.asarray(addscale(k=3.0)(arr, sc))
            comp = np.asarray((addscale(k=3.0) @ ramp())(sc))
            ok = (pv.shape == (4, 4, 4) and np.allclose(pv, sc) and pv2.shape == (3, 3, 3) and np.allclose(cv, arr + 3.0 * sc)
                  and np.allclose(comp, sc + 3.0 * sc))
        except Exception as ex:  # noqa: BLE001
            ok = False
        if not ok:
            fails.append(dict(desc, clause="CurriedFunctionGetsTheScale", scale=sc))
    # a pipeline object is a function: evaluating it again gives the same image, whatever the caller did to the array it was
    # given the first time, and converters never change the image they are applied to
    from acryo import pipe as _pp

    blob_f = rng.normal(size=(8, 8, 8)).astype(np.float32)
    # (from_array at the array's own scale hands the caller's array back and is therefore not in this list)
    pure = (("from_array_rescaled", _pp.from_array(blob_f, original_scale=0.5)),
            ("from_gaussian", _pp.from_gaussian(shape=(4.0, 4.0, 4.0), sigma=1.0)), ("user_provider", ramp()),
            ("composed", _pp.gaussian_filter(sigma=1.0) @ _pp.from_array(blob_f, original_scale=1.0)),
            ("expression", _pp.from_array(blob_f, original_scale=1.0) > 0.2))
    for name, prov in pure:
        first = np.asarray(prov(1.0))
        keep = np.array(first, copy=True)
        try:
            first *= 0                       # the caller post-processes ITS array in place
        except (ValueError, TypeError):
            pass
        again = np.asarray(prov(1.0))
        if again.shape != keep.shape or not np.array_equal(again, keep):
            fails.append(dict(desc, clause="ProviderIsAFunction", what=name))
    src_img = blob_f.copy()
    for name, conv in (("gaussian_filter", _pp.gaussian_filter(sigma=1.0)), ("lowpass_filter", _pp.lowpass_filter(cutoff=0.3)),
                       ("dilation", _pp.dilation(1.0)), ("soft_otsu", _pp.soft_otsu(1.0, 1.0)), ("user_converter", addscale(k=2.0))):
        a1 = np.array(conv(src_img, 1.0), copy=True)
        a2 = np.asarray(conv(src_img, 1.0))
        if not np.array_equal(src_img, blob_f):
            fails.append(dict(desc, clause="ConverterLeavesItsInput", what=name))
            src_img = blob_f.copy()
        if a1.shape != a2.shape or not np.array_equal(a1, a2):
            fails.append(dict(desc, clause="ConverterIsAFunction", what=name))
    # parameters given as ARRAYS, at a scale other than 1 (where nm and pixels differ): a converter is the same function on every
    # call and leaves the caller's parameter alone; the shift in pixels is the shift in nm over the scale
    par = np.array([1.0, -2.0, 0.5])
    par_keep = par.copy()
    shc = _pp.shift(par)
    s1 = np.array(shc(blob_f.copy(), 0.5), copy=True)
    s2 = np.asarray(shc(blob_f.copy(), 0.5))
    s3 = np.asarray(_pp.shift((2.0, -4.0, 1.0))(blob_f.copy(), 1.0))
    if not np.array_equal(par, par_keep):
        fails.append(dict(desc, clause="ConverterLeavesItsParameter", what="shift"))
    if not np.array_equal(s1, s2):
        fails.append(dict(desc, clause="ConverterIsAFunction", what="shift(ndarray) at scale 0.5"))
    if not np.allclose(s1, s3, atol=1e-5):
        fails.append(dict(desc, clause="UnitCovariance", what="shift(ndarray)"))
    # the list provider is the single-image provider applied to every image, with ALL its parameters
    for osc, sc, tol in ((0.52, 0.5, 0.05), (1.009, 1.0, 0.0), (1.0, 0.5, 0.01), (0.52, 0.5, 0.01)):
        big_f = np.random.default_rng(5).normal(size=(12, 16, 20)).astype(np.float32)   # large enough for a 1-4 % rescale to change the shape
        many = engine.api(_pp.from_arrays([big_f, big_f * 2], original_scale=osc, tol=tol), sc)
        one = [np.asarray(engine.api(_pp.from_array(im, original_scale=osc, tol=tol), sc)) for im in (big_f, big_f * 2)]
        if len(many) != 2 or any(np.asarray(m).shape != o.shape or not np.allclose(np.asarray(m), o, atol=1e-5) for m, o in zip(many, one)):
            fails.append(dict(desc, clause="ListProviderIsTheSingleProviderPerImage", original_scale=osc, scale=sc, tol=tol,
                              observed=[list(np.asarray(m).shape) for m in many], expected=[list(o.shape) for o in one]))
    # from_file: the image is resampled by original_scale / scale, where original_scale is the caller's value if given and the
    # file header's otherwise (mrc: voxel size in Angstrom / 10)
    import os
    import tempfile

    import mrcfile

    tmpd = tempfile.mkdtemp(prefix="c19-", dir=str(engine.WORK)) if engine.WORK.exists() else tempfile.mkdtemp(prefix="c19-")
    try:
        vol = rng.normal(size=(8, 10, 12)).astype(np.float32)
        for header_nm in (1.0, 0.5):
            path = os.path.join(tmpd, f"v{int(header_nm * 10)}.mrc")
            with mrcfile.new(path, overwrite=True) as m:
                m.set_data(vol)
                m.voxel_size = header_nm * 10.0
            for override, sc in ((None, 1.0), (None, 0.5), (None, 2.0), (0.5, 1.0), (1.0, 0.5), (2.0, 1.0), (0.5, 0.5), (1.0, 1.0)):
                eff = header_nm if override is None else override
                got = np.asarray(engine.api(_pp.from_file(path, original_scale=override), sc))
                want_shape = tuple(int(round(n * eff / sc)) for n in vol.shape)
                if abs(eff / sc - 1) < 0.01:
                    ok = got.shape == vol.shape and np.array_equal(got, vol)
                else:
                    ok = got.shape == want_shape
                if not ok:
                    fails.append(dict(desc, clause="FromFileRescalesByOriginalScale", header_nm=header_nm, original_scale=override, scale=sc,
                                      observed=list(got.shape), expected=list(want_shape)))
    finally:
        import shutil

        shutil.rmtree(tmpd, ignore_errors=True)
    # loader-level normalisation of template / mask inputs
    from acryo import Molecules, SubtomogramLoader

    ld = SubtomogramLoader(np.zeros((8, 8, 8), np.float32), Molecules(np.zeros((1, 3))), scale=0.5)
    t, m = ld.normalize_input(pipe.from_array(arr, original_scale=1.0), pipe.soft_otsu(1.0, 1.0))
    if t.shape != (12, 16, 20) or np.asarray(m).shape != t.shape:
        fails.append(dict(desc, clause="LoaderNormalizeInput"))
    # normalize_template / normalize_mask: providers are evaluated AT THE LOADER'S SCALE, arrays are taken as they are, a converter
    # given as mask is bound to the loader's scale (the same image it gives when applied with that scale by hand)
    prov = pipe.from_array(arr, original_scale=1.0)
    want_t = np.asarray(prov(0.5))
    got_t = np.asarray(engine.api(ld.normalize_template, prov))
    if got_t.shape != want_t.shape or not np.allclose(got_t, want_t, atol=1e-5):
        fails.append(dict(desc, clause="LoaderNormalizeTemplate", what="provider", observed=list(got_t.shape), expected=list(want_t.shape)))
    if engine.api(ld.normalize_template, arr) is not arr and not np.array_equal(engine.api(ld.normalize_template, arr), arr):
        fails.append(dict(desc, clause="LoaderNormalizeTemplate", what="array"))
    many = engine.api(ld.normalize_template, [prov, arr], allow_multiple=True)
    if len(many) != 2 or np.asarray(many[0]).shape != want_t.shape or not np.array_equal(np.asarray(many[1]), arr):
        fails.append(dict(desc, clause="LoaderNormalizeTemplate", what="list"))
    stack = np.stack([arr, arr * 2])
    spl = engine.api(ld.normalize_template, stack, allow_multiple=True)
    if len(spl) != 2 or not (np.array_equal(spl[0], arr) and np.array_equal(spl[1], arr * 2)):
        fails.append(dict(desc, clause="LoaderNormalizeTemplate", what="stack"))
    conv = pipe.soft_otsu(1.0, 1.0)
    bound = engine.api(ld.normalize_mask, conv)
    mk = np.asarray(engine.api(bound, want_t))
    by_hand = np.asarray(conv(want_t, 0.5))
    if mk.shape != by_hand.shape or not np.allclose(mk, by_hand, atol=1e-5):
        fails.append(dict(desc, clause="LoaderNormalizeMask", what="converter bound to the loader's scale"))
    pm = np.asarray(engine.api(ld.normalize_mask, pipe.from_array((arr > arr.mean()).astype(np.float32), original_scale=1.0)))
    if pm.shape != want_t.shape or pm.dtype != np.float32:
        fails.append(dict(desc, clause="LoaderNormalizeMask", what="provider", observed=list(pm.shape)))
    if engine.api(ld.normalize_mask, None) is not None:
        fails.append(dict(desc, clause="LoaderNormalizeMask", what="none"))
    return dict(failures=fails, classes={"units": 1})


def replay_gauss(case) -> dict:
    """from_gaussian geometry: pixel shape, centre (TLC's exact rational per axis), profile, point symmetry."""
    from acryo import pipe

    ax = case["axes"]
    scale = ax[0]["scale10"] / 10
    shape_nm = tuple(a["shape10"] / 10 for a in ax)
    shift = tuple(a["shift10"] / 10 for a in ax)
    desc = dict(part="gauss", shape_nm=list(shape_nm), scale=scale, shift=list(shift), integral=all(a["shape10"] % a["scale10"] == 0 for a in ax))
    fails = []
    g = np.asarray(engine.api(pipe.from_gaussian(shape=shape_nm, sigma=1.0, shift=shift), scale), dtype=np.float64)
    shp = tuple(a["n"] for a in ax)
    if g.shape != shp:
        return dict(failures=[dict(desc, clause="GaussianShape", observed=list(g.shape), expected=list(shp))])
    c = np.array([a["c"][0] / a["c"][1] for a in ax])
    am = np.array(np.unravel_index(int(np.argmax(g)), g.shape))
    if np.max(np.abs(am - c)) > 0.5 + 1e-6:
        fails.append(dict(desc, clause="GaussianCentre", argmax=am.tolist(), centre=c.tolist()))
    zz, yy, xx = np.indices(shp)
    ref = np.exp(-0.5 * (((zz - c[0]) ** 2 + (yy - c[1]) ** 2 + (xx - c[2]) ** 2) / (1.0 / scale) ** 2))
    if np.max(np.abs(g - ref)) > 1e-5:
        fails.append(dict(desc, clause="GaussianProfile", maxerr=float(np.max(np.abs(g - ref)))))
    if all(x == 0 for x in shift) and np.max(np.abs(g - g[::-1, ::-1, ::-1])) > 1e-5:
        fails.append(dict(desc, clause="GaussianPointSymmetric"))
    return dict(failures=fails, classes={"gauss": 1})


def replay_atoms(case) -> dict:
    """from_atoms against TLC's exact histogram (coordinates in quarter pixels, so the expectation is the same at every scale)."""
    from acryo import pipe

    a4 = np.array(case["atoms4"], dtype=np.float64)
    c4 = np.array(case["c4"], dtype=np.float64)
    size = case["hist"]["size"]
    fails = []
    for scale in (0.5, 1.0, 2.0, 0.8):
        atoms_nm = a4 / 4.0 * scale
        centre_nm = tuple(c4 / 4.0 * scale)
        for weighted in (False, True):
            desc = dict(part="atoms", natoms=len(a4), centre4=case["c4"], scale=scale, weighted=weighted)
            w = np.array(case["w"], dtype=np.float64) if weighted else None
            got = np.asarray(engine.api(pipe.from_atoms(atoms_nm, weights=w, center=centre_nm), scale), dtype=np.float64)
            want = np.zeros((size,) * 3)
            for b in case["hist"]["bins"]:
                want[tuple(b["k"])] = b["w"]
            if not weighted:   # unweighted: the number of atoms per bin
                want = np.zeros((size,) * 3)
                for row in a4:
                    k = tuple(int(np.floor((row[ax] - c4[ax]) / 4.0 + size / 2.0)) for ax in range(3))
                    want[k] += 1
                # the bins themselves are TLC's: the unweighted occupancy must have the same support
                if {tuple(b["k"]) for b in case["hist"]["bins"]} != {tuple(int(x) for x in i) for i in np.argwhere(want > 0)}:
                    raise RuntimeError("harness transcription of AtomBin differs from TLC")
            if got.shape != want.shape:
                fails.append(dict(desc, clause="AtomsBoxSize", observed=list(got.shape), expected=[size] * 3))
            elif float(np.max(np.abs(got - want))) > 1e-6:
                fails.append(dict(desc, clause="AtomsHistogram", nbad=int(np.sum(np.abs(got - want) > 1e-6))))
        # the default centre is the mean of the atoms: the same image as passing that mean explicitly
        d0 = np.asarray(pipe.from_atoms(atoms_nm)(scale))
        d1 = np.asarray(pipe.from_atoms(atoms_nm, center=tuple(atoms_nm.mean(axis=0)))(scale))
        if d0.shape != d1.shape or not np.array_equal(d0, d1):
            fails.append(dict(part="atoms", natoms=len(a4), scale=scale, clause="DefaultCentreIsMean"))
    return dict(failures=fails, classes={"atoms": 1})


def _gauss_cases(table) -> list[dict]:
    by = {}
    for a in sorted(table["axes"], key=lambda a: (a["scale10"], a["shift10"], a["shape10"])):
        by.setdefault(a["scale10"], []).append(a)
    out = []
    for sc, axes in sorted(by.items()):
        zero = [a for a in axes if a["shift10"] == 0]
        for i in range(len(zero)):  # unshifted, mixed shapes
            out.append(dict(kind="gauss", axes=[zero[i], zero[(i + 1) % len(zero)], zero[(i + 3) % len(zero)]]))
        for i in range(0, len(axes), 2):  # shifted, mixed shapes and shifts
            out.append(dict(kind="gauss", axes=[axes[i], axes[(i + 5) % len(axes)], axes[(i + 11) % len(axes)]]))
    return out


def replay(case) -> dict:
    if case["kind"] == "gauss":
        return replay_gauss(case)
    if case["kind"] == "rescale1":
        return replay_rescale(case)
    if case["kind"] == "atoms1":
        return replay_atoms(case)
    return replay_units(case) if case["kind"] == "units" else replay_prog(case)


def replay_rescale(case) -> dict:
    """Pipe.tla KeepAsIs: a rescaling provider resamples by original_scale / scale unless the two agree to within the RELATIVE
    tolerance; every route to the same provider (array, list of arrays, file with the scale given or read from the header)."""
    import os
    import tempfile

    import mrcfile
    from acryo import pipe as _pp

    o, s, tol = case["o"] / 1000.0, case["s"] / 1000.0, case["tolm"] / 1000.0
    img = np.random.default_rng(case["o"] + case["s"]).normal(size=(12, 16, 20)).astype(np.float32)
    want_shape = (12, 16, 20) if case["keep"] else tuple(case["lens"])
    desc = dict(part="rescale", original_scale=o, scale=s, tol=tol, keep=case["keep"])
    fails = []

    def judge(route, got):
        got = np.asarray(got)
        if got.shape != want_shape:
            fails.append(dict(desc, clause="RescaleDecidedByRatio", route=route, observed=list(got.shape), expected=list(want_shape)))
        elif case["keep"] and not np.array_equal(got, img):
            fails.append(dict(desc, clause="KeptImageIsTheImage", route=route))

    judge("from_array", engine.api(_pp.from_array(img, original_scale=o, tol=tol), s))
    many = engine.api(_pp.from_arrays([img, img], original_scale=o, tol=tol), s)
    judge("from_arrays", many[1])
    tmpd = tempfile.mkdtemp(prefix="c19r-", dir=str(engine.WORK)) if engine.WORK.exists() else tempfile.mkdtemp(prefix="c19r-")
    try:
        path = os.path.join(tmpd, "v.mrc")
        with mrcfile.new(path, overwrite=True) as m:
            m.set_data(img)
            m.voxel_size = o * 10.0
        judge("from_file(original_scale)", engine.api(_pp.from_file(path, original_scale=o, tol=tol), s))
        if case["o"] >= 100:        # the header keeps the voxel size in single precision: only where that cannot move the decision
            judge("from_file(header)", engine.api(_pp.from_file(path, tol=tol), s))
        judge("from_files", engine.api(_pp.from_files([path, path], original_scale=o, tol=tol), s)[0])
    finally:
        import shutil

        shutil.rmtree(tmpd, ignore_errors=True)
    return dict(failures=fails)


def run(rep: engine.Report, tier: str, seed: int):
    mc = rep.add_tlc(engine.tlc("MC_C19", "MC_C19", workers=1))
    cases = mc.emitted
    units = [c for c in cases if c.get("kind") == "units"]
    gtab = [c for c in cases if c.get("kind") == "gauss"]
    atab = [c for c in cases if c.get("kind") == "atoms"]
    rtab = [c for c in cases if c.get("kind") == "rescale"]
    progs = [c for c in cases if c.get("kind") not in ("units", "gauss", "atoms", "rescale")]
    if not progs or not units or not gtab:
        raise engine.MachineryError("MC_C19 emitted nothing")
    gauss = _gauss_cases(gtab[0])
    atoms = [dict(c, kind="atoms1") for c in (atab[0]["cases"] if atab else [])]
    if not atoms:
        raise engine.MachineryError("MC_C19 emitted no from_atoms table")
    rescale = [dict(c, kind="rescale1") for c in (rtab[0]["cases"] if rtab else [])]
    if len(rescale) < 40:
        raise engine.MachineryError(f"MC_C19 emitted {len(rescale)} rescale decisions")
    allc = progs + units + gauss + atoms + rescale
    results = engine.parallel_replay("harness.props.c19", "replay", allc, chunksize=64)
    engine.collect(rep, allc, results, key=lambda c: c if c["kind"] in ("units", "gauss", "atoms1", "rescale1") else (c["e"], c["s2"]))
    rep.exhaustive = True
    rep.traces_validated = len(allc)
    rep.samples = [dict(e=progs[0]["e"], s2=progs[0]["s2"], value=progs[0]["value"]), dict(e=progs[-1]["e"], value=progs[-1]["value"])]
    rep.rule = (
        f"TLC enumerates every pipeline expression up to depth 2 over providers {{a(scale), b}}, converters {{add 3*scale, x2, >3}}, scalars "
        f"{{2, -3}} and the 10 operators (both operand orders, scalar on either side, pipeline x pipeline) at scales 1/2, 1, 2, and all 54 "
        f"associativity triples ({len(progs)} programs, all rebuilt from real ImageProvider/ImageConverter objects and evaluated); plus one "
        "physical-unit case (nm->pixel radius table and ball sizes from TLC; unit covariance of 9 converters/providers for 3 factors, "
        "Gaussian provider centre/profile/shape, rescaling providers, extensivity and range of mask converters, loader normalize_input); "
        f"{len(gauss)} from_gaussian calls against TLC's exact per-axis geometry (pixel shape, rational centre) for shape/scale quotients "
        "integral and not, shifted and not (shape, centre, profile, point symmetry when unshifted); "
        f"{len(atoms)} point clouds x 4 scales x weighted/unweighted through from_atoms against TLC's exact histogram (quarter-pixel coordinates: box size, every bin)"
    )


def replay_file(path: str) -> int:
    v = json.loads(open(path).read())
    r = replay(v["case"])
    print(json.dumps(r, indent=1, default=str))
    return 1 if r["failures"] else 0


def selftest() -> int:
    mc = engine.tlc("MC_C19", "MC_C19", workers=1)
    case = next(c for c in mc.emitted if c.get("kind") == "prog" and c["e"]["t"] == "bin" and c["e"]["op"] == "sub" and c["e"]["l"]["t"] == "sc" and c["defined"])
    good = replay(case)
    bad = json.loads(json.dumps(case))
    bad["value"][0][0] += bad["value"][0][1]
    r = replay(bad)
    ok = not good["failures"] and bool(r["failures"])
    print("selftest C19:", "ok" if ok else f"FAILED {good}")
    return 0 if ok else 2
