"""C04 - translational alignment returns the true displacement.

spec/MC_C04.tla (on top of AlignSearch.tla) enumerates displacement vectors over the closed range box
(all corners, face centres, interior quarter-pixel points), limits (isotropic, anisotropic, off-grid),
box shapes (even/odd/non-cubic), models, masks, cutoffs and tilt/orientation, and computes per axis how
far the true displacement is from the nearest shift the search can return (I layer).  Every sampled
case is replayed: an analytic template evaluated at k - d is a true displaced copy; the real
Model.align must return shift = d within the property's tolerance, the identity rotation and, for the
normalised models, a score >= 0.9.
"""
from __future__ import annotations

import json

import numpy as np

from harness import engine, memo

PROP = "C04"
LEVEL = "exploration"
IDQ = np.array([0.0, 0.0, 0.0, 1.0])


def _models():
    from acryo.alignment import FSCAlignment, NCCAlignment, PCCAlignment, ZNCCAlignment

    return dict(ZNCC=ZNCCAlignment, NCC=NCCAlignment, PCC=PCCAlignment, FSC=FSCAlignment)


BLOBS = ((0.0, 0.0, 0.0, 1.0, 1.0), (1.2, -0.8, 0.6, 0.8, 0.8), (-0.9, 1.1, -1.0, 0.6, 0.7), (0.4, 0.9, 1.3, -0.3, 0.9))


def template_at(shape, d):
    """Analytic, compact, asymmetric density evaluated with its centre displaced by d (exact displaced copy)."""
    zz, yy, xx = np.indices(shape).astype(np.float64)
    c = (np.array(shape) - 1) / 2 + np.asarray(d, dtype=np.float64)
    out = np.zeros(shape)
    for dz, dy, dx, w, sg in BLOBS:
        out += w * np.exp(-((zz - c[0] - dz) ** 2 + (yy - c[1] - dy) ** 2 + (xx - c[2] - dx) ** 2) / (2 * sg**2))
    return out.astype(np.float32)


def replay(case) -> dict:
    from scipy.spatial.transform import Rotation

    cfg = case["cfg"]
    shape = tuple(cfg["box"])
    d = np.array(cfg["d"], dtype=np.float64) / 100.0
    lim = tuple(x / 100.0 for x in cfg["lim"])
    tmpl = template_at(shape, (0, 0, 0))
    sub = template_at(shape, d)
    if cfg.get("bg"):
        tmpl = tmpl + float(cfg["bg"])
        sub = sub + float(cfg["bg"])
    broadband = cfg["model"] == "FSC" and all(x % 100 == 0 for x in cfg["d"])
    if broadband:
        # FSC averages over ALL shells: "score close to 1" needs power in every shell, so for integer
        # displacements a voxel-level texture is added and displaced exactly by array slicing
        rng = np.random.default_rng(11)
        tex = np.zeros(shape, np.float32)
        core = tuple(slice(n // 2 - 2, n // 2 + 3) for n in shape)
        tex[core] = rng.choice([-0.5, 0.5], size=(5, 5, 5))
        di = [int(x) // 100 for x in cfg["d"]]
        tmpl = tmpl + tex
        sub = sub + np.roll(tex, di, axis=(0, 1, 2))
    mask = None
    if cfg["mask"] == "soft":
        zz, yy, xx = np.indices(shape)
        c = (np.array(shape) - 1) / 2
        r = np.sqrt((zz - c[0]) ** 2 + (yy - c[1]) ** 2 + (xx - c[2]) ** 2)
        mask = np.clip((min(shape) / 2 - 1.0 - r) / 2.0 + 1, 0, 1).astype(np.float32)
    kw = {}
    if cfg["cutoff"]:
        kw["cutoff"] = cfg["cutoff"] / 100.0
    quat = IDQ
    if cfg["tilt"] != "none":
        kw["tilt"] = (-60.0, 60.0)
        if cfg["tilt"] == "rotq":
            quat = Rotation.from_quat([1, 1, 0, 3]).as_quat()
    # intensity scale of the data (exact powers of two: nothing but a scale-dependent threshold can change the outcome)
    amp = (1.0, 2.0**-10, 2.0**8)[(sum(cfg["d"]) // 25 + sum(cfg["lim"]) // 50 + len(cfg["tilt"]) + cfg["cutoff"]) % 3]
    if amp != 1.0:
        tmpl = (tmpl * np.float32(amp)).astype(np.float32)
        sub = (sub * np.float32(amp)).astype(np.float32)
    # argument forms: the sub-volume / template as float64 or as a C-contiguous copy, the limits as a list
    form = (sum(cfg["d"]) + sum(cfg["lim"]) + len(cfg["mask"])) % 4
    if form == 1:
        sub = sub.astype(np.float64)
    elif form == 2:
        tmpl = np.ascontiguousarray(tmpl.astype(np.float64))
    elif form == 3:
        lim = list(lim)
    model = _models()[cfg["model"]](tmpl, mask, **kw)
    gap = max(case["gap"]) / 100.0
    desc = dict(model=cfg["model"], mask=cfg["mask"], cutoff=cfg["cutoff"], tilt=cfg["tilt"], bg=cfg.get("bg", 0), box=list(shape), lim=cfg["lim"], d=cfg["d"],
                at_edge=any(abs(a) == b for a, b in zip(cfg["d"], cfg["lim"])), reach_gap=gap, gap_exceeds_tol=gap * 100 > case["tol"], amp=amp)
    desc["case_key"] = f"{cfg['model']}|{cfg['mask']}|{cfg['cutoff']}|{cfg['tilt']}|{list(shape)}|{cfg['lim']}|{cfg['d']}"
    fails = []
    res = engine.api(model.align, sub, lim, quat, np.zeros(3))
    tol = case["tol"] / 100.0
    err = float(np.max(np.abs(np.asarray(res.shift, dtype=np.float64) - d)))
    if not err <= tol + 1e-6:
        fails.append(dict(desc, clause="ShiftIsDisplacement", err=round(err, 4), observed=[round(float(x), 3) for x in res.shift]))
    if float(np.max(np.abs(np.asarray(res.quat, dtype=np.float64) - IDQ))) > 1e-6:
        fails.append(dict(desc, clause="IdentityRotation"))
    # a soft mask that truncates the displaced density legitimately lowers the score
    if (cfg["model"] in ("ZNCC", "NCC") or broadband) and cfg["mask"] == "none" and not float(res.score) >= 0.9:
        fails.append(dict(desc, clause="ScoreCloseToOne", observed=float(res.score)))
    # Model.fit: the same result, and the sub-volume moved by -shift lies on the template ("shifting the sub-volume by -shift
    # superimposes it on the template")
    # (fit passes no orientation: cases whose wedge is oriented by the molecule are left to align; FSC is accurate to half a pixel only,
    # which a voxel-level texture feels: the bar is "clearly superimposed", and never worse than before)
    if not fails and form in (0, 2) and max(cfg["lim"]) <= 300 and cfg["tilt"] != "rotq":
        moved, res2 = engine.api(model.fit, sub, lim)
        if float(np.max(np.abs(np.asarray(res2.shift, dtype=np.float64) - np.asarray(res.shift, dtype=np.float64)))) > 1e-4:
            fails.append(dict(desc, clause="FitGivesTheAlignResult", observed=[round(float(x), 3) for x in res2.shift]))
        else:
            core = tuple(slice(3, n - 3) for n in shape)

            def pear(a, b):
                a = np.asarray(a, dtype=np.float64)[core].ravel()
                b = np.asarray(b, dtype=np.float64)[core].ravel()
                a = a - a.mean()
                b = b - b.mean()
                return float(a @ b / np.sqrt((a @ a) * (b @ b)))

            before, after = pear(sub, tmpl), pear(moved, tmpl)
            if np.asarray(moved).shape != shape or not (after >= 0.8 and after >= before - 1e-3):
                fails.append(dict(desc, clause="FitSuperimposesOnTemplate", before=round(before, 4), after=round(after, 4)))
    return dict(failures=fails, classes={("gap_candidate" if desc["gap_exceeds_tol"] else "reachable"): 1})


def _stratum(c):
    g = c["cfg"]
    return (g["model"], g["mask"], g["cutoff"], g["tilt"], g.get("bg", 0), json.dumps(g["box"]), json.dumps(g["lim"]), max(c["gap"]) > c["tol"])


def run(rep: engine.Report, tier: str, seed: int):
    mc = rep.add_tlc(engine.tlc("MC_C04", "MC_C04", workers=1, timeout=1200))
    cases = mc.emitted
    if not cases:
        raise engine.MachineryError("MC_C04 emitted nothing")
    budget = 2000 if tier == "quick" else len(cases)
    sel = engine.stratified_sample(cases, _stratum, budget, seed)
    # the configurations of the known finding are always replayed, so that the finding is re-observed (or seen to be gone) on every run
    keys = {k for f in engine.load_findings(PROP) if f.get("status") == "known" for k in (f.get("matcher", {}).get("case_key", {}) or {}).get("in", [])}
    have = {json.dumps(c["cfg"], sort_keys=True) for c in sel}
    for c in cases:
        g = c["cfg"]
        if f"{g['model']}|{g['mask']}|{g['cutoff']}|{g['tilt']}|{list(g['box'])}|{g['lim']}|{g['d']}" in keys and json.dumps(g, sort_keys=True) not in have:
            sel.append(c)
    # search ranges at or beyond the box size (windows wholly in the padding) are few: always replayed
    for c in cases:
        if max(c["cfg"]["lim"]) >= 600 and json.dumps(c["cfg"], sort_keys=True) not in have:
            have.add(json.dumps(c["cfg"], sort_keys=True))
            sel.append(c)
    rep.exhaustive = len(sel) == len(cases)
    results = engine.parallel_replay("harness.props.c04", "replay", sel)
    engine.collect(rep, sel, results, key=lambda c: c["cfg"])
    rep.traces_validated = rep.evaluations
    memo.run_family(rep, ["zncc_align", "pcc_align", "fsc_align"])
    rep.samples = sel[:3]
    rep.rule = (
        "TLC enumerates 6 limit vectors (1..3 px, anisotropic, off the 1/20-px grid) x 20 displacement vectors over the closed "
        "range box (8 corners, 6 face points, 6 interior quarter-pixel points) x boxes 12^3, 13^3, (12,13,14), (13,16,12) x 4 models "
        "x mask none/soft x cutoff none/0.4 x tilt none/(-60,60) with identity or rational orientation, and the per-axis distance "
        f"from d to the nearest returnable shift; {len(cases)} cases, {len(sel)} replayed with analytic displaced templates; "
        "non-trivial = distinct configuration"
    )
    rep.assumptions += [
        "tolerances from the property: 0.1 px (ZNCC/NCC/PCC unmasked), 0.5 px (FSC or soft mask); score >= 0.9 for normalised models",
        "the technique enumerates the configuration space; it does not bound interpolation error for arbitrary templates",
    ]


def replay_file(path: str) -> int:
    v = json.loads(open(path).read())
    r = replay(v["case"])
    print(json.dumps(r, indent=1, default=str))
    return 1 if r["failures"] else 0


def selftest() -> int:
    case = dict(cfg=dict(model="ZNCC", lim=[200, 200, 200], d=[100, -100, 0], box=[12, 12, 12], mask="none", cutoff=0, tilt="none", bg=0), tol=10, gap=[0, 0, 0])
    good = replay(case)
    bad = json.loads(json.dumps(case))
    bad["cfg"]["d"] = [100, -100, 50]
    r = dict(failures=[])
    # plant d=(1,-1,0) but expect (1,-1,0.5): emulate by comparing against a corrupted expectation
    import numpy as _np
    sub = template_at((12, 12, 12), (1.0, -1.0, 0.0))
    res = _models()["ZNCC"](template_at((12, 12, 12), (0, 0, 0))).align(sub, (2.0, 2.0, 2.0))
    corrupted_err = float(_np.max(_np.abs(_np.asarray(res.shift) - _np.array([1.0, -1.0, 0.5]))))
    ok = not good["failures"] and corrupted_err > 0.1
    print("selftest C04:", "ok" if ok else f"FAILED {good}")
    return 0 if ok else 2
