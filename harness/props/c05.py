"""C05 - alignment stays inside the search range and never fails on a valid range.

spec/AlignSearch.tla models where each model's search can end up (integer arg-max anywhere in the
cropped landscape, refined arg-max anywhere on the clipped mesh / PCC window): TLC proves InRange,
NonEmpty and ZeroReachable for every limit on the 1/100-px lattice up to 3.3 px (plus large ones).
Conformance is by trace validation: configurations enumerated by TLC (MC_C05cases) are run on the
real models and loaders with the recorder on; every align return and every write-back is an event
judged by TLC (Trace_Align.tla: NoRaise, Finite, InRange, Decode, LabelOK, Displacement...).  The
thorough tier also records the repository's own test-suite.
"""
from __future__ import annotations

import json
import os
import subprocess
import sys

import numpy as np

from harness import engine

PROP = "C05"
LEVEL = "model_checking"


def _models():
    from acryo.alignment import FSCAlignment, NCCAlignment, PCCAlignment, ZNCCAlignment

    return dict(ZNCC=ZNCCAlignment, NCC=NCCAlignment, PCC=PCCAlignment, FSC=FSCAlignment)


def _template(box, rng):
    zz, yy, xx = np.indices(box).astype(np.float64)
    c = (np.array(box) - 1) / 2
    t = np.exp(-((zz - c[0]) ** 2 + (yy - c[1] - 0.4) ** 2 + (xx - c[2] + 0.3) ** 2) / 3.0) + 0.4 * np.exp(
        -((zz - c[0] + 1) ** 2 + (yy - c[1]) ** 2 + (xx - c[2] - 1) ** 2) / 1.5)
    return t.astype(np.float32)


def _data(kind, box, tmpl, rng, lim_px):
    from scipy import ndimage as ndi

    if kind == "noise":
        return rng.normal(size=box).astype(np.float32)
    if kind == "zero":
        return np.zeros(box, np.float32)
    if kind == "constant":
        return np.full(box, 3.5, np.float32)
    if kind == "unrelated":
        return (rng.random(box) > 0.7).astype(np.float32) * 2 + 1
    # the template displaced BEYOND the permitted range: the best admissible answer is on the boundary
    d = [min(l + 0.8, (b - 1) / 2) * (1 if i % 2 == 0 else -1) for i, (l, b) in enumerate(zip(lim_px, box))]
    return ndi.shift(tmpl, d, order=1, mode="constant", cval=0.0).astype(np.float32)


def replay(case) -> dict:
    """Run one configuration with the recorder writing to the worker's trace file."""
    from harness import recorder
    from scipy.spatial.transform import Rotation

    recorder.install()
    cfg = case["cfg"]
    recorder.set_tag(str(case["_i"]))
    rng = np.random.default_rng(case["_seed"])
    box = tuple(cfg["box"])
    lim = [x / 100.0 for x in cfg["lim"]]
    tmpl = _template(box, rng)
    M = _models()[cfg["model"]]
    kw = {}
    if cfg["rot"]:
        kw["rotations"] = [Rotation.identity(), Rotation.from_euler("x", 10, degrees=True), Rotation.from_euler("y", -10, degrees=True)]
    err = ""
    try:
        if cfg["driver"] == "model":
            img = _data(cfg["data"], box, tmpl, rng, lim)
            M(tmpl, **kw).align(img, tuple(lim))
        else:
            _loader_case(cfg, M, kw, tmpl, box, lim, rng)
    except Exception as e:  # noqa: BLE001 -- the event (with error) has been recorded by the wrapper if it came from align
        err = type(e).__name__ + ": " + str(e)[:100]
    return dict(err=err, tag=str(case["_i"]))


def _loader_case(cfg, M, kw, tmpl, box, lim, rng):
    import polars as pl
    from acryo import Molecules, SubtomogramLoader

    scale = {"loader_nm": 0.5, "loader_list_nm": 0.5, "loader_list_coarse": 2.0}.get(cfg["driver"], 1.0)
    n = 3
    tomo = (0.1 * rng.normal(size=(28, 28, 20 * n + 10))).astype(np.float32)
    pos_px = np.array([[14, 14, 14 + 20 * i] for i in range(n)], dtype=np.float64)
    rots = __import__("scipy.spatial.transform", fromlist=["Rotation"]).Rotation.from_euler("zyx", [[0, 0, 0], [30, 10, -20], [90, 0, 45]], degrees=True)
    if cfg["data"] == "beyond":
        for i in range(n):
            sl = tuple(slice(int(p) - b // 2, int(p) - b // 2 + b) for p, b in zip(pos_px[i] + np.array([0, 0, 3]), box))
            tomo[sl] += tmpl
    mole = Molecules(pos_px * scale, rots, features=pl.DataFrame({"g": [0, 1, 0]}))
    loader = SubtomogramLoader(tomo, mole, order=1, scale=scale, output_shape=box)
    iso = len(set(lim)) == 1
    ms_nm = [l * scale for l in lim]
    ms = ms_nm[0] if iso else tuple(ms_nm)
    drv = cfg["driver"]
    if drv in ("loader_scalar_or_tuple", "loader_nm"):
        loader.align(tmpl, max_shifts=ms, alignment_model=M, **kw)
    elif drv == "loader_multi":
        loader.align_multi_templates([tmpl, tmpl[::-1].copy()], max_shifts=ms, alignment_model=M, **kw)
    elif drv in ("loader_list_nm", "loader_list_coarse"):
        # a list / stack of templates given to align() itself (it dispatches to the multi-template path)
        tl = [tmpl, tmpl[::-1].copy()]
        loader.align(tl if drv == "loader_list_nm" else np.stack(tl, axis=0), max_shifts=ms, alignment_model=M, **kw)
    elif drv == "group":
        res = loader.groupby("g").align(tmpl, max_shifts=ms, alignment_model=M, **kw)
        list(res)
    elif drv == "no_template":
        # template-free alignment (the loader's own average is the template): the same range applies
        loader.align_no_template(max_shifts=ms, alignment_model=M, output_shape=box, **kw)
    elif drv == "group_no_template":
        res = loader.groupby("g").align_no_template(max_shifts=ms, alignment_model=M, output_shape=box, **kw)
        list(res)
    else:
        res = loader.groupby("g").align_multi_templates([tmpl, tmpl[::-1].copy()], max_shifts=ms, alignment_model=M, **kw)
        list(res)


def _run_chunk(arg):
    """Worker entry: a chunk of cases, all recorded into one trace file."""
    path, cases = arg
    os.environ["ACRYO_TRACE"] = path
    os.environ["ACRYO_VERIF"] = "1"
    out = []
    for c in cases:
        out.append(replay(c))
    return out


def _descr_factory(cases_by_tag):
    def descr(ev, why):
        c = cases_by_tag.get(ev.get("tag", ""), {}).get("cfg", {})
        ms = ev.get("max_shifts", [0, 0, 0])
        return dict(clause=why, kind=ev["kind"], model=c.get("model") or ev.get("model", ""), data=c.get("data", ""),
                    driver=c.get("driver", ev.get("test", "")), rot=c.get("rot", None), lim=c.get("lim", ms),
                    min_lim_milli=min(ms) if ev["kind"] == "AlignReturn" else -1, error=ev.get("error", ""), event=ev)
    return descr


def judge_events(rep, events, descr, tag):
    CH = 5000
    for lo in range(0, len(events), CH):
        chunk = events[lo : lo + CH]
        res, verdict = engine.validate_trace("Trace_Align", chunk, tag=tag)
        rep.add_tlc(res)
        badmap = {b["i"]: b for b in verdict["bad"]}
        for i, e in enumerate(chunk, start=1):
            fails = [descr(e, w) for w in badmap[i]["why"]] if i in badmap else []
            key = (e["kind"], e.get("model"), e.get("max_shifts"), e.get("shift"), e.get("tag"), e.get("test"), e.get("seq"))
            rep.record({k: e[k] for k in e if k not in ("rows",)} if e["kind"] == "AlignReturn" else dict(kind=e["kind"], fn=e.get("fn"), n=e.get("n", len(e.get("rows", [])))),
                       fails, nontrivial_key=key)
            rep.count(e["kind"])


def record_cases(sel, tag):
    """Run cases in worker processes with the recorder on; returns (events, per-case outcomes)."""
    import multiprocessing as mp

    d = engine.WORK / "traces"
    d.mkdir(parents=True, exist_ok=True)
    nproc = engine.NCPU
    chunks = [sel[i::nproc] for i in range(nproc)]
    args = [(str(d / f"{tag}-{os.getpid()}-{i}.ndjson"), ch) for i, ch in enumerate(chunks) if ch]
    for p, _ in args:
        if os.path.exists(p):
            os.unlink(p)
    ctx = mp.get_context("spawn")
    with ctx.Pool(len(args), initializer=engine._worker_init, initargs=("harness.props.c05", "replay", True)) as pool:
        outs = pool.map(_run_chunk, args)
    events = []
    for p, _ in args:
        if os.path.exists(p):
            with open(p) as fh:
                events += [json.loads(l) for l in fh if l.strip()]
            os.unlink(p)
    return events, [o for chunk in outs for o in chunk]


def run(rep: engine.Report, tier: str, seed: int):
    quick = tier == "quick"
    rep.add_tlc(engine.tlc("MC_C05", "MC_C05", coverage=True))
    gen = rep.add_tlc(engine.tlc("MC_C05cases", "MC_C05cases", workers=1))
    cases = gen.emitted
    if not cases:
        raise engine.MachineryError("MC_C05cases emitted nothing")
    budget = 2600 if quick else 14000
    sel = engine.stratified_sample(cases, lambda c: (c["cfg"]["model"], c["cfg"]["data"], c["cfg"]["driver"], c["cfg"]["rot"], min(c["cfg"]["lim"]) < 75, c["cfg"]["lim"][0] % 5 != 0), budget, seed)
    for i, c in enumerate(sel):
        c["_i"], c["_seed"] = i, seed * 65537 + i
    events, outs = record_cases(sel, "c05")
    by_tag = {str(c["_i"]): c for c in sel}
    n_align = sum(1 for e in events if e["kind"] == "AlignReturn")
    if n_align == 0:
        raise engine.MachineryError("recorder produced no AlignReturn events (wrapper target missing?)")
    # an exception that did not come out of model.align (so no AlignReturn carries it) is still a failure to complete
    seen_err_tags = {e.get("tag") for e in events if e["kind"] == "AlignReturn" and e.get("error")}
    for c, o in zip(sel, outs):
        if o["err"] and o["tag"] not in seen_err_tags:
            g = c["cfg"]
            rep.record(g, [dict(clause="NoRaise", kind="Driver", model=g["model"], data=g["data"], driver=g["driver"], rot=g["rot"], lim=g["lim"],
                                min_lim_milli=min(g["lim"]) * 10, error=o["err"])], nontrivial_key=("driver", g))
    judge_events(rep, [e for e in events if e["kind"] in ("AlignReturn", "PostAlign", "LoaderAlign")], _descr_factory(by_tag), "c05")
    rec_err = [e for e in events if e["kind"] == "RecorderError"]
    if rec_err:
        rep.notes.append(f"recorder errors: {rec_err[:3]}")
    rep.traces_validated = len(sel)
    # unbounded-integer version of the range lemma (Apalache, SMT): all limits on the 1/400-px lattice
    lemmas = {}
    for inv, want in (("InRange", "NoError"), ("NonEmptyMesh", "NoError"), ("NonEmptyPcc", "NoError"), ("InRangeAsCoded", "Error")):
        if quick and inv not in ("InRange", "NonEmptyPcc"):
            continue
        out, secs = engine.apalache("MeshLemma", inv)
        lemmas[inv] = dict(outcome=out, expected=want, seconds=round(secs, 1))
        if out != "unavailable" and out != want:
            raise engine.MachineryError(f"Apalache lemma {inv}: outcome {out}, expected {want} (the search model no longer satisfies its own lemma)")
    rep.extra["apalache_lemmas"] = lemmas
    if not quick:
        ev2 = record_repo_tests(rep)
        judge_events(rep, ev2, _descr_factory({}), "repo")
        rep.traces_validated += 1
    rep.rule = (
        "TLC: every limit on the 1/100-px lattice in [0, 3.30] px (+5, 7.25, 12, 12.01, 19.99 px) x model x every integer arg-max "
        "cell x every refined mesh point / PCC window sample (InRange, NonEmpty, ZeroReachable, EdgeReachable); conformance: "
        f"{len(cases)} configurations enumerated by TLC (4 models x 5 data classes x 90 limit vectors x 4 boxes x rotation search x "
        f"10 drivers incl. template-free alignment), {len(sel)} run on the real code with the recorder on; {n_align} align returns and "
        f"{sum(1 for e in events if e['kind'] == 'PostAlign')} write-backs judged by TLC"
        + ("" if quick else "; plus every align return / write-back of the repository's own test-suite")
    )
    rep.assumptions += ["fixed point 1e-3 px with one unit of slack stands for 'up to floating-point rounding'"]


def record_repo_tests(rep) -> list[dict]:
    path = engine.WORK / "traces" / f"repo-{os.getpid()}.ndjson"
    path.parent.mkdir(parents=True, exist_ok=True)
    if path.exists():
        path.unlink()
    env = dict(os.environ, ACRYO_VERIF="1", ACRYO_TRACE=str(path), PYTHONPATH=str(engine.VERIF / "harness") + os.pathsep + str(engine.VERIF))
    cmd = [sys.executable, "-m", "pytest", "-q", "-p", "no:cacheprovider", "-p", "acryo_recorder", "--timeout=900", "-x", "-n", "8",
           "tests/test_alignment.py", "tests/test_batch.py", "tests/test_group.py", "tests/test_mock.py"]
    p = subprocess.run(cmd, cwd=engine.repo_root(), env=env, capture_output=True, text=True, timeout=3000)
    rep.notes.append("repo tests under recorder: " + (p.stdout.strip().splitlines() or ["?"])[-1][:120])
    ev = []
    if path.exists():
        with open(path) as fh:
            ev = [json.loads(l) for l in fh if l.strip()]
        path.unlink()
    return [e for e in ev if e["kind"] in ("AlignReturn", "PostAlign", "LoaderAlign")]


def replay_file(path: str) -> int:
    v = json.loads(open(path).read())
    _, verdict = engine.validate_trace("Trace_Align", [v["event"]], tag="replay")
    print(json.dumps(verdict))
    return 1 if verdict["bad"] else 0


def selftest() -> int:
    ev = dict(kind="AlignReturn", model="ZNCCAlignment", T=1, K=1, tag="", error="", label=0, shift=[300, -120, 0], finite=True, qidx=0,
              max_shifts=[300, 300, 300], box=[8, 8, 8], thread=1, seq=1, test="")
    bad = dict(ev, shift=[325, 0, 0])
    _, v = engine.validate_trace("Trace_Align", [ev, bad], tag="self")
    ok = len(v["bad"]) == 1 and v["bad"][0]["i"] == 2 and v["bad"][0]["why"] == ["InRange"]
    print("selftest C05:", "ok" if ok else f"FAILED {v}")
    return 0 if ok else 2
