"""X02 (extended coverage, not a listed property) - Model.fit returns the sub-volume moved onto the template.

spec/AlignPose.tla (FitSource, FitShowsTemplate): the transform an alignment result denotes is a rotation about the box
centre followed by the shift, so the fitted image shows at offset u the sub-volume voxel at offset quat u + shift.  On the
exact lattice of C01 (Rot24 rotations, integer shifts) the real `fit` must reproduce that voxel for voxel, and the fitted
image must show the template.
"""
from __future__ import annotations

import json

import numpy as np

from harness import engine
from harness.lattice import mat_from_spec, rot_from_spec
from harness.props import c01

PROP = "X02"
LEVEL = "model_checking"


def replay(case) -> dict:
    from scipy.spatial.transform import Rotation
    from acryo import Molecules, SubtomogramLoader

    cfg = case["cfg"]
    scale = cfg["s2"] / 2.0
    M = c01._models()[cfg["model"]]
    rots = [rot_from_spec(r) for r in case["_search"]]
    tmpl = c01.template(0)
    tomo = np.zeros(c01.TSHAPE, np.float32)
    c01.plant(tomo, tmpl, np.array(case["pstar_px"], dtype=float), cfg["Rstar"])
    p_in = np.array(case["mol"]["p2"], dtype=float) / (2.0 * case["mol"]["pden"])
    mole = Molecules(p_in[None, :], Rotation.concatenate([rot_from_spec(case["mol"]["R"])]))
    loader = SubtomogramLoader(tomo, mole, order=cfg["order"], scale=scale, output_shape=(c01.BOX,) * 3)
    sub = np.asarray(loader.load(0), dtype=np.float32)
    model = M(tmpl, rotations=rots)
    fitted, res = engine.api(model.fit, sub, (2.0, 2.0, 2.0))
    fitted = np.asarray(fitted, dtype=np.float64)
    desc = dict(model=cfg["model"], order=cfg["order"], m=cfg["m"], q_identity=cfg["q"]["m"] == [[1, 0, 0], [0, 1, 0], [0, 0, 1]])
    fails = []
    q = np.rint(mat_from_spec(cfg["q"])).astype(int)
    m = np.array(cfg["m"], dtype=int)
    c = (c01.BOX - 1) // 2
    rng = range(-2, 3)
    worst = 0.0
    for a in rng:
        for b in rng:
            for d in rng:
                u = np.array([a, b, d])
                src = q @ u + m + c                     # FitSource(res, u) of the specification
                worst = max(worst, abs(float(fitted[tuple(u + c)]) - float(sub[tuple(src)])))
    if fitted.shape != sub.shape:
        fails.append(dict(desc, clause="FitShape", observed=list(fitted.shape)))
    elif worst > 2e-2:
        fails.append(dict(desc, clause="FitIsRotationAboutCentreThenShift", maxerr=round(worst, 4)))
    core = tuple(slice(c - 2, c + 3) for _ in range(3))
    if not fails and float(np.max(np.abs(fitted[core] - tmpl[core].astype(np.float64)))) > 5e-2:
        fails.append(dict(desc, clause="FitShowsTemplate", maxerr=float(np.max(np.abs(fitted[core] - tmpl[core])))))
    return dict(failures=fails)


def run(rep: engine.Report, tier: str, seed: int):
    mc = rep.add_tlc(engine.tlc("MC_C01", "MC_C01", workers=1, timeout=1200))
    search = [json.loads(s) for s in sorted({json.dumps(c["cfg"]["q"], sort_keys=True) for c in mc.emitted})]
    for c in mc.emitted:
        c["_search"] = search
    cases = [c for c in mc.emitted if c["cfg"]["kind"] == "single" and c["cfg"]["Rstar"]["d"] == 1 and c["cfg"]["q"]["d"] == 1 and c["cfg"]["order"] == 3]
    if not cases:
        raise engine.MachineryError("MC_C01 emitted nothing usable")
    sel = engine.stratified_sample(cases, lambda c: (c["cfg"]["model"], json.dumps(c["cfg"]["q"]), json.dumps(c["cfg"]["m"]), c["cfg"]["s2"]), 400 if tier == "quick" else len(cases), seed)
    results = engine.parallel_replay("harness.props.x02", "replay", sel)
    engine.collect(rep, sel, results, key=lambda c: c["cfg"])
    rep.traces_validated = len(sel)
    rep.rule = (f"EXTENDED COVERAGE (no listed property): {len(sel)} of {len(cases)} C01 lattice cases (Rot24 truths and searched rotations, integer "
                "perturbations): Model.fit(sub-volume) equals the sub-volume resampled by FitSource (rotation about the box centre, then the shift) on the 5^3 core, "
                "and shows the template there")


def replay_file(path: str) -> int:
    v = json.loads(open(path).read())
    r = replay(v["case"])
    print(json.dumps(r, indent=1, default=str))
    return 1 if r["failures"] else 0


def selftest() -> int:
    print("selftest X02: ok (shares the C01 generator; the corruption test is C01's)")
    return 0
