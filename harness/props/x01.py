"""X01 (extended coverage, not a listed property) - loader configuration is carried through every operation.

spec/Settings.tla: the configuration [order, scale, output_shape, corner_safe] as a state machine; TLC checks
that every operation changes at most the field it is about (action property OnlyItsField) and emits every
(configuration, operation) step and simulated 6-step programmes.  Replay on real SubtomogramLoader /
BatchLoader objects: after every step the derived loader has exactly the configuration of the model and the
receiver kept its own.
"""
from __future__ import annotations

import json
import random

import numpy as np

from harness import engine

PROP = "X01"
LEVEL = "model_checking"


def _cfg_of(ldr) -> dict:
    from acryo.loader._base import Unset

    sh = ldr.output_shape
    return dict(order=int(ldr.order), scale4=int(round(float(ldr.scale) * 4)), oshape=[0, 0, 0] if isinstance(sh, Unset) else [int(x) for x in sh],
                cs=bool(ldr.corner_safe))


def _make(kind, cfg):
    import polars as pl
    from acryo import BatchLoader, Molecules, SubtomogramLoader
    from acryo.loader._base import Unset

    sh = Unset() if cfg["oshape"] == [0, 0, 0] else tuple(cfg["oshape"])
    tomo = np.random.default_rng(0).normal(size=(24, 24, 24)).astype(np.float32)
    mole = Molecules(np.array([[8.0, 8, 8], [12, 12, 12], [15, 14, 13], [10, 13, 9]]) * cfg["scale4"] / 4, features=pl.DataFrame({"k": [0, 1, 0, 1]}))
    kw = dict(order=cfg["order"], scale=cfg["scale4"] / 4, output_shape=sh, corner_safe=cfg["cs"])
    if kind == "single":
        return SubtomogramLoader(tomo, mole, **kw)
    b = BatchLoader(**kw)
    b.add_tomogram(tomo, mole.subset(slice(0, 2)))
    b.add_tomogram(tomo * 2, mole.subset(slice(2, 4)))
    return b


def _step(ldr, op, seed):
    import polars as pl
    from acryo import Molecules

    n = op["name"]
    if n == "copy":
        return ldr.copy()
    if n == "head":
        return ldr.head(3)
    if n == "tail":
        return ldr.tail(3)
    if n == "sample":
        return ldr.sample(min(3, ldr.count()), seed=seed)
    if n == "filter":
        return ldr.filter(pl.col("k") >= 0)
    if n == "sort":
        return ldr.replace(molecules=ldr.molecules.sort("k"))
    if n == "group_first":
        return next(iter(ldr.groupby("k")))[1]
    if n == "accessor_first":
        # both ways of reaching a batch's sub-loaders: indexing and iteration
        return ldr.loaders[0] if seed % 2 == 0 else next(iter(ldr.loaders))
    if n == "add_tomogram":
        tomo = np.zeros((24, 24, 24), np.float32)
        return ldr.add_tomogram(tomo, Molecules(np.array([[9.0, 9, 9]]) * float(ldr.scale), features=pl.DataFrame({"k": [1]})))
    if n == "align":
        from acryo.loader._base import Unset

        box = (3, 3, 3) if isinstance(ldr.output_shape, Unset) else tuple(ldr.output_shape)
        t = np.zeros(box, np.float32)
        t[tuple(b // 2 for b in box)] = 1.0
        t += 0.01
        # the configuration is what is under test here, not the poses: align molecules placed at the image centre(s)
        from acryo import SubtomogramLoader

        shapes = [ldr.image.shape] if isinstance(ldr, SubtomogramLoader) else [im.shape for im in ldr.images.values()]
        c = np.min(np.array(shapes), axis=0) / 2 * float(ldr.scale)
        m = ldr.molecules
        centred = ldr.replace(molecules=Molecules(np.tile(c, (len(m), 1)), m.rotator, features=m.features))
        return centred.align(t, max_shifts=float(ldr.scale) * 0.9)
    if n == "replace_order":
        return ldr.replace(order=op["n"])
    if n == "replace_scale":
        return ldr.replace(scale=op["n"] / 4)
    if n == "replace_shape":
        return ldr.replace(output_shape=tuple(op["sh"]))
    if n == "replace_cs":
        return ldr.replace(corner_safe=op["b"])
    if n == "reshape":
        return ldr.reshape(shape=tuple(op["sh"]))
    if n == "binning":
        return ldr.binning(op["n"])
    raise ValueError(n)


def _after(c, op):
    c = dict(c)
    n = op["name"]
    if n == "replace_order":
        c["order"] = op["n"]
    elif n == "replace_scale":
        c["scale4"] = op["n"]
    elif n in ("replace_shape", "reshape"):
        c["oshape"] = list(op["sh"])
    elif n == "replace_cs":
        c["cs"] = op["b"]
    elif n == "binning":
        c["scale4"] = c["scale4"] * op["n"]
    elif n == "align" and c["oshape"] == [0, 0, 0]:
        c["oshape"] = [3, 3, 3]
    return c


def replay(case) -> dict:
    init = case["init"]
    ldr = _make(init["kind"], init["cfg"])
    fails = []
    model = dict(init["cfg"])
    for i, op in enumerate(case["prog"]):
        desc = dict(kind=init["kind"], op=op["name"], step=i, nsteps=len(case["prog"]))
        before = _cfg_of(ldr)
        if before != model:
            raise RuntimeError(f"harness: loader configuration {before} differs from the model {model} before step {i}")
        res = engine.api(_step, ldr, op, case.get("seed", 0) + i)
        want = _after(model, op)
        if i == len(case["prog"]) - 1 and case.get("final") is not None and want != case["final"]:
            raise RuntimeError(f"harness transcription of Settings!After differs from TLC: {want} vs {case['final']}")
        got = _cfg_of(res)
        if got != want:
            fails.append(dict(desc, clause="ConfigurationCarried", observed=got, expected=want))
            break
        if op["name"] != "add_tomogram" and _cfg_of(ldr) != before:
            fails.append(dict(desc, clause="ReceiverConfigurationChanged", observed=_cfg_of(ldr), expected=before))
            break
        ldr, model = res, want
    return dict(failures=fails, classes={"steps": len(case["prog"])})


def run(rep: engine.Report, tier: str, seed: int):
    mc = rep.add_tlc(engine.tlc("Settings", "MC_X01", timeout=900))
    em = rep.add_tlc(engine.tlc("Settings", "EMIT_X01", workers=1, timeout=900))
    steps = [dict(init=e["init"], prog=e["prog"], final=e["final"]) for e in em.emitted]
    if not steps:
        raise engine.MachineryError("EMIT_X01 emitted nothing")
    num = 300 if tier == "quick" else 3000
    sim = rep.add_tlc(engine.tlc("Settings", "SIM_X01", workers=1, extra=["-simulate", f"num={num}", "-depth", "7", "-seed", str(seed + 3)], tag="sim"))
    seen, progs = set(), []
    for p in sim.emitted:
        k = json.dumps(p, sort_keys=True)
        if k not in seen:
            seen.add(k)
            progs.append(dict(init=p["init"], prog=p["prog"], final=p["final"], seed=seed))
    cases = steps + progs
    results = engine.parallel_replay("harness.props.x01", "replay", cases)
    engine.collect(rep, cases, results, key=lambda c: (json.dumps(c["init"], sort_keys=True), json.dumps(c["prog"], sort_keys=True)))
    rep.traces_validated = len(cases)
    rep.rule = (f"EXTENDED COVERAGE (no listed property): every (kind, configuration, operation) step of Settings.tla ({len(steps)}) and "
                f"{len(progs)} simulated 6-step programmes replayed on real loaders; after each step the returned loader's "
                "(order, scale, output_shape, corner_safe) equals the model's and the receiver kept its own")


def replay_file(path: str) -> int:
    v = json.loads(open(path).read())
    r = replay(v["case"])
    print(json.dumps(r, indent=1, default=str))
    return 1 if r["failures"] else 0


def selftest() -> int:
    case = dict(init=dict(kind="single", cfg=dict(order=3, scale4=4, oshape=[3, 3, 3], cs=True)), prog=[dict(name="binning", n=2)], final=None)
    good = replay(case)
    import harness.props.x01 as me

    orig = me._after
    me._after = lambda c, op: dict(orig(c, op), cs=False)
    try:
        bad = replay(case)
    finally:
        me._after = orig
    ok = not good["failures"] and bool(bad["failures"])
    print("selftest X01:", "ok" if ok else f"FAILED {good} {bad}")
    return 0 if ok else 2
