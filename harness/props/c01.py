"""C01 - alignment moves each molecule onto the true particle pose.

spec/AlignPose.tla: Plant / Perturb / Align / WriteBack in exact (Zyx.tla) arithmetic; TLC proves
PoseRecovered and FeaturesDescribePose for every truth orientation (24 Rot24 + rational), searched
rotation, perturbation, scale, and characterises the historical write-back defect exactly
(wrong iff q s != s).  Every emitted case is replayed end to end: the tomogram is built by direct
voxel placement of an asymmetric template at the truth pose (not by TomogramSimulator), the real
loader (single / batch / group / template-free / multi-template) aligns, and the output molecule is
compared with the truth pose; shift/rotation/score features are compared with the perturbation.
"""
from __future__ import annotations

import json

import numpy as np

from harness import engine
from harness.lattice import geodesic_deg, mat_from_spec, rot_from_spec

PROP = "C01"
LEVEL = "model_checking"
BOX = 11
TSHAPE = (30, 30, 30)


def _models():
    from acryo.alignment import NCCAlignment, PCCAlignment, ZNCCAlignment

    return dict(ZNCC=ZNCCAlignment, NCC=NCCAlignment, PCC=PCCAlignment)


def template(j: int) -> np.ndarray:
    """Smooth asymmetric density on an odd cubic box; Rot24 acts on it as an exact voxel permutation."""
    zz, yy, xx = np.indices((BOX,) * 3).astype(np.float64)
    c = (BOX - 1) / 2
    blobs = [((0, 0, 0, 1.0, 1.1), (1.5, -1.0, 0.5, 0.8, 0.8), (-1.0, 1.5, -1.0, 0.6, 0.7), (0.5, 0.5, 1.8, 0.5, 0.7)),
             ((0, 0, 0, 1.0, 1.0), (-1.5, 1.0, 1.0, 0.9, 0.8), (1.0, 1.0, -1.5, 0.5, 0.7), (-0.5, -1.8, 0.3, 0.6, 0.7))][j]
    out = np.zeros((BOX,) * 3)
    for dz, dy, dx, w, sg in blobs:
        out += w * np.exp(-((zz - c - dz) ** 2 + (yy - c - dy) ** 2 + (xx - c - dx) ** 2) / (2 * sg**2))
    out[out < 1e-3] = 0.0
    return out.astype(np.float32)


def plant(tomo, tmpl, p_px, R):
    """tomo(p + R u) += template(c + u).  Exact voxel placement for Rot24; one cubic interpolation otherwise."""
    c = (BOX - 1) // 2
    M = mat_from_spec(R)
    if R["d"] == 1:
        idx = np.indices((BOX,) * 3).reshape(3, -1) - c
        dst = (np.rint(M).astype(int) @ idx) + np.asarray(p_px, dtype=int)[:, None]
        tomo[tuple(dst)] += tmpl[tuple(idx + c)]
    else:
        from scipy import ndimage as ndi

        # output coordinate x samples template at c + M^T (x - p)
        Minv = M.T
        off = np.full(3, float(c)) - Minv @ np.asarray(p_px, dtype=float)
        tomo += ndi.affine_transform(tmpl, Minv, offset=off, output_shape=tomo.shape, order=3, mode="constant", cval=0.0)


def replay(case) -> dict:
    from scipy.spatial.transform import Rotation
    import polars as pl
    from acryo import BatchLoader, Molecules, SubtomogramLoader

    cfg = case["cfg"]
    scale = cfg["s2"] / 2.0
    pstar = np.array(case["pstar_px"], dtype=float)
    Rstar = cfg["Rstar"]
    M = _models()[cfg["model"]]
    rots = [rot_from_spec(r) for r in case["_search"]]
    max_shift_px = 2.0
    tmpls = [template(0), template(1)]
    kind = cfg["kind"]
    exact = Rstar["d"] == 1
    desc = dict(kind=kind, model=cfg["model"], order=cfg["order"], scale=scale, rot24=exact, m=cfg["m"], q_identity=cfg["q"]["m"] == [[1, 0, 0], [0, 1, 0], [0, 0, 1]],
                q_moves_shift=(np.abs(mat_from_spec(cfg["q"]) @ np.array(cfg["m"], float) - np.array(cfg["m"], float)).max() > 1e-9))
    fails = []
    # input molecule from the spec (p2 = 2 * physical position, numerator over pden)
    p_in = np.array(case["mol"]["p2"], dtype=float) / (2.0 * case["mol"]["pden"])
    R_in = rot_from_spec(case["mol"]["R"])
    want_p = np.array(case["expect"]["p2"], dtype=float) / (2.0 * case["expect"]["pden"])
    want_R = rot_from_spec(case["expect"]["R"])
    tomo = np.zeros(TSHAPE, np.float32)
    plant(tomo, tmpls[cfg["j"]], pstar, Rstar)
    form0 = int(case.get("_form", 0))
    # the particle next to the low faces of the tomogram: the box is inside, the (larger) window read for the interpolation is not
    face = (form0 // 24) % 2 == 1 and kind in ("single", "multi", "stack")
    desc["near_low_faces"] = face
    if face:
        cut = np.maximum(np.floor(np.minimum(pstar, p_in / scale)).astype(int) - 5, 0)
        tomo = np.ascontiguousarray(tomo[cut[0]:, cut[1]:, cut[2]:])
        p_in = p_in - cut * scale
        want_p = want_p - cut * scale
    if (form0 // 4) % 3 == 1:
        tomo = tomo.astype(np.float64)
    elif (form0 // 4) % 3 == 2 and cfg["kind"] in ("single", "multi", "stack", "group"):
        import dask.array as da

        tomo = da.from_array(tomo, chunks=(11, 13, 30))
    # the same request in the argument forms the API accepts: scalar / tuple limits, array / ImageProvider templates,
    # rotations as objects / as one Rotation of several / through a model factory; tomogram as float32 / float64 / dask
    form = int(case.get("_form", 0))
    kw = dict(max_shifts=max_shift_px * scale, alignment_model=M, rotations=rots)
    if form % 4 == 1:
        kw["max_shifts"] = (max_shift_px * scale,) * 3
    elif form % 4 == 2:
        kw = dict(max_shifts=max_shift_px * scale, alignment_model=M.with_params(rotations=rots))
    elif form % 4 == 3:
        kw["rotations"] = Rotation.concatenate(rots)
    desc["form"] = form
    feats = pl.DataFrame({"g": [0]})
    mole = Molecules(p_in[None, :], Rotation.concatenate([R_in]), features=feats)
    if kind in ("single", "multi", "stack"):
        loader = SubtomogramLoader(tomo, mole, order=cfg["order"], scale=scale, output_shape=(BOX,) * 3)
        if kind == "single":
            t0 = tmpls[0]
            if (form // 12) % 2 == 1:
                from acryo import pipe

                t0 = pipe.from_array(tmpls[0], original_scale=scale)      # an ImageProvider at the loader's own scale: the same image
            out = engine.api(loader.align, t0, **kw).molecules
        else:
            if kind == "multi":
                out = engine.api(loader.align_multi_templates, tmpls, **kw).molecules
            else:  # a list of templates given to align() itself
                out = engine.api(loader.align, tmpls if cfg["j"] == 0 else np.stack(tmpls, axis=0), **kw).molecules
            if int(out.features["labels"][0]) != cfg["j"]:
                fails.append(dict(desc, clause="Label", observed=int(out.features["labels"][0]), expected=cfg["j"]))
    elif kind == "batch":
        # a second tomogram with an unperturbed particle, registered first
        tomo2 = np.zeros(TSHAPE, np.float32)
        plant(tomo2, tmpls[0], [14, 16, 15], dict(d=1, m=[[1, 0, 0], [0, 1, 0], [0, 0, 1]]))
        b = BatchLoader(order=cfg["order"], scale=scale, output_shape=(BOX,) * 3)
        b.add_tomogram(tomo2, Molecules(np.array([[14, 16, 15]], dtype=float) * scale))
        b.add_tomogram(tomo, mole)
        res = engine.api(b.align, tmpls[0], **kw).molecules
        out = res.subset([1])
        other = res.subset([0])
        if np.max(np.abs(np.asarray(other.pos[0]) - np.array([14, 16, 15]) * scale)) > 0.15 * scale:
            fails.append(dict(desc, clause="UnperturbedMoleculeMoved"))
    elif kind == "group":
        if form % 2 == 0:
            loader = SubtomogramLoader(tomo, mole, order=cfg["order"], scale=scale, output_shape=(BOX,) * 3)
            got = {k: l.molecules for k, l in engine.api(loader.groupby("g").align, tmpls[0], **kw)}
            out = got[0]
        else:
            # two groups, each aligned against ITS OWN template (a Mapping key -> template): group 1 holds an unperturbed copy
            # of the second template, which must stay where it is
            tomo_np = np.asarray(tomo)
            tomo2 = np.concatenate([tomo_np, np.zeros_like(tomo_np)], axis=2)
            centre2 = np.array([15, 15, TSHAPE[2] + 15])
            plant(tomo2, tmpls[1], centre2, dict(d=1, m=[[1, 0, 0], [0, 1, 0], [0, 0, 1]]))
            both = Molecules(np.stack([p_in, centre2 * scale]), Rotation.concatenate([R_in, Rotation.identity()]), features=pl.DataFrame({"g": [0, 1]}))
            loader = SubtomogramLoader(tomo2, both, order=cfg["order"], scale=scale, output_shape=(BOX,) * 3)
            got = {k: l.molecules for k, l in engine.api(loader.groupby("g").align, {0: tmpls[0], 1: tmpls[1]}, **kw)}
            out = got[0]
            if np.max(np.abs(np.asarray(got[1].pos[0]) - centre2 * scale)) > 0.15 * scale:
                fails.append(dict(desc, clause="OtherGroupAlignedWithItsOwnTemplate", err_px=float(np.max(np.abs(np.asarray(got[1].pos[0]) - centre2 * scale)) / scale)))
    else:  # template-free: four unperturbed copies define the average, the fifth molecule is the perturbed one
        big = np.zeros((30, 30, 90), np.float32)
        cents = [np.array([15, 15, 12 + 16 * i]) for i in range(4)]
        for cpx in cents:
            plant(big, tmpls[0], cpx, dict(d=1, m=[[1, 0, 0], [0, 1, 0], [0, 0, 1]]))
        offs = np.array([0, 0, 60])
        plant(big, tmpls[0], pstar + offs, Rstar)
        pos = np.array([c * scale for c in cents] + [p_in + offs * scale])
        rot = Rotation.concatenate([Rotation.identity(4), R_in])
        loader = SubtomogramLoader(big, Molecules(pos, rot), order=cfg["order"], scale=scale, output_shape=(BOX,) * 3)
        res = engine.api(loader.align_no_template, **kw).molecules
        out = res.subset([4])
        want_p = want_p + offs * scale
    tol_px = 0.15 if exact else 0.3
    if kind == "notemplate":
        tol_px = 0.3
    perr = float(np.max(np.abs(np.asarray(out.pos[0], dtype=float) - want_p))) / scale
    aerr = geodesic_deg(out.rotator[0], want_R)
    if perr > tol_px:
        fails.append(dict(desc, clause="PositionRecovered", err_px=round(perr, 3)))
    if aerr > 0.05:
        fails.append(dict(desc, clause="OrientationRecovered", err_deg=round(aerr, 3)))
    f = out.features
    fs = np.array([f["align-dz"][0], f["align-dy"][0], f["align-dx"][0]], dtype=float)
    want_fs = np.array(case["expect"]["fshift2"], dtype=float) / 2.0
    if np.max(np.abs(fs - want_fs)) > tol_px * scale + 0.006:
        fails.append(dict(desc, clause="ShiftFeature", observed=fs.tolist(), expected=want_fs.tolist()))
    fr = Rotation.from_rotvec([f["align-dzrot"][0], f["align-dyrot"][0], f["align-dxrot"][0]])
    if geodesic_deg(fr, rot_from_spec(cfg["q"])) > 0.05:
        fails.append(dict(desc, clause="RotationFeature"))
    if cfg["model"] in ("ZNCC", "NCC") and exact and kind != "notemplate" and not float(f["score"][0]) > 0.9:
        fails.append(dict(desc, clause="ScoreFeature", observed=float(f["score"][0])))
    return dict(failures=fails, classes={("exact" if exact else "interpolated"): 1})


def _stratum(c):
    g = c["cfg"]
    return (g["kind"], g["model"], g["order"], g["s2"], g["Rstar"]["d"] == 1, json.dumps(g["q"]))


def run(rep: engine.Report, tier: str, seed: int):
    mc = rep.add_tlc(engine.tlc("MC_C01", "MC_C01", workers=1, timeout=1200))
    cases = mc.emitted
    if not cases:
        raise engine.MachineryError("MC_C01 emitted nothing")
    search = sorted({json.dumps(c["cfg"]["q"], sort_keys=True) for c in cases})
    search = [json.loads(s) for s in search]
    for i, c in enumerate(cases):
        c["_search"] = search
        c["_form"] = (i * 7 + seed) % 48
    budget = 1500 if tier == "quick" else 12000
    sel = engine.stratified_sample(cases, _stratum, budget, seed)
    rep.exhaustive = len(sel) == len(cases)
    results = engine.parallel_replay("harness.props.c01", "replay", sel)
    engine.collect(rep, sel, results, key=lambda c: c["cfg"])
    rep.traces_validated = rep.evaluations
    rep.samples = [dict(cfg=c["cfg"], mol=c["mol"], expect=c["expect"]) for c in sel[:2]]
    rep.rule = (
        "TLC enumerates truth orientations (24 Rot24 + 2 rational) x searched rotations {id, 90z, 90y, 180x, 120} x perturbations "
        "(6 vectors with |m_i| <= 2 incl. faces/corners of the range) x scale {1/2, 1, 2} x loader kind (single, batch, group, "
        "template-free, multi-template) x model x order, proves PoseRecovered/FeaturesDescribePose and emits input and expected "
        f"output poses; {len(cases)} cases, {len(sel)} replayed end to end (tomogram by direct voxel placement); the write-back "
        "algebra is additionally validated on every recorded call by Trace_Align.tla in the C05 check"
    )
    rep.assumptions += ["tolerance 0.15 px / 0.05 deg on Rot24 truths (exact voxel placement), 0.3 px on rational truths and template-free alignment"]


def replay_file(path: str) -> int:
    v = json.loads(open(path).read())
    r = replay(v["case"])
    print(json.dumps(r, indent=1, default=str))
    return 1 if r["failures"] else 0


def selftest() -> int:
    mc = engine.tlc("MC_C01", "MC_C01", workers=1, timeout=1200)
    search = [json.loads(s) for s in sorted({json.dumps(c["cfg"]["q"], sort_keys=True) for c in mc.emitted})]
    case = next(c for c in mc.emitted if c["cfg"]["kind"] == "single" and c["cfg"]["model"] == "ZNCC" and c["cfg"]["m"] == [1, 1, -2]
                and c["cfg"]["q"]["m"] == [[1, 0, 0], [0, 0, -1], [0, 1, 0]] and c["cfg"]["Rstar"]["d"] == 1 and c["cfg"]["s2"] == 2)
    case["_search"] = search
    good = replay(case)
    bad = json.loads(json.dumps(case))
    bad["expect"]["p2"][0] += 2 * bad["expect"]["pden"]
    r = replay(bad)
    ok = not good["failures"] and any(f["clause"] == "PositionRecovered" for f in r["failures"])
    print("selftest C01:", "ok" if ok else f"FAILED {good}")
    return 0 if ok else 2
