"""C12 - table operations keep a molecule's position, orientation and features together.

spec/Molecules.tla + TblOps.tla define every public table operation as a relation
(generator Outcomes / acceptor Accepts); TblMachine.tla is the session machine whose
invariants (RowsIntact, LengthsAgree, GroupsPartition, Selection, GenSound) TLC checks on
every reachable state.  Conformance: TLC generates operation programs (every explored
(state, op) pair in exhaustive mode, random behaviours in simulate mode); each program is run
on real Molecules objects, recording one event per call; TLC validates the recorded trace
against TblOps!Accepts (Trace_Tbl.tla).
"""
from __future__ import annotations

import json
import random

from harness import engine, tables

PROP = "C12"
LEVEL = "model_checking"


def run_program(prog: dict) -> list[dict]:
    """Execute one program on real objects; returns the recorded events."""
    A = tables.materialise(prog["init"]["A"])
    B = tables.materialise(prog["init"]["B"])
    events = []
    # every Molecules object the session has seen, with the table it must still hold: only the receiver of an `append` may
    # change, and only itself (a result that IS an earlier object would drag that object along)
    tracked = [[A, tables.project(A)], [B, tables.project(B)]]
    frozen: list = []
    for step, op in enumerate(prog["prog"]):
        if op["name"] == "swap":
            A, B = B, A
            continue
        preA, preB = tables.project(A), tables.project(B)
        if op["name"] == "sample":
            op = dict(op, seed=prog.get("seed", 0) + step)
        res, err, groups = tables.execute(op, A, B)
        out = dict(
            A=tables.project(A),
            B=tables.project(B),
            res=tables.project(res) if res is not None else tables.NOTAB,
            err=err,
            groups=list(groups),
            groups2=list(groups.second) if getattr(groups, "second", None) is not None else list(groups),
        )
        altered = 0
        for ent in tracked:
            if ent[0] is A and op["name"] in ("append", "append_extra") and not any(fz is A for fz in frozen):
                ent[1] = tables.project(A)            # the one legitimate in-place change
            elif tables.project(ent[0]) != ent[1]:
                altered += 1
        # a result is its own object: moving IT in place (and back) moves no object the session already holds, and moving the
        # receiver moves no result (buffers shared between a table and the tables derived from it would show here)
        if res is not None and not err and op["name"] != "peek" and len(res) > 0 and not any(ent[0] is res for ent in tracked):
            for mover, others in ((res, [e for e in tracked]), (A, [[res, tables.project(res)]])):
                if mover is res or not any(fz is mover for fz in frozen):
                    snap = [tables.project(e[0]) for e in others if e[0] is not mover]
                    mover.translate([1.0, 0.0, 0.0], copy=False)
                    now = [tables.project(e[0]) for e in others if e[0] is not mover]
                    mover.translate([-1.0, 0.0, 0.0], copy=False)
                    altered += sum(1 for a, b in zip(snap, now) if a != b)
        out["earlier_altered"] = altered
        if res is not None and op["name"] not in ("append", "append_extra", "peek") and (res is A or res is B):
            # an operation with copy semantics handed back one of its operands: the caller still holds that operand under its
            # old name, so from now on NOTHING may change it, not even an append on the "result"
            frozen.append(res)
        if res is not None and not any(ent[0] is res for ent in tracked):
            tracked.append([res, tables.project(res)])
        events.append(dict(id=f"{prog['pid']}:{step}", op=op, A=preA, B=preB, out=out))
        if not err and res is not None and op["name"] != "peek":
            A = res
        if len(A) > 6:  # keep permutation checks in the trace spec cheap
            A = A.subset(slice(0, 6))
    return events


def replay(prog) -> dict:
    return dict(events=run_program(prog))


def _descr(ev, bad, prog=None):
    op = ev["op"]
    return dict(clause=bad["why"], op=op["name"], ctx=bad.get("ctx", ""), kind=op.get("kind", ""),
                col=op.get("col", ""), event=ev, program=prog)


def _judge(rep: engine.Report, programs: list[dict], tag: str):
    results = engine.parallel_replay("harness.props.c12", "replay", programs)
    events = []
    owner = []
    for p, r in zip(programs, results):
        if "machinery_error" in r:
            rep.machinery_error(r["machinery_error"])
            continue
        for e in r["events"]:
            events.append(e)
            owner.append(p)
    if not events:
        return
    CH = 4000
    for lo in range(0, len(events), CH):
        chunk = events[lo : lo + CH]
        res, verdict = engine.validate_trace("Trace_Tbl", chunk, tag=tag)
        rep.add_tlc(res)
        badmap = {b["i"]: b for b in verdict["bad"]}
        for i, e in enumerate(chunk, start=1):
            fails = [_descr(e, badmap[i], owner[lo + i - 1])] if i in badmap else []
            rep.record({"op": e["op"], "A": e["A"]}, fails, nontrivial_key=(e["op"], e["A"], e["B"]))
            rep.count(e["op"]["name"])
    rep.traces_validated += len(programs)


def run(rep: engine.Report, tier: str, seed: int):
    quick = tier == "quick"
    # 1. exhaustive model check of the session machine (laws of the table algebra)
    mc = rep.add_tlc(engine.tlc("TblMachine", "MC_C12" if quick else "MC_C12_deep", coverage=True, timeout=3000))
    engine.check_not_vacuous(mc, ["DoApply", "Swap"])
    # 2. every explored (state, op) pair at depth <= 1, as one-step programs
    em = rep.add_tlc(engine.tlc("TblMachine", "EMIT_C12", workers=1))
    steps = em.emitted
    if not steps:
        raise engine.MachineryError("EMIT_C12 emitted nothing")
    one = [dict(pid=f"s{i}", init=dict(A=s["A"], B=s["B"]), prog=[s["op"]]) for i, s in enumerate(steps) if s["op"]["name"] != "swap"]
    budget = 6000 if quick else len(one)
    one = engine.stratified_sample(one, lambda p: (p["prog"][0]["name"], len(p["init"]["A"]["rows"])), budget, seed)
    _judge(rep, one, "steps")
    # 2b. query - in-place mutation - query sandwiches (all 3-step programs of that shape from the 2-row tables)
    sw = rep.add_tlc(engine.tlc("TblMachine", "EMIT_C12s", workers=1, timeout=1800, tag="sandwich"))
    seen = set()
    sand = []
    for p in sw.emitted:
        k = json.dumps(p, sort_keys=True)
        if k not in seen and len(p["prog"]) == 3:
            seen.add(k)
            sand.append(dict(pid=f"w{len(sand)}", init=p["init"], prog=p["prog"], seed=seed))
    if not sand:
        raise engine.MachineryError("EMIT_C12s emitted nothing")
    nsand = len(sand)
    sand = engine.stratified_sample(sand, lambda p: (p["prog"][0]["name"], p["prog"][2]["name"], len(p["init"]["B"]["cols"])), 1500 if quick else len(sand), seed)
    _judge(rep, sand, "sandwich")
    # 2c. any operation followed by an in-place append on its RESULT: an operation must not hand back one of its operands
    al = rep.add_tlc(engine.tlc("TblMachine", "EMIT_C12a", workers=1, timeout=1800, tag="alias"))
    seen2, alias = set(), []
    for p in al.emitted:
        k = json.dumps(p, sort_keys=True)
        if k not in seen2 and len(p["prog"]) == 2:
            seen2.add(k)
            alias.append(dict(pid=f"a{len(alias)}", init=p["init"], prog=p["prog"], seed=seed))
    if not alias:
        raise engine.MachineryError("EMIT_C12a emitted nothing")
    nalias = len(alias)
    alias = engine.stratified_sample(alias, lambda p: (p["prog"][0]["name"], len(p["init"]["B"]["rows"]), len(p["init"]["A"]["rows"])), 1200 if quick else len(alias), seed)
    _judge(rep, alias, "alias")
    # 3. long behaviours from TLC's simulator
    num = 400 if quick else 4000
    sim = rep.add_tlc(
        engine.tlc("TblMachine", "SIM_C12", workers=1, extra=["-simulate", f"num={num}", "-depth", "7", "-seed", str(seed + 11)], tag="sim")
    )
    rng = random.Random(seed)
    byprefix: dict[str, list] = {}
    for p in sim.emitted:
        byprefix.setdefault(json.dumps([p["init"], p["prog"][:-1]], sort_keys=True), []).append(p)
    progs = []
    for i, (k, v) in enumerate(sorted(byprefix.items())):
        p = rng.choice(v)
        progs.append(dict(pid=f"b{i}", init=p["init"], prog=p["prog"], seed=seed + i))
    if not progs:
        raise engine.MachineryError("SIM_C12 produced no behaviours")
    _judge(rep, progs, "sim")
    nrepo = 0
    if not quick:
        # 4. the repository's own tests under the table recorder: every top-level table operation they make is judged too
        import os
        import subprocess
        import sys

        path = engine.WORK / f"tbl-{os.getpid()}.ndjson"
        path.parent.mkdir(parents=True, exist_ok=True)
        if path.exists():
            path.unlink()
        env = dict(os.environ, ACRYO_VERIF="1", ACRYO_TRACE=str(path), ACRYO_TRACE_TABLES="1",
                   PYTHONPATH=str(engine.VERIF / "harness") + os.pathsep + str(engine.VERIF) + os.pathsep + os.environ.get("PYTHONPATH", ""))
        p = subprocess.run([sys.executable, "-m", "pytest", "-q", "-p", "no:cacheprovider", "-p", "acryo_recorder", "--timeout=900", "-n", "8", "tests"],
                           cwd=engine.repo_root(), env=env, capture_output=True, text=True, timeout=3000)
        rep.notes.append("repo tests under the table recorder: " + (p.stdout.strip().splitlines() or ["?"])[-1][:120])
        evs, skipped = [], 0
        if path.exists():
            with open(path) as fh:
                for line in fh:
                    e = json.loads(line)
                    if e["kind"] == "TblOp":
                        evs.append(e)
                    elif e["kind"] in ("TblSkip", "RecorderError"):
                        skipped += 1
            path.unlink()
        nrepo = len(evs)
        if evs:
            res, verdict = engine.validate_trace("Trace_Tbl", evs, tag="repo")
            rep.add_tlc(res)
            badmap = {b["i"]: b for b in verdict["bad"]}
            for i, e in enumerate(evs, start=1):
                fails = [dict(clause=badmap[i]["why"], op=e["op"]["name"], ctx="repo_test", kind="", col="", test=e.get("test", ""), event=e)] if i in badmap else []
                rep.record({"op": e["op"], "A": e["A"]}, fails, nontrivial_key=("repo", e["op"], e["A"], e["B"]))
            rep.count("repo_test_table_events", nrepo)
            rep.count("repo_test_table_events_skipped", skipped)
    rep.rule = (
        "events = real Molecules calls recorded while running TLC-generated programs: every (table state, operation) "
        "pair explored by TLC to depth 1 from all initial tables of 0..3 rows (k in 0..2 freely chosen; nullable v, s), "
        f"{len(sand)} of {nsand} query/in-place-append/any-operation sandwiches (3 steps, all from the 2-row tables), "
        f"{len(alias)} of {nalias} two-step programmes 'any operation, then an in-place append on its result' (incl. empty operands), "
        f"and {len(progs)} random behaviours of 6 operations from TLC -simulate; each event is judged by TLC against "
        "TblOps!Accepts; non-trivial = distinct (operation+arguments, pre-state A, B)"
        + (f"; thorough: {nrepo} top-level table operations made by the repository's own tests, projected (uids by pose, rank features) and judged the same way" if nrepo else "")
    )
    rep.assumptions += [
        "uid encodes (position, orientation): a mis-joined row projects to uid -1",
        "exception types are not part of the property: any exception counts as 'rejected'",
    ]


def replay_file(path: str) -> int:
    v = json.loads(open(path).read())
    if v.get("program") and len(v["program"]["prog"]) > 1:
        # multi-step programme: hidden state may matter, so the whole programme is re-run and re-judged
        evs = run_program(v["program"])
        _, verdict = engine.validate_trace("Trace_Tbl", evs, tag="replay")
        print(json.dumps(dict(events=evs, verdict=verdict), indent=1))
        return 1 if verdict["bad"] else 0
    ev = v["event"]
    A = tables.materialise(ev["A"])
    B = tables.materialise(ev["B"])
    res, err, groups = tables.execute(ev["op"], A, B)
    out = dict(A=tables.project(A), B=tables.project(B), res=tables.project(res) if res is not None else tables.NOTAB, err=err, groups=list(groups), groups2=list(groups.second) if getattr(groups, "second", None) is not None else list(groups), earlier_altered=0)
    e2 = dict(id="replay", op=ev["op"], A=ev["A"], B=ev["B"], out=out)
    _, verdict = engine.validate_trace("Trace_Tbl", [e2], tag="replay")
    print(json.dumps(dict(event=e2, verdict=verdict), indent=1))
    return 1 if verdict["bad"] else 0


def selftest() -> int:
    """A corrupted recorded field must be rejected by the trace specification."""
    prog = dict(pid="t", init=dict(
        A=dict(cols=["k", "v", "s"], rows=[dict(uid=1, f=dict(k=2, v=1, s=1)), dict(uid=2, f=dict(k=0, v=2, s=2))]),
        B=dict(cols=["k", "v"], rows=[dict(uid=11, f=dict(k=1, v=2))])), prog=[dict(name="sort", col="k", desc=False), dict(name="head", n=1)])
    ev = run_program(prog)
    _, good = engine.validate_trace("Trace_Tbl", ev, tag="self")
    bad_ev = json.loads(json.dumps(ev))
    bad_ev[1]["out"]["res"]["rows"][0]["f"]["k"] += 1  # feature detached from its molecule
    _, bad = engine.validate_trace("Trace_Tbl", bad_ev, tag="self")
    ok = not good["bad"] and len(bad["bad"]) == 1 and bad["bad"][0]["i"] == 2
    print("selftest C12:", "ok" if ok else f"FAILED {good} {bad}")
    return 0 if ok else 2
