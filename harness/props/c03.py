"""C03 - row i of every result belongs to molecule i.

spec/Loader.tla + LdrOps.tla: loaders as bookkeeping objects, every public operation as a
relation; LdrMachine.tla: the session machine (registrations, derivations, groupings,
observations) model-checked by TLC.  Conformance as for C12: TLC-generated programs are run
on real SubtomogramLoader / BatchLoader / LoaderGroup objects over identity-encoding
tomograms, every call is recorded, TLC judges the trace (Trace_Ldr.tla).
"""
from __future__ import annotations

import json
import random

from harness import engine, loaders, tables

PROP = "C03"
LEVEL = "model_checking"


def run_program(prog: dict) -> list[dict]:
    L = loaders.materialise(prog["init"]["L"])
    T = tables.materialise(prog["init"]["T"])
    # the spare table lives on the loader lattice
    T = loaders._molecules(prog["init"]["T"], "single")
    events = []
    S = None          # the object a fork left behind
    for step, op in enumerate(prog["prog"]):
        preL, preT = loaders.project(L), loaders.project_mol(T)
        preS = loaders.project(S) if S is not None else loaders.NOLDR
        if op["name"] in ("add_loader", "from_loaders") and preL["bin"] == 1:
            op = dict(op, codes=loaders.fresh2(L))
        if op["name"] == "swap":
            res, obs, groups, groups2, err, extra = L, [], [], [], "", dict(codes=[], avg_n=0)
        else:
            res, obs, groups, groups2, err, extra = loaders.execute(op, L, T, seed=prog.get("seed", 0) + step)
        sobs = []
        if S is not None and S.count() > 0 and preS["bin"] == 1:
            try:
                sobs = loaders.observe(S, "asnumpy")[0]
            except Exception as e:  # noqa: BLE001
                sobs = [dict(img=-2, uid=-2)]
        out = dict(
            S=loaders.project(S) if S is not None else loaders.NOLDR,
            sobs=sobs,
            L=loaders.project(L),
            T=loaders.project_mol(T) if not extra.get("operand_changed") else dict(cols=[], rows=[]),
            res=loaders.project(res) if res is not None else loaders.NOLDR,
            obs=obs,
            groups=groups,
            groups2=groups2,
            err=err,
            codes=extra["codes"],
            avg_n=extra["avg_n"],
        )
        events.append(dict(id=f"{prog['pid']}:{step}", op=op, L=preL, T=preT, S=preS, out=out))
        if op["name"] == "swap":
            L, S = S, L
        elif not err and res is not None and op["name"] == "fork":
            S, L = L, res
        elif not err and res is not None and op["name"] in ("derive", "add_tomogram", "add_loader", "from_loaders"):
            L = res
    return events


def replay(prog) -> dict:
    return dict(events=run_program(prog))


def _descr(ev, bad, prog=None):
    op = ev["op"]
    how = op.get("how")
    sub = op.get("via") or (how if isinstance(how, str) else (how or {}).get("name")) or (op.get("gop") or {}).get("name") or ""
    return dict(clause=bad["why"], op=op["name"], sub=sub, ctx=bad.get("ctx", ""), kind=ev["L"]["kind"],
                error=ev["out"]["err"][:80], event=ev, program=prog)


def _judge(rep: engine.Report, programs, tag):
    results = engine.parallel_replay("harness.props.c03", "replay", programs)
    events = []
    owner = []
    for p, r in zip(programs, results):
        if "machinery_error" in r:
            rep.machinery_error(r["machinery_error"])
            continue
        events.extend(r["events"])
        owner.extend([p] * len(r["events"]))
    CH = 3000
    for lo in range(0, len(events), CH):
        chunk = events[lo : lo + CH]
        res, verdict = engine.validate_trace("Trace_Ldr", chunk, tag=tag)
        rep.add_tlc(res)
        badmap = {b["i"]: b for b in verdict["bad"]}
        for i, e in enumerate(chunk, start=1):
            fails = [_descr(e, badmap[i], owner[lo + i - 1])] if i in badmap else []
            rep.record({"op": e["op"], "L": e["L"]}, fails, nontrivial_key=(e["op"], e["L"]))
            rep.count(e["op"]["name"])
    rep.traces_validated += len(programs)


def _interleaved(L) -> bool:
    ims = [r["f"].get("img", 0) for r in L["tab"]["rows"]]
    return any(ims[i] == ims[k] != ims[j] for i in range(len(ims)) for j in range(i + 1, len(ims)) for k in range(j + 1, len(ims)))


def _gap(L) -> bool:
    return list(L["imgs"]) != list(range(len(L["imgs"])))


def run(rep: engine.Report, tier: str, seed: int):
    quick = tier == "quick"
    mc = rep.add_tlc(engine.tlc("LdrMachine", "MC_C03" if quick else "MC_C03_deep", coverage=True, timeout=3000))
    engine.check_not_vacuous(mc, ["DoApply"])
    em = rep.add_tlc(engine.tlc("LdrMachine", "EMIT_C03", workers=1))
    em2 = rep.add_tlc(engine.tlc("LdrMachine", "EMIT_C03b", workers=1))
    em3 = rep.add_tlc(engine.tlc("LdrMachine", "EMIT_C03g", workers=1, timeout=1800, tag="big"))
    one = [dict(pid=f"s{i}", init=dict(L=s["L"], T=s["T"]), prog=[s["op"]]) for i, s in enumerate(em.emitted + em2.emitted + em3.emitted)]
    if not one:
        raise engine.MachineryError("EMIT_C03 emitted nothing")
    budget = 2500 if quick else len(one)
    one = engine.stratified_sample(
        one, lambda p: (p["prog"][0]["name"], json.dumps(p["prog"][0].get("how") or p["prog"][0].get("via") or p["prog"][0].get("gop"), sort_keys=True), p["init"]["L"]["kind"], _interleaved(p["init"]["L"]), _gap(p["init"]["L"]), len(p["init"]["L"]["tab"]["rows"]) > 6), budget, seed)
    _judge(rep, one, "steps")
    # fork programmes: fork [+ swap], an operation on the receiver, judged on both objects
    fk = rep.add_tlc(engine.tlc("LdrMachine", "EMIT_C03f", workers=1, timeout=1800, tag="fork"))
    seen, forks = set(), []
    for p in fk.emitted:
        k = json.dumps(p, sort_keys=True)
        if k not in seen and len(p["prog"]) == 3:
            seen.add(k)
            forks.append(dict(pid=f"f{len(forks)}", init=p["init"], prog=p["prog"], seed=seed))
    if not forks:
        raise engine.MachineryError("EMIT_C03f emitted nothing")
    nforks = len(forks)
    forks = engine.stratified_sample(forks, lambda p: (p["prog"][0]["how"], p["prog"][1]["name"], p["prog"][2]["name"], _gap(p["init"]["L"])), 600 if quick else len(forks), seed)
    _judge(rep, forks, "fork")
    num = 300 if quick else 3000
    sim = rep.add_tlc(engine.tlc("LdrMachine", "SIM_C03", workers=1,
                                 extra=["-simulate", f"num={num}", "-depth", "7", "-seed", str(seed + 5)], tag="sim"))
    rng = random.Random(seed)
    byprefix: dict[str, list] = {}
    for p in sim.emitted:
        byprefix.setdefault(json.dumps([p["init"], p["prog"][:-1]], sort_keys=True), []).append(p)
    progs = [dict(pid=f"b{i}", init=(p := rng.choice(v))["init"], prog=p["prog"], seed=seed + i)
             for i, (k, v) in enumerate(sorted(byprefix.items()))]
    if not progs:
        raise engine.MachineryError("SIM_C03 produced no behaviours")
    _judge(rep, progs, "sim")
    rep.rule = (
        "events = real loader calls recorded while running TLC-generated programs: every (loader state, operation) pair "
        "explored by TLC at depth 1 from all initial loaders (batch 2+2, batch 1+2, single 3, empty; k free in 0..2) "
        f"(stratified to {len(one)}), {len(forks)} of {nforks} fork programmes (a second object derived without new molecules by copy/replace/"
        f"binning(1)/reshape, optionally swapped, then registrations/derivations/observations: neither object may change the other), "
        f"and {len(progs)} TLC-simulated 6-step behaviours; operations: add_tomogram, derive via "
        "head/tail/filter/sample/sort/subset/copy/binning, observe via asnumpy/load(i)/load_iter/dask/align/score/apply/"
        "landscape (probe model), groupby with none/align/head/tail/filter/sample iterated twice; "
        "non-trivial = distinct (operation, loader state)"
    )
    rep.assumptions += [
        "identity-encoding tomograms: the centre voxel of a 3^3 sub-volume identifies (image, molecule)",
        "probe alignment model (subclass of BaseAlignmentModel) returns the centre voxel as score",
    ]


def replay_file(path: str) -> int:
    v = json.loads(open(path).read())
    ev = v["event"]
    prog = dict(pid="r", init=dict(L=ev["L"], T=ev["T"]), prog=[ev["op"]])
    if v.get("program") and len(v["program"]["prog"]) > 1:
        prog = v["program"]   # multi-step programme: re-run all of it
    evs = run_program(prog)
    _, verdict = engine.validate_trace("Trace_Ldr", evs, tag="replay")
    print(json.dumps(dict(events=evs, verdict=verdict), indent=1))
    return 1 if verdict["bad"] else 0


def selftest() -> int:
    L = dict(kind="batch", imgs=[0, 1], img=-1, bin=1, tab=dict(cols=["k", "v", "s", "img"], rows=[
        dict(uid=1, f=dict(k=0, v=1, s=1, img=0)), dict(uid=3, f=dict(k=1, v=NULLV, s=1, img=1))]))
    T = dict(cols=["k", "v", "s"], rows=[dict(uid=5, f=dict(k=2, v=2, s=1))])
    ev = run_program(dict(pid="t", init=dict(L=L, T=T), prog=[dict(name="observe", via="asnumpy")]))
    _, good = engine.validate_trace("Trace_Ldr", ev, tag="self")
    bad_ev = json.loads(json.dumps(ev))
    bad_ev[0]["out"]["obs"][0], bad_ev[0]["out"]["obs"][1] = bad_ev[0]["out"]["obs"][1], bad_ev[0]["out"]["obs"][0]
    _, bad = engine.validate_trace("Trace_Ldr", bad_ev, tag="self")
    ok = not good["bad"] and len(bad["bad"]) == 1 and bad["bad"][0]["why"] == "RowNotAligned"
    print("selftest C03:", "ok" if ok else f"FAILED {good} {bad}")
    return 0 if ok else 2


NULLV = tables.NULL
