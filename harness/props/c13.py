"""C13 - saved molecules reload unchanged.

spec/Serial.tla: suffix dispatch, column layout, exact / decimal-rounded round trip as an acceptor
over integer micro-units; MC_C13.tla enumerates the cases (rows, position lattices, orientation
classes incl. the rotation-vector branch cut, feature dtypes with nulls, precisions, suffixes,
entry points).  Every case is written and read back with the real API; the recorded event is
judged by TLC (Trace_Serial.tla).
"""
from __future__ import annotations

import json
import os
import tempfile

import numpy as np

from harness import engine
from harness.lattice import all_rot24

PROP = "C13"
LEVEL = "model_checking"
U = 10**6


def _positions(lattice, n, rng):
    if lattice == "d4":
        return rng.integers(-9_999_999, 9_999_999, size=(n, 3)) / 1e4 / 10
    if lattice == "d6":
        return rng.integers(-999_999, 999_999, size=(n, 3)) / 1e6 * 2
    if lattice == "wide":
        return np.array([[1999.5, -1875.25, 0.125], [0.0005, 1024.0, -0.0625], [1500.75, 3.5, -1999.0], [12.375, -0.5, 777.0]])[:n]
    return rng.integers(-2000, 2000, size=(n, 3)).astype(float)


def _rotations(kind, n, rng):
    from scipy.spatial.transform import Rotation

    R24 = all_rot24()
    if kind == "rot24":
        return Rotation.from_matrix(np.array([R24[int(i)] for i in rng.integers(0, 24, n)], dtype=float))
    if kind == "pi":  # all 180-degree turns: the rotation-vector branch cut
        pis = [m for m in R24 if round(np.trace(m)) == -1]
        extra = Rotation.from_rotvec(np.array([[np.pi, 0, 0], [0, -np.pi, 0], [np.pi / np.sqrt(2), np.pi / np.sqrt(2), 0], [0, 0, np.pi - 1e-7]]))
        rots = [Rotation.from_matrix(np.array(pis[int(i) % len(pis)], dtype=float)) for i in rng.integers(0, 99, n)]
        rots[0] = extra[int(rng.integers(0, 4))]
        return Rotation.concatenate(rots)
    if kind == "rotq":
        qs = np.array([[1, 0, 0, 2], [1, 1, 0, 3], [1, 1, 1, 2], [0, 1, 3, 1]], dtype=float)
        return Rotation.from_quat(qs[rng.integers(0, 4, n)])
    if kind == "tiny":
        return Rotation.from_rotvec(rng.normal(size=(n, 3)) * 1e-6)
    return Rotation.random(n, random_state=int(rng.integers(0, 2**31)))


def _features(kind, n, rng):
    import polars as pl

    if kind == "none":
        return None
    if kind == "ints":
        return pl.DataFrame({"n": pl.Series(rng.integers(-5, 5, n), dtype=pl.Int64), "big": pl.Series(rng.integers(0, 10**9, n), dtype=pl.Int64)})
    if kind == "mixed":
        return pl.DataFrame({
            "score": pl.Series(rng.integers(0, 100, n), dtype=pl.Int32),
            "f": pl.Series(rng.integers(-10**6, 10**6, n) / 1e3, dtype=pl.Float64),
            "path-len": pl.Series(rng.integers(10**9, 2 * 10**9, n) / 1e6, dtype=pl.Float64),  # needs float64
            "s": pl.Series([["alpha", "b c", "x,y", "Z"][int(i)] for i in rng.integers(0, 4, n)], dtype=pl.Utf8),
            "b": pl.Series([bool(i) for i in rng.integers(0, 2, n)], dtype=pl.Boolean),
        })
    if kind == "special":
        # values that look like missing-value markers but are data: float NaN (not null), the strings "NA", "NaN", "None"
        vf = [float("nan") if i == 0 else float(i) - 0.5 for i in rng.integers(0, 3, n)]
        vs = [["NA", "NaN", "None", "n/a"][int(i)] for i in rng.integers(0, 4, n)]
        if n:
            vf[0], vs[0] = float("nan"), "NA"
        return pl.DataFrame({"fnan": pl.Series(vf, dtype=pl.Float64), "smark": pl.Series(vs, dtype=pl.Utf8)})
    vals_f = [None if i == 0 else float(i) + 0.25 for i in rng.integers(0, 3, n)]
    vals_s = [None if i == 0 else "q" for i in rng.integers(0, 2, n)]
    vals_i = [None if i == 0 else int(i) for i in rng.integers(0, 3, n)]
    if all(v is None for v in vals_i):
        vals_i[0] = 1 if n else None
    if all(v is None for v in vals_f):
        vals_f[0] = 1.25
    if all(v is None for v in vals_s):
        vals_s[0] = "q"
    return pl.DataFrame({"fn": pl.Series(vals_f, dtype=pl.Float64), "sn": pl.Series(vals_s, dtype=pl.Utf8), "in_": pl.Series(vals_i, dtype=pl.Int64)})


def _feat_val(x):
    if x is None:
        return {"t": "null", "x": 0}
    if isinstance(x, (float, np.floating)) and np.isnan(x):
        return {"t": "nan", "x": 0}          # NaN is a value, not a missing entry
    if isinstance(x, bool) or isinstance(x, np.bool_):
        return {"t": "bool", "x": int(bool(x))}
    if isinstance(x, (int, np.integer)):
        return {"t": "int", "x": int(x) % 1000003}
    if isinstance(x, (float, np.floating)):
        return {"t": "float", "x": int(round(float(x) * U))}
    return {"t": "str", "x": sum(ord(ch) * (i + 1) for i, ch in enumerate(str(x))) % 100003}


def _rows(mol, ref_rot=None):
    pos = np.asarray(mol.pos, dtype=np.float64)
    feats = mol.features
    rows = []
    for i in range(len(mol)):
        ang = 0
        if ref_rot is not None:
            ang = int(np.ceil((ref_rot[i].inv() * mol.rotator[i]).magnitude() * 1e6))
        hp = int(round(float(feats["hp"][i]) * 10**9)) if "hp" in feats.columns else 0
        rows.append(dict(pos=[int(round(float(x) * U)) for x in pos[i]], angle_urad=ang, hp=hp,
                         q=[int(np.ceil(float(np.spacing(np.float32(abs(x)))) * U)) for x in pos[i]],
                         f={c: _feat_val(feats[c][i]) for c in feats.columns if c != "hp"} or {"_": {"t": "null", "x": 0}}))
    return rows


def replay(case) -> dict:
    import polars as pl
    from acryo import Molecules

    cfg = case["cfg"]
    rng = np.random.default_rng(case["_seed"])
    n = cfg["n"]
    pos = np.asarray(_positions(cfg["lattice"], n, rng), dtype=np.float64).reshape(n, 3)
    if cfg.get("layout") == "f":
        pos = np.asfortranarray(pos.astype(np.float32))       # e.g. np.array([zs, ys, xs]).T: column-major, already float32
    if n == 0:       # an empty table still has its feature columns
        f0 = _features(cfg["feats"], 1, rng)
        intended = None if f0 is None else f0.clear()
        mol = Molecules(np.zeros((0, 3)), None, features=intended)
    else:
        intended = _features(cfg["feats"], n, rng)
        if cfg["prec"] >= 7 or (cfg["via"] in ("parquet", "frame") and case["_i"] % 2 == 0):
            # a double-precision feature with nine significant decimals (file formats keep Float64 features as they are)
            hpcol = pl.Series("hp", np.round(rng.uniform(0.1, 1.9, size=n), 9), dtype=pl.Float64)
            intended = pl.DataFrame([hpcol]) if intended is None else intended.with_columns(hpcol)
        mol = Molecules(pos, _rotations(cfg["rots"], n, rng), features=intended)
    if cfg.get("prep") == "inplace" and n > 0:
        # history before saving: the table was shifted IN PLACE, by plain Python floats and by a float64 array (what is saved is
        # the table as it stands now)
        mol.translate([0.5, -0.25, 1.0], copy=False)
        mol.translate_internal(np.array([[0.125, 0.0, -0.5]] * n, dtype=np.float64), copy=False)
        # ... and looked at (rotation vectors, data frame) and then ROTATED in place: what is saved is the orientation it has now
        mol.rotvec()
        mol.to_dataframe()
        mol.rotate_by_rotvec_internal(np.array([[0.3, -0.2, 0.5]] * n, dtype=np.float64), copy=False)
    ev = dict(id=str(case["_i"]), via=cfg["via"], suffix=cfg["suffix"], prec=cfg["prec"], cols=([] if intended is None else list(intended.columns)),
              header=[], stored_as="", rows=_rows(mol), back=[], err="", cols_back=[])
    tmp = tempfile.mkdtemp(prefix="c13-", dir=str(engine.WORK))
    path = os.path.join(tmp, "mole" + cfg["suffix"])
    try:
        if cfg["via"] == "frame":
            df = mol.to_dataframe()
            ev["header"], ev["stored_as"] = list(df.columns), "frame"
            back = Molecules.from_dataframe(df)
        else:
            if cfg["via"] == "file":
                if cfg["prec"] == 4:
                    mol.to_file(path)
                else:  # to_file has no precision argument; -1 means "whatever to_file does" is not claimed: use to_csv/to_parquet
                    (mol.to_parquet if cfg["suffix"] in (".pq", ".parquet") else lambda p: mol.to_csv(p, float_precision=None))(path)
                back = Molecules.from_file(path)
            elif cfg["via"] == "csv":
                mol.to_csv(path, float_precision=None if cfg["prec"] < 0 else cfg["prec"])
                back = Molecules.from_csv(path)
            else:
                mol.to_parquet(path)
                back = Molecules.from_parquet(path)
            with open(path, "rb") as fh:
                head = fh.read(4)
            ev["stored_as"] = "parquet" if head == b"PAR1" else "csv"
            if ev["stored_as"] == "csv":
                with open(path) as fh:
                    ev["header"] = fh.readline().strip().split(",")
            else:
                ev["header"] = list(pl.read_parquet(path).columns)
        ev["back"] = _rows(back, ref_rot=mol.rotator)
        # TLC integers are 32-bit: a reloaded coordinate that is far off is reported as "far off" (clamped to +-1e8 micro-units
        # around the original), which keeps the verdict total instead of overflowing in the acceptor
        for o, g in zip(ev["rows"], ev["back"]):
            g["pos"] = [int(min(max(gv, ov - 10**8), ov + 10**8)) for ov, gv in zip(o["pos"], g["pos"])]
        ev["cols_back"] = list(back.features.columns)
    except Exception as e:  # noqa: BLE001
        ev["err"] = type(e).__name__ + ": " + str(e)[:120]
    finally:
        import shutil

        shutil.rmtree(tmp, ignore_errors=True)
    return dict(events=[ev])


def run(rep: engine.Report, tier: str, seed: int):
    engine.WORK.mkdir(exist_ok=True)
    mc = rep.add_tlc(engine.tlc("MC_C13", "MC_C13", workers=1))
    cases = mc.emitted
    if not cases:
        raise engine.MachineryError("MC_C13 emitted nothing")
    budget = 1500 if tier == "quick" else len(cases)
    sel = engine.stratified_sample(cases, lambda c: (c["cfg"]["via"], c["cfg"]["suffix"], c["cfg"]["prec"], c["cfg"]["rots"], c["cfg"]["feats"], c["cfg"]["layout"], c["cfg"]["n"] == 3, c["cfg"]["n"] == 0, c["cfg"]["prep"]), budget, seed)
    for i, c in enumerate(sel):
        c["_i"], c["_seed"] = i, seed * 100003 + i
    results = engine.parallel_replay("harness.props.c13", "replay", sel)
    events = []
    for r in results:
        if "machinery_error" in r:
            rep.machinery_error(r["machinery_error"])
        else:
            events.extend(r["events"])
    res, verdict = engine.validate_trace("Trace_Serial", events, tag="ser")
    rep.add_tlc(res)
    badmap = {b["i"]: b for b in verdict["bad"]}
    for i, (c, e) in enumerate(zip(sel, events), start=1):
        fails = [dict(clause=badmap[i]["why"], via=e["via"], suffix=e["suffix"], prec=e["prec"], rots=c["cfg"]["rots"], feats=c["cfg"]["feats"], error=e["err"], event=e)] if i in badmap else []
        rep.record(c["cfg"], fails, nontrivial_key=c["cfg"])
    rep.traces_validated = len(events)
    rep.exhaustive = len(sel) == len(cases)
    rep.rule = (
        "TLC enumerates rows 1..4 x position lattices (4 and 6 decimals, wide range, integers) x orientation classes (Rot24, "
        "all 180-degree turns and near-pi, rational, near-zero, random) x feature sets (none, ints, mixed incl. strings/"
        "booleans/floats, nulls) x precision {None,2,4,6} x entry points (to_file/from_file by suffix, csv, parquet, frame) x "
        f"suffixes; {len(cases)} cases, {len(sel)} round-tripped with the real API and judged by TLC"
    )
    rep.assumptions += ["strings are compared by a checksum; integers modulo 1000003 (TLC integers are 32-bit)"]


def replay_file(path: str) -> int:
    v = json.loads(open(path).read())
    _, verdict = engine.validate_trace("Trace_Serial", [v["event"]], tag="replay")
    print(json.dumps(verdict))
    return 1 if verdict["bad"] else 0


def selftest() -> int:
    case = dict(_i=0, _seed=3, cfg=dict(n=3, lattice="d4", rots="rot24", feats="mixed", prec=4, via="csv", suffix=".csv", layout="c", prep="none"))
    ev = replay(case)["events"]
    _, good = engine.validate_trace("Trace_Serial", ev, tag="self")
    bad_ev = json.loads(json.dumps(ev))
    bad_ev[0]["back"][1]["pos"][2] += 200
    _, bad = engine.validate_trace("Trace_Serial", bad_ev, tag="self")
    ok = not good["bad"] and len(bad["bad"]) == 1 and bad["bad"][0]["why"] == "Position"
    print("selftest C13:", "ok" if ok else f"FAILED {good} {bad}")
    return 0 if ok else 2
