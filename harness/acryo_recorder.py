"""pytest plugin (PYTHONPATH=/verif/harness pytest -p acryo_recorder ...): record the repository's own
tests without touching them.  Active only with ACRYO_VERIF=1 and ACRYO_TRACE=<file>."""
import os
import sys

sys.path.insert(0, os.path.dirname(os.path.dirname(os.path.abspath(__file__))))


def pytest_configure(config):
    from harness import recorder

    recorder.install()
