"""Recorder: wraps public methods of acryo from the outside (no source change) and writes one ndjson
event per call return -- also on the error path.  Enabled only when ACRYO_VERIF=1 and ACRYO_TRACE
names the output file.  Events are ordered per thread by a per-thread sequence number; nothing is
ever ordered by wall-clock time across threads.

Event kinds
  AlignReturn   every RotationImplemented.align return (model, T, K, max_shifts, shift, score finite,
                label, index of the reported quaternion in the searched set, error)
  PostAlign     every LoaderBase._post_align/_post_align_multi_templates return: input poses, per-row
                results, output poses, scale (fixed point), for the write-back algebra of C01
  LoaderAlign   every loader.align / align_multi_templates / align_no_template (and LoaderGroup) return:
                the caller's max_shifts (nm), the scale and each molecule's displacement in its own
                frame, for the loader-level clause of C05
"""
from __future__ import annotations

import functools
import json
import os
import threading

import numpy as np

_lock = threading.Lock()
_seq: dict[int, int] = {}
_out = None
_installed = False
_ctx = threading.local()
MISSING: list[str] = []


def _emit(ev: dict):
    global _out
    path = os.environ.get("ACRYO_TRACE")
    if not path:
        return
    t = threading.get_ident()
    with _lock:
        _seq[t] = _seq.get(t, 0) + 1
        ev["thread"] = t % 100000
        ev["seq"] = _seq[t]
        ev["test"] = os.environ.get("PYTEST_CURRENT_TEST", "").split(" ")[0][:80]
        if _out is None:
            _out = open(path, "a")
        _out.write(json.dumps(ev) + "\n")
        _out.flush()


def _fx(x, scale=1000):
    out = []
    for v in np.asarray(x, dtype=np.float64).ravel():
        out.append(int(round(float(v) * scale)) if np.isfinite(v) else 2**30)
    return out


def set_tag(tag: str):
    _ctx.tag = tag


def install():
    """Idempotent; reports targets it cannot find in MISSING instead of failing."""
    global _installed
    if _installed or os.environ.get("ACRYO_VERIF") != "1":
        return
    _installed = True
    try:
        from acryo.alignment import _base
    except Exception:  # noqa: BLE001
        MISSING.append("acryo.alignment._base")
        return
    cls = getattr(_base, "RotationImplemented", None)
    if cls is None or "align" not in cls.__dict__:
        MISSING.append("RotationImplemented.align")
    else:
        orig = cls.__dict__["align"]

        @functools.wraps(orig)
        def align(self, img, max_shifts, *a, **k):
            ev = {"kind": "AlignReturn", "model": type(self).__name__, "T": int(getattr(self, "_n_templates", 1)),
                  "K": int(getattr(self, "_n_rotations", 1)), "tag": getattr(_ctx, "tag", ""), "error": "",
                  "label": 0, "shift": [0, 0, 0], "finite": True, "qidx": -1, "max_shifts": [0, 0, 0], "box": []}
            try:
                ms = np.broadcast_to(np.asarray(max_shifts, dtype=np.float64), (3,))
                ev["max_shifts"] = _fx(ms)
                ev["box"] = [int(s) for s in np.shape(img)[-3:]]
            except Exception:  # noqa: BLE001
                pass
            try:
                r = orig(self, img, max_shifts, *a, **k)
            except Exception as e:  # noqa: BLE001
                ev["error"] = type(e).__name__
                _emit(ev)
                raise
            ev.update(label=int(r.label), shift=_fx(r.shift),
                      finite=bool(np.isfinite(np.asarray(r.shift, dtype=np.float64)).all() and np.isfinite(float(r.score))))
            try:
                qs = np.asarray(self.quaternions, dtype=np.float64)
                dq = np.minimum(np.abs(qs - np.asarray(r.quat, dtype=np.float64)).sum(1), np.abs(qs + np.asarray(r.quat, dtype=np.float64)).sum(1))
                ev["qidx"] = int(np.argmin(dq)) if float(dq.min()) < 1e-6 else -2
            except Exception:  # noqa: BLE001
                ev["qidx"] = -1
            _emit(ev)
            return r

        cls.align = align
    try:
        from acryo.loader import _base as lb
    except Exception:  # noqa: BLE001
        MISSING.append("acryo.loader._base")
        return
    for name in ("_post_align", "_post_align_multi_templates"):
        if name not in lb.LoaderBase.__dict__:
            MISSING.append("LoaderBase." + name)
            continue
        _wrap_post(lb.LoaderBase, name)
    for name in ("align", "align_multi_templates", "align_no_template"):
        if name not in lb.LoaderBase.__dict__:
            MISSING.append("LoaderBase." + name)
            continue
        _wrap_loader_align(lb.LoaderBase, name)
    try:
        from acryo.loader._group import LoaderGroup
    except Exception:  # noqa: BLE001
        MISSING.append("LoaderGroup")
        return
    for name in ("align", "align_multi_templates", "align_no_template"):
        if name in LoaderGroup.__dict__:
            _wrap_group_align(LoaderGroup, name)
        else:
            MISSING.append("LoaderGroup." + name)
    if os.environ.get("ACRYO_TRACE_TABLES") == "1":
        from harness import recorder_tbl

        recorder_tbl.install()


def _norm_ms(ms):
    a = np.asarray(ms, dtype=np.float64)
    return _fx(np.broadcast_to(a, (3,)))


def _displacements(mi, mo, scale):
    """R_in^-1 (p_out - p_in) / scale per row, fixed point 1e-3 px (user-level clause of C05)."""
    n = min(len(mi), len(mo), 64)
    if len(mi) != len(mo):
        return None
    out = []
    Ri = mi.rotator
    for i in range(n):
        d = Ri[i].inv().apply((np.asarray(mo.pos[i], dtype=np.float64) - np.asarray(mi.pos[i], dtype=np.float64)) / scale)
        out.append(_fx(d))
    return out


def _wrap_loader_align(cls, name):
    orig = cls.__dict__[name]

    @functools.wraps(orig)
    def wrapped(self, *a, **k):
        out = orig(self, *a, **k)
        try:
            ms = k.get("max_shifts", 1.0)
            rows = _displacements(self.molecules, out.molecules, float(self.scale))
            _emit({"kind": "LoaderAlign", "fn": name, "max_shifts_nm": _norm_ms(ms), "scale_milli": int(round(float(self.scale) * 1000)),
                   "rows": rows if rows is not None else [], "same_count": rows is not None, "tag": getattr(_ctx, "tag", "")})
        except Exception as e:  # noqa: BLE001
            _emit({"kind": "RecorderError", "fn": name, "what": type(e).__name__ + ": " + str(e)[:100]})
        return out

    setattr(cls, name, wrapped)


def _wrap_group_align(cls, name):
    orig = cls.__dict__[name]

    @functools.wraps(orig)
    def wrapped(self, *a, **k):
        before = [(key, ldr) for key, ldr in self]
        out = orig(self, *a, **k)
        try:
            ms = k.get("max_shifts", 1.0)
            after = {key: ldr for key, ldr in out}
            for key, ldr in before:
                if key not in after:
                    continue
                rows = _displacements(ldr.molecules, after[key].molecules, float(ldr.scale))
                _emit({"kind": "LoaderAlign", "fn": "group." + name, "max_shifts_nm": _norm_ms(ms), "scale_milli": int(round(float(ldr.scale) * 1000)),
                       "rows": rows if rows is not None else [], "same_count": rows is not None, "tag": getattr(_ctx, "tag", "")})
        except Exception as e:  # noqa: BLE001
            _emit({"kind": "RecorderError", "fn": "group." + name, "what": type(e).__name__ + ": " + str(e)[:100]})
        return out

    setattr(cls, name, wrapped)


def _wrap_post(cls, name):
    orig = cls.__dict__[name]

    @functools.wraps(orig)
    def post(self, results, *a, **k):
        out = orig(self, results, *a, **k)
        try:
            from scipy.spatial.transform import Rotation

            mi, mo = self.molecules, out.molecules
            n = len(mi)
            scale = float(self.scale)
            rows = []
            Ri, Ro = mi.rotator, mo.rotator
            for i in range(min(n, 64)):
                res = results[i]
                q = Rotation.from_quat(np.asarray(res.quat, dtype=np.float64))
                # everything the write-back law needs, measured on the real objects, in fixed point:
                #   d_int = R_in^-1 (p_out - p_in) / scale      (displacement in the input molecule frame, px)
                #   rot_err = angle between R_out and R_in o q   (micro-radians)
                d_int = Ri[i].inv().apply((np.asarray(mo.pos[i], dtype=np.float64) - np.asarray(mi.pos[i], dtype=np.float64)) / scale)
                rot_err = (Ro[i].inv() * (Ri[i] * q)).magnitude()
                f = mo.features
                rows.append(dict(shift=_fx(res.shift), d_int=_fx(d_int), rot_err_urad=int(round(float(rot_err) * 1e6)),
                                 feat_shift=_fx([f["align-dz"][i], f["align-dy"][i], f["align-dx"][i]]),
                                 shift_nm=_fx(np.asarray(res.shift, dtype=np.float64) * scale),
                                 feat_rot=_fx([f["align-dzrot"][i], f["align-dyrot"][i], f["align-dxrot"][i]], 100000),
                                 rotvec=_fx(q.as_rotvec(), 100000),
                                 score_ok=bool(abs(float(f["score"][i]) - float(res.score)) <= 1e-5 * max(1.0, abs(float(res.score))) or (np.isnan(float(f["score"][i])) and np.isnan(float(res.score))))))
            _emit({"kind": "PostAlign", "fn": name, "n": n, "rows": rows, "scale_milli": int(round(scale * 1000)), "tag": getattr(_ctx, "tag", "")})
        except Exception as e:  # noqa: BLE001  recording must never disturb the code under test
            _emit({"kind": "RecorderError", "fn": name, "what": type(e).__name__ + ": " + str(e)[:100]})
        return out

    setattr(cls, name, post)
