"""Recorder for Molecules table operations (C12, code -> spec): every top-level call of a table operation made by
ANY program - in practice the repository's own tests - is recorded as one event [op, A, B, out] in the vocabulary of
spec/TblOps.tla and judged by TLC (Trace_Tbl.tla).

Projection (the same idea as harness/tables.project, for arbitrary data): the rows of the operands get uids 1..n; a
row of a result is identified with the operand row that has the same pose (position within 1e-3, orientation within
0.05 degrees); feature values become dense ranks per column (null = -99), which keeps equality and order.  Events
whose operands contain two rows with the same pose, more than MAX_ROWS rows, or values that cannot be ranked are
skipped (kind "TblSkip", with the reason) - never guessed.
"""
from __future__ import annotations

import functools
import threading

import numpy as np

from harness import recorder

MAX_ROWS = 48
NULL = -99
_tl = threading.local()


class Skip(Exception):
    pass


def _snap(mol):
    n = len(mol)
    feats = mol.features
    return dict(pos=np.array(mol.pos, dtype=np.float64, copy=True).reshape(n, 3),
                quat=np.array(mol.quaternion(), dtype=np.float64, copy=True).reshape(n, 4) if n else np.zeros((0, 4)),
                cols=list(feats.columns), feats={c: feats[c].to_list() for c in feats.columns}, n=n, nfeat=len(feats))


def _same_pose(p1, q1, p2, q2):
    if np.max(np.abs(p1 - p2)) > 1e-3:
        return False
    d = abs(float(np.dot(q1, q2)))
    return d > 1.0 - 4e-7          # angle < ~0.05 degrees


def _norm(v):
    if v is None:
        return None
    if isinstance(v, float) and v != v:
        return ("nan",)
    if isinstance(v, (bool, np.bool_)):
        return (0, int(v))
    if isinstance(v, (int, float, np.integer, np.floating)):
        return (1, float(v))
    if isinstance(v, str):
        return (2, v)
    raise Skip(f"value of type {type(v).__name__} cannot be ranked")


def project_event(operands: dict, results: dict):
    """operands / results: name -> snapshot.  Returns name -> abstract table (cols, rows with uid and rank features)."""
    base = []
    for name, s in operands.items():
        if s["n"] > MAX_ROWS:
            raise Skip("too many rows")
        if s["cols"] and s["nfeat"] != s["n"]:
            raise Skip("operand already inconsistent")
        for i in range(s["n"]):
            base.append((name, i))
    def featkey(s, i):
        return tuple((c, _norm(s["feats"][c][i])) for c in sorted(s["cols"])) if s["nfeat"] == s["n"] else ("?",)

    for a in range(len(base)):
        for b in range(a + 1, len(base)):
            sa, sb = operands[base[a][0]], operands[base[b][0]]
            if _same_pose(sa["pos"][base[a][1]], sa["quat"][base[a][1]], sb["pos"][base[b][1]], sb["quat"][base[b][1]]) \
                    and featkey(sa, base[a][1]) == featkey(sb, base[b][1]):
                raise Skip("two operand rows are indistinguishable (same pose, same features)")
    uid = {k: i + 1 for i, k in enumerate(base)}
    # ranks per column over every table of the event
    vals: dict[str, set] = {}
    for s in list(operands.values()) + list(results.values()):
        for c in s["cols"]:
            for v in s["feats"][c]:
                nv = _norm(v)
                if nv is not None:
                    vals.setdefault(c, set()).add(nv)
    rank = {}
    for c, vs in vals.items():
        if len({x[0] for x in vs if x != ("nan",)}) > 1:
            raise Skip("mixed value kinds in one column")
        rank[c] = {v: r for r, v in enumerate(sorted(vs, key=lambda x: (x == ("nan",), x)))}

    def table(s, is_operand, name):
        rows = []
        consistent = (not s["cols"]) or s["nfeat"] == s["n"]
        for i in range(s["n"]):
            if is_operand:
                u = uid[(name, i)]
            else:
                cand = [k for k in base if _same_pose(operands[k[0]]["pos"][k[1]], operands[k[0]]["quat"][k[1]], s["pos"][i], s["quat"][i])]
                if len(cand) > 1 and consistent:
                    # several operand rows share this pose: they differ in their features, which then identify the row
                    # (on the columns the two tables have in common)
                    def agree(k):
                        o = operands[k[0]]
                        return all(_norm(o["feats"][c][k[1]]) == _norm(s["feats"][c][i]) for c in s["cols"] if c in o["cols"])
                    cand = [k for k in cand if agree(k)]
                    exact = [k for k in cand if sorted(operands[k[0]]["cols"]) == sorted(s["cols"])]
                    if len(exact) == 1:
                        cand = exact
                u = uid[cand[0]] if len(cand) == 1 else -1
            if not consistent:
                u = -1
            f = {c: (NULL if (not consistent or _norm(s["feats"][c][i]) is None) else rank[c][_norm(s["feats"][c][i])]) for c in s["cols"]} if s["cols"] else []
            rows.append({"uid": u, "f": f})
        return {"cols": list(s["cols"]), "rows": rows}

    out = {name: table(s, True, name) for name, s in operands.items()}
    out.update({name: table(s, False, name) for name, s in results.items()})
    return out, rank


NOTAB = {"cols": [], "rows": []}
_count = [0]


def _record(opname, mk_op, self, other, call, post_self=True):
    """Run `call` and emit one event.  mk_op(ranker) -> op dict or raises Skip."""
    depth = getattr(_tl, "depth", 0)
    if depth > 0:            # nested call made by acryo itself: part of the outer operation
        return call()
    _tl.depth = 1
    try:
        try:
            pre = {"A": _snap(self)}
            if other is not None:
                pre["B"] = _snap(other)
        except Exception:  # noqa: BLE001
            pre = None
        err, res = "", None
        try:
            res = call()
            return res
        except Exception as e:  # noqa: BLE001
            err = type(e).__name__
            raise
        finally:
            if pre is not None:
                try:
                    results = {"A2": _snap(self)}
                    if other is not None:
                        results["B2"] = _snap(other)
                    groups_real = None
                    if res is not None and opname == "group_by":
                        groups_real = [(k, _snap(m)) for k, m in res]
                        for gi, (k, s) in enumerate(groups_real):
                            results[f"G{gi}"] = s
                    elif res is not None:
                        results["R"] = _snap(res)
                    tabs, rank = project_event(pre, results)
                    op = mk_op(rank, pre)
                    groups = []
                    if groups_real is not None:
                        col = op["col"]
                        for gi, (k, s) in enumerate(groups_real):
                            nk = _norm(k)
                            groups.append({"key": NULL if nk is None else rank[col][nk], "tab": tabs[f"G{gi}"]})
                    _count[0] += 1
                    recorder._emit({"kind": "TblOp", "id": f"t{_count[0]}", "op": op, "A": tabs["A"], "B": tabs.get("B", NOTAB),
                                    "out": {"A": tabs["A2"], "B": tabs.get("B2", NOTAB), "res": tabs.get("R", NOTAB), "err": err, "groups": groups, "groups2": groups, "earlier_altered": 0}})
                except Skip as s:
                    recorder._emit({"kind": "TblSkip", "op": opname, "why": str(s)})
                except Exception as e:  # noqa: BLE001  recording must never disturb the code under test
                    recorder._emit({"kind": "RecorderError", "fn": "tbl." + opname, "what": type(e).__name__ + ": " + str(e)[:100]})
    finally:
        _tl.depth = 0


def install():
    try:
        from acryo.molecules.core import Molecules
    except Exception:  # noqa: BLE001
        recorder.MISSING.append("Molecules")
        return
    import polars as pl

    def wrap(name, mk, other_arg=False):
        if name not in Molecules.__dict__:
            recorder.MISSING.append("Molecules." + name)
            return
        orig = Molecules.__dict__[name]

        @functools.wraps(orig)
        def wrapped(self, *a, **k):
            other = a[0] if other_arg and a and isinstance(a[0], Molecules) else None
            return _record(name, lambda rank, pre: mk(self, a, k, rank, pre), self, other, lambda: orig(self, *a, **k))

        setattr(Molecules, name, wrapped)

    def n_of(a, k, default=10):
        n = a[0] if a else k.get("n", default)
        if not isinstance(n, (int, np.integer)) or n < 0:
            raise Skip("count argument outside the specification (negative or not an int)")
        return int(n)

    wrap("head", lambda s, a, k, r, p: {"name": "head", "n": n_of(a, k)})
    wrap("tail", lambda s, a, k, r, p: {"name": "tail", "n": n_of(a, k)})
    wrap("sample", lambda s, a, k, r, p: {"name": "sample", "n": n_of(a, k), "seed": 0})
    wrap("filter", lambda s, a, k, r, p: {"name": "filter_any"})

    def mk_sort(s, a, k, r, p):
        by = a[0] if a else k.get("by")
        if len(a) > 1 or not isinstance(by, str) or by not in p["A"]["cols"]:
            return {"name": "perm_any"}
        if any(v is None for v in p["A"]["feats"][by]):
            return {"name": "perm_any"}       # the position of nulls in a sort is polars' choice
        return {"name": "sort", "col": by, "desc": bool(k.get("descending", False))}

    wrap("sort", mk_sort)

    def mk_subset(s, a, k, r, p):
        spec = a[0] if a else k.get("spec")
        n = p["A"]["n"]
        if isinstance(spec, (int, np.integer)):
            if spec < 0:
                raise Skip("negative index")
            return {"name": "subset_int", "i": int(spec)}
        if isinstance(spec, slice):
            st, sp, step = spec.indices(n)
            if step < 1:
                raise Skip("negative slice step")
            return {"name": "subset_slice", "a": int(st), "b": int(sp), "step": int(step)}
        arr = np.asarray(spec)
        if arr.dtype == bool:
            if arr.ndim != 1:
                raise Skip("mask not 1-D")
            return {"name": "subset_mask", "mask": [bool(x) for x in arr]}
        if arr.ndim == 1 and np.issubdtype(arr.dtype, np.integer) and arr.size <= MAX_ROWS:
            if np.any(arr < 0):
                raise Skip("negative indices")
            return {"name": "subset_list", "idx": [int(x) for x in arr]}
        raise Skip("subset specification outside the specification")

    wrap("subset", mk_subset)
    wrap("concat_with", lambda s, a, k, r, p: {"name": "concat_with"} if k.get("nullable", True) and len(a) < 2 else (_ for _ in ()).throw(Skip("nullable=False")), other_arg=True)
    wrap("append", lambda s, a, k, r, p: {"name": "append"}, other_arg=True)

    def mk_group(s, a, k, r, p):
        by = a[0] if a else k.get("by")
        if len(a) > 1 or not isinstance(by, str) or by not in p["A"]["cols"]:
            raise Skip("group_by key is not a single feature column")
        return {"name": "group_by", "col": by}

    wrap("group_by", mk_group)
