"""Materialise / project loaders of spec/Loader.tla and execute loader operations.

Identity-encoding tomograms: image m has voxel value m*100000 + linear index + 1, so the
centre voxel of a loaded sub-volume reveals (image id, voxel) and, through the position
table, the uid of the molecule it was loaded for.  uid u sits at the integer voxel POS[u]
with the u-th Rot24 orientation (a Rot24 rotation about the centre voxel keeps the centre
voxel, at any interpolation order).
"""
from __future__ import annotations

import numpy as np
import polars as pl
from scipy.spatial.transform import Rotation

from harness import tables
from harness.tables import NULL

SHAPE = (22, 24, 26)
BOX = (3, 3, 3)


def pos_l(uid: int):
    return (4.0 + uid, 5.0 + (3 * uid) % 11, 6.0 + (5 * uid) % 13)


def tomogram(imgid: int) -> np.ndarray:
    n = int(np.prod(SHAPE))
    return (imgid * 100000 + np.arange(n).reshape(SHAPE) + 1).astype(np.float32)


_TOMO: dict[int, np.ndarray] = {}


def tomo(imgid: int) -> np.ndarray:
    if imgid not in _TOMO:
        _TOMO[imgid] = tomogram(imgid)
    return _TOMO[imgid]


_POS2UID = {tuple(int(x) for x in pos_l(u)): u for u in range(0, 20)}


def decode(value: float) -> dict:
    v = int(round(float(value))) - 1
    img, lin = divmod(v, 100000)
    if lin < 0 or lin >= int(np.prod(SHAPE)) or abs(float(value) - round(float(value))) > 1e-3:
        return {"img": -1, "uid": -1}
    zyx = np.unravel_index(lin, SHAPE)
    return {"img": int(img), "uid": _POS2UID.get(tuple(int(x) for x in zyx), -1)}


def _molecules(tab: dict, kind: str):
    """Real Molecules for a spec table; batch tables carry 'img' as the 'image-id' feature."""
    from acryo import Molecules

    rows = tab["rows"]
    n = len(rows)
    pos = np.array([pos_l(r["uid"]) for r in rows], dtype=np.float32).reshape(n, 3)
    rot = Rotation.concatenate([tables.rots()[r["uid"] % 24] for r in rows]) if n else None
    cols = list(tab["cols"])
    series = []
    for c in cols:
        vals = [r["f"][c] for r in rows]
        if c == "img":
            series.append(pl.Series("image-id", [int(x) for x in vals], dtype=pl.Int64))
        else:
            series.append(tables._col_to_real(c, vals))
    feats = pl.DataFrame(series) if series else None
    return Molecules(pos, rot, features=feats)


def materialise(L: dict):
    from acryo import BatchLoader, SubtomogramLoader

    if L["kind"] == "single":
        return SubtomogramLoader(tomo(L["img"]), _molecules(L["tab"], "single"), order=1, scale=1.0, output_shape=BOX)
    # public API only: register each image with its rows, then put the rows in the spec's order
    b = BatchLoader(order=1, scale=1.0, output_shape=BOX)
    rows = L["tab"]["rows"]
    cols = [c for c in L["tab"]["cols"] if c != "img"]
    for m in L["imgs"]:
        sub = [r for r in rows if r["f"]["img"] == m]
        sub_tab = {"cols": cols, "rows": [{"uid": r["uid"], "f": {c: r["f"][c] for c in cols}} for r in sub]}
        b.add_tomogram(tomo(m), _molecules(sub_tab, "single"), image_id=m)
    if rows:
        want = _molecules(L["tab"], "batch")
        got = project_mol(b.molecules)
        if got["rows"] != rows or got["cols"] != L["tab"]["cols"]:
            b = b.replace(molecules=want)
    return b


def project_mol(mol, bin_: int = 1, scale0: float = 1.0) -> dict:
    n = len(mol)
    pos = np.asarray(mol.pos, dtype=np.float64) + (bin_ - 1) / 2 * scale0
    feats = mol.features
    cols_real = list(feats.columns)
    known = {"k", "v", "s", "w", "e", "image-id"}
    cols_real = [c for c in cols_real if c in known]
    cols = ["img" if c == "image-id" else c for c in cols_real]
    quat = mol.quaternion() if n else np.zeros((0, 4))
    rows = []
    R = tables.rots()
    for i in range(n):
        u = _POS2UID.get(tuple(int(round(x)) for x in pos[i]), -1)
        ok = u >= 0 and np.allclose(pos[i], pos_l(u), atol=1e-3)
        if ok:
            ok = (R[u % 24].inv() * Rotation.from_quat(quat[i])).magnitude() < 1e-3
        f = {}
        for c, cr in zip(cols, cols_real):
            x = feats[cr][i] if len(feats) == n else None
            f[c] = int(x) if c == "img" and x is not None else tables._val_to_spec(c, x)
        rows.append({"uid": u if ok else -1, "f": f})
    return {"cols": cols, "rows": rows}


def project(ldr) -> dict:
    """The loaders of the session start at scale 1.0, so the binning factor is the scale."""
    from acryo import SubtomogramLoader

    bin_ = int(round(ldr.scale))
    if isinstance(ldr, SubtomogramLoader):
        img = _which_image(ldr.image, bin_)
        return dict(kind="single", tab=project_mol(ldr.molecules, bin_), imgs=[img], img=img, bin=bin_)
    tab = project_mol(ldr.molecules, bin_)
    # abstraction function: an image id is local to a batch; the abstract state names a tomogram by its content (code)
    m = idmap(ldr, bin_)
    for r in tab["rows"]:
        if "img" in r["f"]:
            r["f"]["img"] = m.get(r["f"]["img"], -1)
    return dict(kind="batch", tab=tab, imgs=sorted(m.values()), img=-1, bin=bin_)


def idmap(ldr, bin_: int | None = None) -> dict:
    """image id of a batch loader -> code of the tomogram registered under it"""
    if bin_ is None:
        bin_ = int(round(ldr.scale))
    return {int(k): _which_image(img, bin_) for k, img in ldr.images.items()}


def id_of_code(ldr, code: int) -> int:
    if not hasattr(ldr, "images"):
        return code
    for k, c in idmap(ldr).items():
        if c == code:
            return k
    return code


def fresh2(ldr):
    """Two tomogram codes not yet in the loader (Loader.tla: Fresh2): programmes generated along the model's own path may name
    codes that a nondeterministic step (sample) of the real session has since made stale."""
    from acryo import SubtomogramLoader

    used = {_which_image(ldr.image, 1)} if isinstance(ldr, SubtomogramLoader) else set(idmap(ldr).values())
    out, n = [], len(used)
    while len(out) < 2:
        if n not in used:
            out.append(n)
        n += 1
    return out


def build_x(form: str, codes, T):
    """The other loader of add_loader / from_loaders, made of the spare molecules T (LdrOps: XTabs)."""
    from acryo import BatchLoader, SubtomogramLoader

    if form == "single":
        return SubtomogramLoader(tomo(codes[0]), T.copy(), order=1, scale=1.0, output_shape=BOX)
    x = BatchLoader(order=1, scale=1.0, output_shape=BOX)
    own = (7, 3, 9, 5)          # X's own ids: neither the codes nor in registration order
    for i in range(T.count()):
        x.add_tomogram(tomo(codes[i]), T.subset([i]), image_id=own[i])
    return x


def _which_image(image, bin_: int) -> int:
    v = float(np.asarray(image[0, 0, 0]))
    if bin_ != 1:
        # a binned voxel is the sum of bin^3 voxels code * 100000 + (index + 1), and the indices stay far below 100000
        return int(round(v) // (bin_**3 * 100000))
    return int((round(v) - 1) // 100000)


NOLDR = dict(kind="none", tab={"cols": [], "rows": []}, imgs=[], img=-1, bin=1)


# ----------------------------------------------------------------- observations


def _probe_cls():
    from acryo.alignment import BaseAlignmentModel

    class ProbeModel(BaseAlignmentModel):
        """Documented extension point: reveals which sub-volume each task received."""

        def pre_transform(self, image, backend):
            return image

        def _centre(self, sub):
            return float(np.asarray(sub)[tuple(s // 2 for s in sub.shape)])

        def _optimize(self, subvolume, template, max_shifts, quaternion, pos, backend):
            return np.zeros(3, np.float32), np.array([0, 0, 0, 1], np.float32), self._centre(subvolume)

        def _score(self, subvolume, template, quaternion, pos, backend):
            return self._centre(subvolume)

        def _landscape(self, subvolume, template, max_shifts, quaternion, pos, backend):
            return np.full((1, 1, 1), self._centre(subvolume), np.float32)

    return ProbeModel


def _kwarg_probe_cls():
    """Probe whose score reveals which per-molecule keyword arguments (pos, quaternion) the task received."""
    from acryo.alignment import BaseAlignmentModel

    R = tables.rots()

    class KwargProbe(BaseAlignmentModel):
        def pre_transform(self, image, backend):
            return image

        def _optimize(self, subvolume, template, max_shifts, quaternion, pos, backend):
            return np.zeros(3, np.float32), np.array([0, 0, 0, 1], np.float32), self._score(subvolume, template, quaternion, pos, backend)

        def _score(self, subvolume, template, quaternion, pos, backend):
            # uid recovered from the position (pixels) and, independently, from the orientation
            u_pos = _POS2UID.get(tuple(int(round(float(x))) for x in np.asarray(pos).ravel()), -1)
            q = Rotation.from_quat(np.asarray(quaternion, dtype=np.float64))
            u_rot = -1
            for u in range(0, 20):
                if (R[u % 24].inv() * q).magnitude() < 1e-3:
                    u_rot = u
                    break
            return float(u_pos if u_pos == u_rot else -1)

    return KwargProbe


def _centre_of(arr) -> float:
    a = np.asarray(arr)
    return float(a[tuple(s // 2 for s in a.shape)])


def centre_voxel(sub):  # module-level so that dask can pickle it if it wants
    return _centre_of(sub)


def observe(ldr, via: str):
    """Returns (obs list, result loader or None)."""
    templ = np.ones(BOX, np.float32)
    Probe = _probe_cls()
    res = None
    if via == "asnumpy":
        vals = [_centre_of(a) for a in ldr.asnumpy()]
    elif via == "load_each":
        vals = [_centre_of(ldr.load(i)) for i in range(ldr.count())]
    elif via == "load_iter":
        vals = [_centre_of(a) for a in ldr.load_iter()]
    elif via == "dask":
        vals = [_centre_of(a) for a in ldr.construct_dask().compute()]
    elif via == "align":
        res = ldr.align(templ, max_shifts=1.0, alignment_model=Probe)
        vals = res.molecules.features["score"].to_list()
    elif via in ("align_moved", "align_multi_moved"):
        # an alignment that MOVES every molecule (one pixel along z): the loader it was asked of stays where it is
        class Moving(Probe):
            def _optimize(self, subvolume, template, max_shifts, quaternion, pos, backend):
                return np.array([1.0, 0.0, 0.0], np.float32), np.array([0, 0, 0, 1], np.float32), self._centre(subvolume)

        if via == "align_moved":
            out = ldr.align(templ, max_shifts=1.0, alignment_model=Moving)
        else:
            out = ldr.align_multi_templates([templ, templ * 2], max_shifts=1.0, alignment_model=Moving)
        vals = out.molecules.features["score"].to_list()
        moved = np.asarray(out.molecules.pos, dtype=np.float64) - np.asarray(ldr.molecules.pos, dtype=np.float64)
        if len(vals) and not np.allclose(np.linalg.norm(moved, axis=1), float(ldr.scale), atol=1e-3):
            vals = [-5.0e6] * len(vals)          # the RESULT was not moved by one pixel per molecule (or the source moved with it)
    elif via == "score":
        vals = list(ldr.score([templ], alignment_model=Probe)[0])
    elif via == "apply":
        vals = ldr.apply(centre_voxel, schema=["c"])["c"].to_list()
    elif via == "landscape":
        arr = ldr.construct_landscape(templ, max_shifts=0.0, alignment_model=Probe).compute()
        vals = [float(a.ravel()[0]) for a in arr]
    elif via in ("kwargs_score", "kwargs_align"):
        # which (quaternion, pos) keyword arguments did task i receive?  (pairing of tasks with per-row arguments)
        KP = _kwarg_probe_cls()
        if via == "kwargs_score":
            us = [int(round(float(x))) for x in ldr.score([templ], alignment_model=KP)[0]]
        else:
            us = [int(round(float(x))) for x in ldr.align(templ, max_shifts=1.0, alignment_model=KP).molecules.features["score"].to_list()]
        imgs = [decode(_centre_of(a))["img"] for a in ldr.asnumpy()]
        return [{"img": m, "uid": u} for m, u in zip(imgs, us)], None, dict(codes=[], avg_n=0)
    elif via == "average":
        vals = [_centre_of(a) for a in ldr.asnumpy()]
        avg = _centre_of(ldr.average())
        return [decode(v) for v in vals], res, dict(codes=[int(round(v)) for v in vals], avg_n=int(round(avg * len(vals))) if abs(avg * len(vals) - round(avg * len(vals))) < 0.05 else -1)
    else:
        raise ValueError(via)
    return [decode(v) for v in vals], res, dict(codes=[], avg_n=0)


def _how_call(ldr, how: dict, seed: int):
    name = how["name"]
    if name == "head":
        return ldr.head(how["n"])
    if name == "tail":
        return ldr.tail(how["n"])
    if name == "filter":
        p = dict(how["pred"])
        if p["col"] == "img":
            import polars as pl

            return ldr.filter(pl.col("image-id") == id_of_code(ldr, p["c"]))
        return ldr.filter(tables._pred(p))
    if name == "sample":
        return ldr.sample(how["n"], seed=seed)
    if name == "sort":
        return ldr.replace(molecules=ldr.molecules.sort(how["col"], descending=bool(how["desc"])))
    if name == "subset_list":
        return ldr.replace(molecules=ldr.molecules.subset(list(how["idx"])))
    if name == "roundtrip":
        import os, tempfile
        from acryo import Molecules

        d = tempfile.mkdtemp(prefix="ldr-")
        path = os.path.join(d, "m.csv" if how["fmt"] == "csv" else "m.parquet")
        try:
            ldr.molecules.to_file(path)
            back = Molecules.from_file(path)
        finally:
            import shutil

            shutil.rmtree(d, ignore_errors=True)
        return ldr.replace(molecules=back)
    if name == "copy":
        return ldr.copy()
    if name == "binning":
        return ldr.binning(how["b"])
    raise ValueError(name)


def execute(op: dict, ldr, T, seed: int = 0):
    """Returns outcome fields (res loader or None, obs, groups, groups2, err, newL)."""
    name = op["name"]
    res = None
    obs, groups, groups2 = [], [], []
    err = ""
    res_bin = 1
    extra = dict(codes=[], avg_n=0)
    try:
        if name == "add_tomogram":
            ids_before = set(ldr.images.keys())
            newid = len(ids_before)
            # the new tomogram is NAMED BY ITS CONTENT in the projection: its code must differ from the content codes of the
            # tomograms already registered (which differ from the ids after add_loader / from_loaders), not only from the ids
            codes_before = {_which_image(im, 1) for im in ldr.images.values()}
            while newid in ids_before or newid in codes_before:
                newid += 1
            res = ldr.add_tomogram(tomo(newid), T)
        elif name in ("add_loader", "from_loaders"):
            from acryo import BatchLoader

            X = build_x(op["form"], op["codes"], T)
            x_before = project_mol(X.molecules)
            if name == "add_loader":
                res = ldr.add_loader(X)
            else:
                res = BatchLoader.from_loaders([ldr, X], order=1, scale=1.0, output_shape=BOX)
            obs = observe(res, "asnumpy")[0] if res.count() > 0 else []
            extra["operand_changed"] = project_mol(X.molecules) != x_before
        elif name == "fork":
            how = op["how"]
            res = (ldr.copy() if how == "copy" else ldr.replace(order=ldr.order) if how == "replace_order"
                   else ldr.binning(1) if how == "binning1" else ldr.reshape(shape=BOX))
        elif name == "derive":
            res = _how_call(ldr, op["how"], seed)
            res_bin = op["how"].get("b", 1) if op["how"]["name"] == "binning" else 1
        elif name == "observe":
            obs, res, extra = observe(ldr, op["via"])
        elif name == "groupby":
            col = "image-id" if op["col"] == "img" else op["col"]
            grp = ldr.groupby(col)
            gop = op["gop"]
            if gop["name"] == "align":
                grp = grp.align(np.ones(BOX, np.float32), max_shifts=1.0, alignment_model=_probe_cls())
            elif gop["name"] == "filter":
                grp = grp.filter(tables._pred(gop["pred"]))
            elif gop["name"] == "head":
                grp = grp.head(gop["n"])
            elif gop["name"] == "tail":
                grp = grp.tail(gop["n"])
            elif gop["name"] == "sample":
                grp = grp.sample(gop["n"], seed=seed)
            elif gop["name"] in ("sample_noseed", "sample_noseed_align"):
                grp = grp.sample(gop["n"])          # seed=None: the derived group must still be ONE fixed selection
                if gop["name"] == "sample_noseed_align":
                    grp = grp.align(np.ones(BOX, np.float32), max_shifts=1.0, alignment_model=_probe_cls())
            applied = None
            if gop["name"] == "apply":
                def centre(x):
                    return float(np.asarray(x)[1, 1, 1])

                def centre_far(x):
                    return float(np.asarray(x)[1, 1, 1]) + 5.0e6

                applied = grp.apply([centre, centre_far])
            ids = idmap(ldr) if op["col"] == "img" else {}
            for store in (groups, groups2):
                for key, sub in grp:
                    k = ids.get(int(key), int(key)) if op["col"] == "img" else tables._val_to_spec(op["col"], key)
                    if applied is not None:
                        fr = applied[key]
                        o = [decode(v) for v in fr["centre"].to_list()]
                        if len(fr) == len(o) and not np.allclose(fr["centre_far"].to_numpy() - fr["centre"].to_numpy(), 5.0e6):
                            o = [dict(img=-3, uid=-3)] * len(o)          # the second function's column does not belong to these rows
                    elif gop["name"] in ("align", "sample_noseed_align"):
                        o = [decode(v) for v in sub.molecules.features["score"].to_list()]
                    else:
                        o = observe(sub, "asnumpy")[0] if sub.count() > 0 else []
                    store.append({"key": k, "ldr": project(sub), "obs": o})
        else:
            raise ValueError(name)
    except Exception as e:  # observation
        err = type(e).__name__ + ": " + str(e)[:120]
        res, obs, groups, groups2 = None, [], [], []
    return res, obs, groups, groups2, err, extra
