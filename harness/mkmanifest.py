#!/usr/bin/env python3
"""Regenerate MANIFEST.json from the table below (run: python3 harness/mkmanifest.py)."""
import json
import subprocess
from pathlib import Path

VERIF = Path(__file__).resolve().parent.parent
ALL = [f"C{i:02d}" for i in range(1, 21)]

TRUSTED = (
    "TLC 1.8 (explicit-state model checker), the TLA+ specification under spec/ as the statement of "
    "the property, the lattice materialiser harness/lattice.py (construction only), numpy/scipy only as "
    "containers for data handed to the code under test"
)

# property -> (level, text, technique, note, design_ref)
CHECKS = {
    "C06": (
        "model_checking",
        "TLC explores every reachable state of the candidate-search machine of spec/AlignCand.tla (candidate "
        "generation loops, arg-max, decoding) for all T<=3 templates x K<=4 rotations x planted (j,k) x shift x "
        "driver x model, proving the decode is a bijection and the planted candidate is what is reported; every "
        "emitted configuration is then replayed through Model.align / loader.align / align_multi_templates / "
        "LoaderGroup.align_multi_templates on exact Rot24-permuted integer templates and compared with the "
        "state TLC reached. Index-decoding bugs are finite-combinatorial, so small-scope exhaustive exploration "
        "plus replay is the right level.",
        "TLA+ spec AlignCand.tla model-checked by TLC; emitted behaviours replayed into the real API (spec->code conformance)",
        TRUSTED + "; templates with a unique best candidate",
        "DESIGN.md 4/C06",
    ),
    "C12": (
        "model_checking",
        "spec/Molecules.tla + TblOps.tla state every public table operation as a relation (generator Outcomes / "
        "acceptor Accepts, proved equivalent on all reachable states by the TLC invariant GenSound); TblMachine.tla "
        "is the two-table session machine whose invariants RowsIntact, LengthsAgree, GroupsPartition and Selection TLC "
        "checks on every reachable state for all initial tables of 0..3 rows and every operation sequence up to the "
        "bound. Conformance: every (state, operation) pair TLC explores and several hundred TLC-simulated 6-step "
        "behaviours are executed on real Molecules objects, each call is recorded (pre-state, operation, outcome incl. "
        "operand mutation and errors) and the trace is judged by TLC against TblOps!Accepts (Trace_Tbl.tla). Histories "
        "are unbounded, so bounded exhaustive exploration of the model plus trace validation of real executions is the "
        "strongest level available.",
        "TLA+ spec (Molecules/TblOps/TblMachine) model-checked by TLC; TLC-generated programs run on the real code; recorded traces validated by TLC (Trace_Tbl.tla)",
        TRUSTED + "; uid<->(position, orientation) encoding of harness/tables.py; exception types are not compared",
        "DESIGN.md 4/C12",
    ),
    "C03": (
        "model_checking",
        "spec/Loader.tla + LdrOps.tla model loaders as bookkeeping objects (rows with uid and image id, image "
        "registry, binning) and every public operation as a relation; LdrMachine.tla is the session machine whose "
        "invariants RowAligned, ImagesConsistent, GroupsPartition (and the exact characterisation of the historical "
        "task-order defect) TLC checks on every reachable state for all initial loaders and operation sequences up to "
        "the bound. Conformance: every (loader state, operation) pair TLC explores at depth 1, all depth-2 pairs whose "
        "state has interleaved image ids, and several hundred TLC-simulated 6-step behaviours are executed on real "
        "SubtomogramLoader/BatchLoader/LoaderGroup objects over identity-encoding tomograms; each call (registration, "
        "derivation, grouping iterated twice, observation through asnumpy/load/load_iter/dask/align/score/apply/"
        "landscape with a probe model) is recorded and judged by TLC against LdrOps!Accepts (Trace_Ldr.tla).",
        "TLA+ spec (Loader/LdrOps/LdrMachine) model-checked by TLC; TLC-generated programs run on real loaders; recorded traces validated by TLC (Trace_Ldr.tla)",
        TRUSTED + "; identity-encoding tomograms and the probe alignment model of harness/loaders.py",
        "DESIGN.md 4/C03",
    ),
    "C02": (
        "model_checking",
        "spec/Sampling.tla states the sampling rule sub[k] = tomo(p/scale + R(k-(shape-1)/2)) in exact doubled-integer "
        "arithmetic together with the loader's crop-window and slice/pad arithmetic; TLC checks the window lemmas "
        "(window covers every sample the interpolant reads; empty intersection raises; the historical defect differs only "
        "for abutting windows) for every position/box/order on one axis, the block law and the inscribed-ball law on all "
        "3-D cases, and emits the exact source of every voxel for each case; every case is loaded through the real loader "
        "from an identity-encoding tomogram (all 24 orientations, odd/even/non-cubic boxes, every face/edge/corner "
        "straddle, orders 0/1/3, corner_safe, numpy/dask, four entry points) and compared voxel by voxel.",
        "TLA+ spec Sampling.tla/SamplingMC.tla model-checked by TLC; emitted per-voxel expectations replayed against the real loader",
        TRUSTED + "; off-grid values for order 0/3 are only required to be finite",
        "DESIGN.md 4/C02",
    ),
    "C15": (
        "model_checking",
        "spec/Binning.tla states block summation with dropped remainder, scale' = b*scale, pos' = pos-(b-1)/2*scale and "
        "derives the BinIdentity (binned sub-volume = block sum of the b-times larger original sub-volume) as an axis-wise "
        "algebraic identity that TLC checks on every case; for each case (image shapes divisible or not, b=1..6, odd/even/"
        "non-cubic boxes, positions on the binned grid incl. over the edge, single/batch, numpy/dask, compute flag) TLC "
        "emits the exact block of original voxels every binned voxel must sum; the real binning() result is compared "
        "voxel by voxel on integer tomograms, together with scale, position update, image shape and parent immutability.",
        "TLA+ spec Binning.tla model-checked by TLC; emitted block expectations replayed against real loaders",
        TRUSTED,
        "DESIGN.md 4/C15",
    ),
    "C09": (
        "model_checking",
        "spec/Averaging.tla defines Average and the permitted half-map splits over weighted one-hot sub-volumes in exact "
        "rational arithmetic; TLC proves the split law n*avg = |H0|*h0 + |H1|*h1 over ALL bipartitions for molecule counts "
        "1..6 and that the acceptor admits exactly the permitted splits, and enumerates loader kinds (single/batch/mock/"
        "group), coinciding markers, chunkings, n_set and seeds. Every case is run on real loaders; average, average_split "
        "(twice, for reproducibility), grouped average and grouped split are recorded as sparse rational images and judged "
        "by TLC (Trace_Avg.tla): mean, disjointness, exhaustiveness, non-emptiness, reproducibility.",
        "TLA+ spec Averaging.tla/AvgOps.tla model-checked by TLC; events recorded on real loaders validated by TLC (Trace_Avg.tla)",
        TRUSTED + "; sub-volumes are weighted one-hot vectors by construction (verified on every real load)",
        "DESIGN.md 4/C09",
    ),
    "C13": (
        "model_checking",
        "spec/Serial.tla states suffix dispatch, the column layout z,y,x,zvec,yvec,xvec+features, exact round trip for "
        "Parquet/data frames and decimal rounding for CSV as an acceptor over integer micro-units (orientation as a "
        "geodesic angle bound); MC_C13.tla checks the acceptor's laws and enumerates rows 1..4 x position lattices x "
        "orientation classes (all 180-degree turns, near pi, near zero, rational, random) x feature dtypes incl. nulls, "
        "strings, booleans x precisions x suffixes x entry points. Every case is written and read back with the real API "
        "and the recorded event (file magic, header, rows before/after) is judged by TLC (Trace_Serial.tla).",
        "TLA+ spec Serial.tla model-checked by TLC; round trips recorded on the real API validated by TLC (Trace_Serial.tla)",
        TRUSTED + "; strings compared by checksum, angles measured by scipy",
        "DESIGN.md 4/C13",
    ),
    "C11": (
        "model_checking",
        "spec/Zyx.tla (exact rotations: the 24 signed permutation matrices and rational rotations from integer "
        "quaternions), Motion.tla (pose machine: world rotations compose on the left and fix positions, internal "
        "rotations/translations act in the molecule frame, copy flag) and PoseStatics.tla (axes, handedness, "
        "reconstruction from any two axes, local coordinates). TLC checks orthonormality, right-handedness, the left/right "
        "composition and frame laws on every reachable pose, and emits expected trajectories/observables; replay on real "
        "Molecules: every (pose, operation) pair, TLC-simulated 6-step programs compared after each step (returned pose, "
        "receiver pose, object identity), all 24+8 orientations x 3 axis pairs, all 576 ordered Rot24 pairs as mixed "
        "batches, representation and 24 Euler-sequence round trips, local coordinates, affine matrices.",
        "TLA+ spec Zyx/Motion/PoseStatics model-checked by TLC; emitted trajectories and observables replayed on real Molecules",
        TRUSTED + "; Euler/quaternion/rotvec/matrix round trips are relations between real calls",
        "DESIGN.md 4/C11",
    ),
    "C08": (
        "model_checking",
        "spec/Wedge.tla decides every Fourier bin by integer sign tests (FFT-ordered index / box length, rotated by the "
        "orientation, against the two tilt planes with rational tangents incl. +-90 degrees; classes keep/drop/boundary); "
        "TLC checks on EVERY shape in [1..N]^3 x 24+6 orientations x tilt pairs x axis that the zero frequency is kept, that "
        "the mask is symmetric under k -> -k off the Nyquist bins, and the lemma that the historical index grid is wrong "
        "exactly for odd lengths, and emits the expected mask; all real entry points (tilt models, backend helper, utility "
        "function, alignment-model tilt given as tuple / model object / legacy keyword, mask application to a spectrum, "
        "dual-axis union, no wedge) are compared bin by bin and tested for symmetry.",
        "TLA+ spec Wedge.tla model-checked by TLC; emitted exact masks replayed against every real entry point",
        TRUSTED + "; bins exactly on a plane may take either value",
        "DESIGN.md 4/C08",
    ),
    "C16": (
        "model_checking",
        "spec/Filter.tla gives the Butterworth gain of every FFT bin as an exact rational, the identity cases "
        "(c <= 0, c >= sqrt(3)/2), and the output-shape law of the half-spectrum round trip; TLC checks W(0)=1, W(k)=W(-k) "
        "and the irfftn shape lemma on every shape in [1..5]^3 x 9 cutoffs x orders 1..3 and emits the gains; the gains "
        "of _utils.lowpass_filter(_ft), Backend.lowpass_filter(_ft), pipe.lowpass_filter and Model.pre_transform are read "
        "off an integer image and compared bin by bin, with output shape, realness, mean and linearity.",
        "TLA+ spec Filter.tla model-checked by TLC; emitted exact gains replayed against the four real implementations",
        TRUSTED + "; gains compared at 2e-4 absolute",
        "DESIGN.md 4/C16",
    ),
    "C17": (
        "model_checking",
        "spec/Fsc.tla labels every Fourier bin with its shell by exact integer comparison and computes per-shell "
        "Re sum F1 conj F2, sum|F1|^2, sum|F2|^2 on exact Gaussian-integer DFTs (box lengths 1,2,4); TLC checks symmetry in "
        "the inputs, self-correlation = power, gain covariance and Parseval on the exact values for every case and emits the "
        "per-shell numbers (and the shell occupancy of 22 further shapes up to 6^3); the real function is compared shell by "
        "shell, with boundedness/symmetry/gain-invariance/self=1 relations on its outputs, and loader/group FSC is checked "
        "through the relations the property states (FSC of the two C09 half-averages after the mask, reproducible per seed).",
        "TLA+ spec Fsc.tla (exact DFT over Gaussian integers) model-checked by TLC; emitted per-shell values replayed against the real function; loader-level relations between real calls",
        TRUSTED + "; values on box lengths other than 1,2,4 are covered only through shell occupancy and relations",
        "DESIGN.md 4/C17",
    ),
    "C07": (
        "model_checking",
        "spec/Score.tla defines NCC and ZNCC as exact integer triples (num, da, db) with integer-weight masks and the ZNCC "
        "landscape as the score of the mean-padded window at each integer displacement; TLC checks Cauchy-Schwarz "
        "(|score| <= 1), self-score = 1 and landscape-centre = score on the exact values and emits images, masks, score and "
        "landscape triples; Model.score, Model.landscape and Model.align(0) are compared with them. The relations the "
        "property states between real outputs (bounds, gain/offset invariance, score = landscape centre = zero-range "
        "alignment score for ZNCC/FSC, landscape arg-max = reported shift for every model, loader.score / "
        "construct_landscape = model) are checked on float images over odd/even/non-cubic boxes, masks, cutoffs, tilt "
        "models and orientations.",
        "TLA+ spec Score.tla model-checked by TLC; exact score/landscape values replayed against the real models; stated relations checked between real calls",
        TRUSTED + "; with cutoff/tilt the Pearson value itself is not recomputed (no exact filtered DFT in TLC), only the relations",
        "DESIGN.md 4/C07",
    ),
    "C05": (
        "model_checking",
        "spec/AlignSearch.tla models where each model's translational search can end: the integer arg-max may be ANY cell "
        "of the cropped landscape and the refined arg-max ANY point of the clipped mesh (ZNCC/NCC/FSC) or PCC window, which "
        "is exactly 'for every sub-volume, including noise'; TLC proves InRange, NonEmpty (cannot run out of candidates), "
        "ZeroReachable and EdgeReachable for every limit on the 1/100-px lattice in [0, 3.3] px plus large ones. Conformance "
        "is trace validation: ~22k configurations enumerated by TLC (4 models x noise/zero/constant/unrelated/beyond-range "
        "data x zero/sub-pixel/off-grid/anisotropic/larger-than-box limits x boxes >= 4 x rotation search x model/loader/"
        "multi-template/group drivers, scalar/tuple/nm limits) are run with the recorder on and EVERY align return and "
        "write-back is judged by TLC (Trace_Align.tla: NoRaise, Finite, InRange, Decode, LabelOK, Displacement in the "
        "molecule frame, Orientation, Features); the thorough tier also validates the repository's own test-suite run "
        "under the recorder.",
        "TLA+ spec AlignSearch.tla model-checked by TLC; events recorded from real executions (own drivers and the repo's tests) validated by TLC (Trace_Align.tla)",
        TRUSTED + "; the recorder of harness/recorder.py wraps public methods from outside the repo; 1e-3 px fixed point",
        "DESIGN.md 4/C05",
    ),
    "C04": (
        "exploration",
        "The configuration space is enumerated by TLC from spec/MC_C04.tla (on top of AlignSearch.tla): displacement vectors "
        "over the CLOSED range box (all 8 corners, face points, interior quarter-pixel points) x isotropic/anisotropic/off-"
        "grid limits x even/odd/non-cubic boxes x ZNCC/NCC/PCC/FSC x mask x cutoff x tilt/orientation, and for every case "
        "the I layer gives the per-axis distance from the true displacement to the nearest shift the search can return "
        "(TruePeakReachable is a TLC invariant for ZNCC/NCC/FSC and, after the PCC repair, PccGapBounded for PCC). Each "
        "sampled case is replayed with an analytic template evaluated at k-d (a true displaced copy) and the returned "
        "shift/rotation/score compared with the property's own tolerances. Sub-pixel accuracy for arbitrary templates is "
        "a floating-point claim the specification cannot bound; hence 'exploration', systematically enumerated.",
        "case space enumerated and reachability decided by TLC on the TLA+ spec (AlignSearch/MC_C04); each case replayed on the real models",
        TRUSTED + "; analytic Gaussian-mixture templates; tolerances 0.1 / 0.5 px and score >= 0.9 from the property",
        "DESIGN.md 4/C04",
    ),
    "C01": (
        "model_checking",
        "spec/AlignPose.tla models Plant / Perturb / Align / WriteBack in exact arithmetic (Zyx.tla); TLC proves "
        "PoseRecovered and FeaturesDescribePose for every truth orientation (24 axis-aligned + rational), searched rotation, "
        "perturbation inside the search box, scale, loader kind, model and order, and characterises the historical write-back "
        "defect exactly (wrong iff the found rotation moves the shift). Every emitted case is replayed end to end on the real "
        "loaders (single, batch, grouped, template-free, multi-template) with a tomogram built by direct voxel placement, and "
        "output position, orientation and the shift/rotation/score features are compared with the expected state; the "
        "write-back algebra is also validated on every recorded _post_align call by TLC (Trace_Align.tla, in the C05 check, "
        "including the repository's own tests).",
        "TLA+ spec AlignPose.tla model-checked by TLC; emitted behaviours replayed end to end on real loaders; write-back traces validated by TLC",
        TRUSTED + "; smooth asymmetric templates on which Rot24 acts as an exact voxel permutation; tolerance 0.15 px / 0.05 deg",
        "DESIGN.md 4/C01",
    ),
    "C10": (
        "model_checking",
        "spec/Sched.tla models the atomic steps (dict lookup, iterator creation, next, insert / snapshot) of the template "
        "cache shared by concurrently running tasks; TLC explores EVERY interleaving for 2 and 3 worker threads under three "
        "keying modes and proves NoSpuriousError, ResultsAgree and CacheBounded for the repaired design, and produces the "
        "failing interleavings of the historical design, which are kept as regression schedules; spec/TaskOrder.tla enumerates "
        "every start/end order of the per-molecule tasks under W workers. Conformance: every emitted schedule is replayed "
        "deterministically on real threads calling model.align (the cache's dict operations are the yield points, CPython's "
        "own iterator check stays real), every task order is enforced on a real loader computation, and real schedulers "
        "(synchronous, 1-16 threads with a minimal switch interval), tomogram chunkings and numpy-vs-dask inputs are compared "
        "bit for bit with the synchronous run; declared vs computed shapes of lazily constructed arrays are compared.",
        "TLA+ specs Sched.tla/TaskOrder.tla model-checked by TLC; TLC-generated thread schedules and task orders replayed deterministically on the real objects",
        TRUSTED + "; yield points cover the template cache only; memoised helper grids and the default backend are reached through real threaded runs",
        "DESIGN.md 4/C10",
    ),
    "C14": (
        "model_checking",
        "spec/Simulator.tla places every template voxel in exact doubled-integer coordinates (template centre at the "
        "molecule position, clipping at the volume boundary) and characterises the historical even-axis half-pixel defect; "
        "TLC checks grid coincidence and the exactly-once paste law on every case and emits, per molecule, the exact list of "
        "(tomogram voxel, template voxel) contributions for odd/even/non-cubic templates, interior/straddling/outside poses, "
        "Rot24 orientations, one or two molecules in one or two components, orders 0/1/3 and three scales. Replay on "
        "TomogramSimulator: exact paste, additivity and order independence, clipping, load-back through SubtomogramLoader, and "
        "simulate_2d = z-projection.",
        "TLA+ spec Simulator.tla model-checked by TLC; emitted exact voxel contributions replayed against TomogramSimulator and the loader",
        TRUSTED + "; only grid-coincident poses carry an exact expectation",
        "DESIGN.md 4/C14",
    ),
    "C19": (
        "model_checking",
        "spec/Pipe.tla gives image pipelines a denotational semantics (Eval) over tiny rational images: @ is nested "
        "application, operators act voxel-wise for both operand orders and for scalars on either side, comparisons give "
        "0/1, base providers/converters carry a physical parameter multiplied by the scale; TLC enumerates EVERY expression "
        "up to depth 2 at three scales plus all associativity triples, checks associativity and the reflected-operator law "
        "on the denotation and emits each program's value; every program is rebuilt from real ImageProvider/ImageConverter "
        "objects created with provider_function/converter_function and evaluated. The nm->pixel radius rule and ball sizes "
        "come from TLC; unit covariance, the Gaussian provider, rescaling providers, extensivity/range of the mask "
        "converters and loader.normalize_input are checked as the relations the property states.",
        "TLA+ spec Pipe.tla (denotational Eval) model-checked by TLC; every enumerated program replayed on real pipeline objects",
        TRUSTED + "; a provider on the LEFT of a converter-level operator has no documented meaning and is not claimed",
        "DESIGN.md 4/C19",
    ),
    "C20": (
        "model_checking",
        "spec/Picker.tla models ownership of picks by chunk cores and the block-local -> global mapping; TLC proves, for "
        "every extent 6..24, depth 1..6, every partition into <= 3 chunks and every particle voxel, that each particle is "
        "reported exactly once at its true position, and characterises the historical duplication/displacement exactly; "
        "the emitted 3-D chunk families (incl. chunks smaller than the overlap depth) are replayed: images with planted "
        "blobs or planted Rot24-rotated templates are picked by LoGPicker, DoGPicker and ZNCCTemplateMatcher as numpy "
        "arrays and under every dask chunking, at several scales and dtypes, and the pick set (positions, rotations, no "
        "duplicates, no extra picks) must equal the planted set.",
        "TLA+ spec Picker.tla model-checked by TLC; emitted chunk families replayed on the real pickers against planted particle sets",
        TRUSTED + "; blob sizes and spacing above the pickers' exclusion distance",
        "DESIGN.md 4/C20",
    ),
    "C18": (
        "exploration",
        "spec/Pca.tla defines block-orthogonal integer designs whose centred SVD is explicit in integers (sigma_j^2 = |B_j| "
        "sum_i A_ij^2, components = block indicators, squared projections = A_ij^2 |B_j|); TLC checks zero mean, "
        "orthogonality, distinct singular values and that every row partition is a legal chunking, and enumerates designs x "
        "boxes (27, 40 and 729 voxels, i.e. both solver paths) x n_components (incl. truncation below the rank) x mask x row "
        "and voxel chunkings with their exact expectations; PcaClassifier is run on dask stacks with those chunkings and "
        "compared (singular values, |projections|, component supports, run-to-run). Full-rank noisy stacks are checked for "
        "chunking and run-to-run invariance only; loader.classify is checked to add exactly one integer label column in "
        "molecule order, change nothing else, and separate planted classes. 'Equal to an exact SVD for every data set' is a "
        "floating-point claim outside the technique, hence 'exploration'.",
        "exact low-rank family and chunkings enumerated by TLC on the TLA+ spec Pca.tla; each case replayed on PcaClassifier / loader.classify; invariance relations on noisy data",
        TRUSTED + "; no exact oracle for full-rank noisy data inside the technique",
        "DESIGN.md 4/C18",
    ),
}

# what was added to each check after the seeded-change rounds (DESIGN.md section 11.2); appended to the level text
ADDED = {
    "C01": "Later additions: loader.align with a template list / 4-D stack at scale != 1. Particles next to the low faces of the tomogram.",
    "C02": "Later additions: two-tomogram BatchLoaders of equal shape, float64 tomograms with a large constant level, and the call-history programmes of spec/Memo.tla on one loader whose molecules are moved in place between loads. Quarter-pixel positions (SamplingQ.tla: nearest voxel at order 0, trilinear mix at order 1, window lemma), loaders built by imread of an MRC file and by from_loaders.",
    "C03": "Later additions: a second live object (fork by copy/replace/binning(1)/reshape, swap) that no operation on the other may change, registries with gaps, keyword arguments reaching the per-molecule task, the group operations apply and seedless sample (+align), average and save/reload inside sessions. add_loader / from_loaders with another single or batch loader (tomograms named by content, ids local to a batch). Alignments that move every molecule (single and multi-template) leave the source loader where it is. head(0) / tail(0) derivations.",
    "C04": "Later additions: constant background, the known FSC finding pinned to its 19 configurations (always replayed), Memo.tla programmes on alignment model instances (sub-pixel mesh cache). Search ranges at and beyond the box size (always replayed), float64 / list argument forms. Model.fit (same result, image superimposed on the template), intensity scales 2^-10 / 2^8, a constant background of 100.",
    "C05": "Later additions: loader-level events (range in nm at the loader's scale) judged by Trace_Align. Template-free alignment (align_no_template of a loader and of a group) as drivers.",
    "C06": "Later additions: 264-candidate searches, per-group template lists of different lengths and in different order through one model factory (with_params). Masks that are not invariant under the searched rotations; the image passed to Model.align is unchanged and a second call agrees. spec/RotGrid.tla: the candidate list a (max, step) range request denotes (count, order, identity at the centre, exact quarter-turn matrices), replayed on Model(...).quaternions / with_params / list form, every candidate of every quarter-turn grid of <= 27 candidates planted and searched for; one-candidate sets as Rotation objects (stacked and single); masks computed from the templates by a function (callable / ImageConverter) with templates that differ by a small domain.",
    "C07": "Later additions: the score with a wedge is checked against the exact mask of Wedge.tla and with a cutoff against the exact gains of Filter.tla (TLC), Memo.tla programmes on model instances with a wedge and several orientations. Gains 2^-16 and 2^10 through score, landscape and alignment; loader.score with several templates and a converter mask.",
    "C08": "Later additions: UnionAxes with one member, equal members and a no-wedge member (UnionLaws), Memo.tla programmes on all five entry points.",
    "C09": "Later additions: automatic image ids on registries with gaps, loaded sub-volumes compared with the planted ones, Memo.tla programmes on a batch loader that grows in place. Half maps of fsc_with_halfmaps under a mask are the plain half means; groups derived from groups average again. Batches whose explicit image ids are registered in descending order with different molecule counts.",
    "C10": "Later additions: molecules in mutually inverse orientation pairs, a one-molecule-at-a-time reference for tilt alignment and score. Declared landscape shapes for FSC and PCC up to beyond half the box; MockLoader noise under threaded schedulers with legacy numpy.random calls as switch points (TaskStream.tla: private streams hold, a shared re-seeded stream is rejected). The FSC model under the schedulers, a binned loader per chunking. Molecule tables whose order relative to the positions is a 3-cycle and a 2-cycle, per chunking.",
    "C11": "Later additions: every object of a session is observed through every accessor (rotator, matrix, quaternion, rotation vector, axes) at every step; unnormalised axes in from_axes. World rotations given as Euler angles (both axis conventions, degrees / radians).",
    "C12": "Later additions: query / in-place append / query programmes (Sandwich), a table without feature columns, slices with a step, a second pass over group_by / cutby after in-place edits of the first pass, the repository's own tests under a table recorder (thorough). Fortran-ordered positions, 6-row tables, every new object moved in place and back with all other objects watched.",
    "C13": "Later additions: feature order, Float64 values beyond float32, upper-case suffixes, Fortran-ordered positions, NaN and marker-like strings as data. Look-then-rotate-in-place history before saving; a double-precision feature at csv precisions 8 and 9.",
    "C14": "Later additions: 2-D projection independent of the height of the molecules, low-z molecules. Settings through replace() on a filled simulator, nearest-neighbour paste off the grid, components without molecules. Volumes thinner than the template along one axis (the template overhangs both faces).",
    "C15": "Later additions: batches mixing numpy and dask tomograms, every binned image compared with the block sum of its own original. Corner-safe loaders with elongated boxes under quarter turns; int16 / int8 tomograms whose block sums leave the type's range. Parent or sibling used before binning; the parent re-loaded afterwards.",
    "C16": "Later additions: Memo.tla (sound design accepted, both hazard designs rejected by TLC) and its call programmes on the four low-pass entry points. int16 / uint8 / float64 images.",
    "C17": "Later additions: fsc_with_halfmaps over weighted one-hot sub-volumes judged by the Averaging acceptor (disjoint halves), Memo.tla programmes on the FSC landscape. FSC as an alignment score (FSCAlignment score / landscape / align): symmetric, gain invariant, bounded, 1 for identical inputs with and without a tilt model, equal to the mean shell value. Boxes up to 24^3 with shell widths off any decimal grid against the formula in double precision; group halves as disjoint plain means. Gain invariance of the shell values for gains of 2^22, 2^40 and 2^-40.",
    "C18": "Later additions: soft masks (per-block weights in Pca.tla), voxel-chunked full-rank stacks with components past the spectral gap. classify with a tilt range and molecules in mixed orientations: singular values equal the exact SVD of the wedge-masked differences. Very unequal group sizes over 12 classifier seeds; transform / predict on numpy stacks with a soft mask, twice.",
    "C19": "Later additions: exact per-axis geometry of from_gaussian for non-integral shape/scale quotients, from_atoms against an exact quarter-pixel histogram. normalize_template / normalize_mask, array parameters at scale 0.5, from_arrays against from_array. The rescale decision of the rescaling providers (Pipe.tla KeepAsIs: relative tolerance, same for (lam o, lam s)) through from_array / from_arrays / from_file / from_files; arithmetic on the result of a comparison (1 - (a == b)).",
    "C20": "Later additions: chunks smaller than the overlap depth (dask merges; LegalMerges), particle pairs inside the cube but outside the ball of the exclusion distance, one matcher built from an ImageProvider used at several scales. Even-sized templates (picks on half pixels): half-open ownership, landscape edge outside the keep-window (TLC), chunk boundaries 1.5 / 0.5 px around particle centres with and without rotation search. A two-lobed template (side maxima within the exclusion distance; known finding pinned to 14 chunkings), float64 images.",
}

REASON_TODO = "check not built yet in this round (planned: see DESIGN.md section 4)"


def main():
    checks = []
    for pid in ALL:
        if pid not in CHECKS:
            continue
        level, text, technique, note, ref = CHECKS[pid]
        if pid in ADDED:
            text = text + " " + ADDED[pid]
        checks.append(
            dict(
                property_id=pid,
                quick_cmd=f"bin/check {pid} --tier quick",
                thorough_cmd=f"bin/check {pid} --tier thorough",
                evidence_file=f"evidence/{pid}.json",
                replay_cmd_template=f"bin/check {pid} --replay {{path}}",
                engine="tlc+replay",
                level_claimed=dict(category=level, text=text, design_ref=ref),
                level_note=note,
                technique=technique,
            )
        )
    hooks_commits = []
    hf = VERIF / "harness" / "hook_commits.txt"
    if hf.exists():
        hooks_commits = [l.split()[0] for l in hf.read_text().splitlines() if l.strip()]
    man = dict(
        version=1,
        setup_cmd="bin/setup",
        hooks=dict(
            guard="ACRYO_VERIF",
            enable="acryo is an editable install of /repo; checks set ACRYO_VERIF=1 in the driver environment "
            "(recording is done by wrappers installed from /verif/harness, see DESIGN.md 3.5)",
            baseline_off_cmd="cd /repo && env -u ACRYO_VERIF /venv/bin/python -m pytest -ra -q -p no:cacheprovider "
            "--timeout=900 --continue-on-collection-errors",
            source_commits=hooks_commits,
            add_only=True,
        ),
        engines=[
            dict(
                name="tlc+replay",
                path="harness/engine.py",
                serves_properties=sorted(CHECKS),
                kind_free_text="TLC model checking of spec/*.tla, JSON emission of explored states, replay into "
                "/repo's public API in worker processes, trace validation of recorded events by TLC",
            )
        ],
        checks=checks,
        notes="Model-based verification with an explicit TLA+ specification (spec/). See DESIGN.md.",
        not_applicable=[dict(property_id=p, reason=REASON_TODO) for p in ALL if p not in CHECKS],
    )
    (VERIF / "MANIFEST.json").write_text(json.dumps(man, indent=1) + "\n")
    print(f"MANIFEST.json: {len(checks)} checks, {len(man['not_applicable'])} not_applicable")


if __name__ == "__main__":
    main()
