#!/usr/bin/env python3
"""Validate MANIFEST.json / evidence files against the schemas (python3-vt has jsonschema)."""
import json
import sys
from pathlib import Path

import jsonschema

VERIF = Path(__file__).resolve().parent.parent
VP = Path("/root/.vp")


def main():
    what = sys.argv[1] if len(sys.argv) > 1 else "all"
    ok = True
    if what in ("manifest", "all"):
        schema = json.loads((VP / "MANIFEST.schema.json").read_text()) if (VP / "MANIFEST.schema.json").exists() else None
        man = json.loads((VERIF / "MANIFEST.json").read_text())
        if schema:
            try:
                jsonschema.validate(man, schema)
                print("MANIFEST.json valid")
            except jsonschema.ValidationError as e:
                print("MANIFEST.json INVALID:", e.message)
                ok = False
        props = [json.loads(l)["id"] for l in (VERIF / "properties.jsonl").read_text().splitlines() if l.strip()]
        claimed = {c["property_id"] for c in man["checks"]}
        na = {c["property_id"] for c in man.get("not_applicable", [])}
        if set(props) != claimed | na or claimed & na:
            print("MANIFEST.json: every property must be either claimed or not_applicable", sorted(set(props) - claimed - na), sorted(claimed & na))
            ok = False
    if what in ("evidence", "all"):
        schema = json.loads((VP / "EVIDENCE.schema.json").read_text()) if (VP / "EVIDENCE.schema.json").exists() else None
        for f in sorted((VERIF / "evidence").glob("*.json")):
            ev = json.loads(f.read_text())
            if schema:
                try:
                    jsonschema.validate(ev, schema)
                    print(f.name, "valid")
                except jsonschema.ValidationError as e:
                    print(f.name, "INVALID:", e.message)
                    ok = False
    sys.exit(0 if ok else 1)


main()
