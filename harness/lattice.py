"""Materialise lattice objects named by the specification as real numpy / acryo objects.

Only construction and projection live here: no expectations are computed in Python.
"""
from __future__ import annotations

import numpy as np
from scipy.spatial.transform import Rotation


def rot_from_spec(r) -> Rotation:
    """r is a spec rotation record {m: 3x3 ints, d: int} (or a bare 3x3 matrix), acting on z,y,x."""
    if isinstance(r, dict):
        m = np.array(r["m"], dtype=np.float64) / float(r["d"])
    else:
        m = np.array(r, dtype=np.float64)
    return Rotation.from_matrix(m)


def mat_from_spec(r) -> np.ndarray:
    if isinstance(r, dict):
        return np.array(r["m"], dtype=np.float64) / float(r["d"])
    return np.array(r, dtype=np.float64)


def geodesic_deg(a: Rotation, b: Rotation) -> float:
    return float(np.rad2deg((a.inv() * b).magnitude()))


def asym_template(tid: int, box: int = 9, core: int = 5, vmax: int = 4) -> np.ndarray:
    """Deterministic integer template with no Rot24 symmetry: random ints in a centred core."""
    rng = np.random.default_rng(1000 + tid)
    img = np.zeros((box,) * 3, dtype=np.float32)
    lo = (box - core) // 2
    while True:
        blk = rng.integers(0, vmax + 1, size=(core,) * 3).astype(np.float32)
        # a bright off-centre marker breaks any accidental symmetry
        blk[0, 1, 2] = vmax + 3 + tid
        if not _has_rot24_symmetry(blk):
            break
    img[lo : lo + core, lo : lo + core, lo : lo + core] = blk
    return img


def _has_rot24_symmetry(blk: np.ndarray) -> bool:
    for m in all_rot24():
        if np.array_equal(m, np.eye(3, dtype=int)):
            continue
        if np.array_equal(apply_rot24(blk, m, (0, 0, 0)), blk):
            return True
    return False


def all_rot24() -> list[np.ndarray]:
    import itertools

    out = []
    for p in itertools.permutations(range(3)):
        for s in itertools.product((-1, 1), repeat=3):
            m = np.zeros((3, 3), dtype=int)
            for i in range(3):
                m[i, p[i]] = s[i]
            if round(np.linalg.det(m)) == 1:
                out.append(m)
    return out


def apply_rot24(img: np.ndarray, m, shift, fill: float = 0.0) -> np.ndarray:
    """Exact voxel permutation: out[c + m u + s] = img[c + u]   (odd cubic boxes, integer s).

    This is the data-side construction 'template feature u shown at c + q u + s'."""
    m = np.asarray(m).round().astype(int)
    n = img.shape[0]
    assert img.shape == (n, n, n) and n % 2 == 1
    c = (n - 1) // 2
    out = np.full_like(img, fill)
    idx = np.indices(img.shape).reshape(3, -1) - c  # u
    dst = m @ idx + np.asarray(shift, dtype=int)[:, None] + c
    ok = np.all((dst >= 0) & (dst < n), axis=0)
    out[tuple(dst[:, ok])] = img[tuple(idx[:, ok] + c)]
    return out


def paste(tomo: np.ndarray, sub: np.ndarray, centre) -> None:
    """Paste an odd cubic sub-volume with its centre voxel at integer tomogram voxel `centre`."""
    n = sub.shape[0]
    h = (n - 1) // 2
    sl = tuple(slice(int(c) - h, int(c) - h + n) for c in centre)
    tomo[sl] += sub
