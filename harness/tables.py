"""Materialise / project Molecules tables of spec/Molecules.tla and execute table operations.

uid <-> (position, orientation): uid u lives at position (u, 2u + 0.25, -u) with the u-th
Rot24 orientation; a row whose position and orientation disagree is projected to uid -1,
which no specification outcome contains.  Feature encoding: k, w, e integers; v nullable
float (spec value + 0.5); s nullable string (1 -> "a", 2 -> "b"); Null = -99.
"""
from __future__ import annotations

import numpy as np
import polars as pl
from scipy.spatial.transform import Rotation

from harness.lattice import all_rot24

NULL = -99
_ROTS = None


def rots():
    global _ROTS
    if _ROTS is None:
        _ROTS = [Rotation.from_matrix(m.astype(float)) for m in all_rot24()]
    return _ROTS


def pos_of(uid: int):
    return (float(uid), 2.0 * uid + 0.25, -float(uid))


def _col_to_real(col: str, vals: list[int]) -> pl.Series:
    if col == "v":
        return pl.Series(col, [None if x == NULL else x + 0.5 for x in vals], dtype=pl.Float64)
    if col == "s":
        return pl.Series(col, [None if x == NULL else {1: "a", 2: "b"}[x] for x in vals], dtype=pl.Utf8)
    return pl.Series(col, [None if x == NULL else int(x) for x in vals], dtype=pl.Int64)


def _val_to_spec(col: str, x):
    if x is None:
        return NULL
    if isinstance(x, float) and np.isnan(x):
        return NULL
    if col == "v":
        return int(round(float(x) - 0.5))
    if col == "s":
        return {"a": 1, "b": 2}.get(x, -1)
    return int(x)


def materialise(tab: dict, extra_img: bool = False):
    from acryo import Molecules

    rows = tab["rows"]
    n = len(rows)
    pos = np.array([pos_of(r["uid"]) for r in rows], dtype=np.float32).reshape(n, 3)
    if n >= 2 and (sum(r["uid"] for r in rows) + n) % 2 == 1:
        pos = np.asfortranarray(pos)       # e.g. np.array([zs, ys, xs]).T: the memory layout of the caller's array is not part of a table
    if n:
        rot = Rotation.concatenate([rots()[r["uid"] % 24] for r in rows])
    else:
        rot = None
    cols = list(tab["cols"])
    feats = None
    if cols:
        feats = pl.DataFrame([_col_to_real(c, [r["f"][c] for r in rows]) for c in cols])
    return Molecules(pos, rot, features=feats)


def project(mol) -> dict:
    n = len(mol)
    pos = np.asarray(mol.pos, dtype=np.float64)
    feats = mol.features
    cols = list(feats.columns)
    rows = []
    R = rots()
    quat = mol.quaternion() if n else np.zeros((0, 4))
    for i in range(n):
        u = int(round(pos[i, 0]))
        ok = u >= 0 and np.allclose(pos[i], pos_of(u), atol=1e-3)
        if ok:
            ang = (R[u % 24].inv() * Rotation.from_quat(quat[i])).magnitude()
            ok = ang < 1e-3
        uid = u if ok else -1
        f = {c: _val_to_spec(c, feats[c][i]) for c in cols} if len(feats) == n else {c: -1 for c in cols}
        rows.append({"uid": uid, "f": f if cols else []})      # a table without feature columns: f is the empty function <<>>
    if cols and len(feats) != n:
        # feature rows out of step with positions: make it visible
        rows = [{"uid": -1, "f": r["f"]} for r in rows]
    return {"cols": cols, "rows": rows}


NOTAB = {"cols": [], "rows": []}


class GroupList(list):
    """Groups of the first pass; `.second` holds the groups of a second pass over the same grouping object."""

    second: list | None = None


def _pred(p):
    c = pl.col(p["col"])
    ref = p["c"]
    if p["col"] == "v":
        ref = ref + 0.5
    if p["col"] == "s":
        ref = {1: "a", 2: "b"}.get(ref, "?")
    if p["op"] == "ge":
        return c >= ref
    if p["op"] == "eq":
        return c == ref
    if p["op"] == "notnull":
        return c.is_not_null()
    if p["op"] == "isnull":
        return c.is_null()
    raise ValueError(p)


def execute(op: dict, A, B):
    """Perform op on real Molecules A (receiver) and B. Returns (res|None, err, groups, newA)."""
    from acryo import Molecules

    name = op["name"]
    groups = GroupList()
    res = None
    err = ""
    try:
        if name == "head":
            res = A.head(op["n"])
        elif name == "tail":
            res = A.tail(op["n"])
        elif name == "filter":
            res = A.filter(_pred(op["pred"]))
        elif name == "subset_int":
            res = A.subset(int(op["i"]))
        elif name == "subset_slice":
            res = A.subset(slice(op["a"], op["b"], op.get("step", 1)))
        elif name == "peek":
            q = op["q"]
            res = A.head(q["n"]) if q["name"] == "head" else A.tail(q["n"]) if q["name"] == "tail" else A.filter(_pred(q["pred"]))
        elif name == "subset_list":
            res = A.subset(list(op["idx"]))
        elif name == "subset_mask":
            res = A.subset(np.array(op["mask"], dtype=bool))
        elif name == "sort":
            res = A.sort(op["col"], descending=bool(op["desc"]))
        elif name == "sample":
            res = A.sample(op["n"], seed=op.get("seed", 0))
        elif name == "concat_with":
            res = A.concat_with(B)
        elif name == "concat":
            res = Molecules.concat([A, B])
        elif name == "append_extra":
            res = A.append(materialise({"cols": ["k"], "rows": [{"uid": 14, "f": {"k": 2}}, {"uid": 15, "f": {"k": 0}}]}))
        elif name == "append":
            res = A.append(B)
        elif name == "with_feature":
            res = A.with_features((pl.col(op["src"]) + op["delta"]).alias(op["new"]))
        elif name == "drop_feature":
            res = A.drop_features(op["col"])
        elif name == "group_by":
            real = []
            grp = A.group_by(op["col"])
            for key, mol in grp:
                groups.append({"key": _val_to_spec(op["col"], key), "tab": project(mol)})
                real.append(mol)
            res = Molecules.concat(real) if real else A.subset(slice(0, 0))
            # the caller edits the groups it was handed IN PLACE, then walks over the same grouping again: the second pass must
            # still deliver the rows of the receiver
            for mol in real:
                mol.translate([500.0, 0.0, 0.0], copy=False)
            groups.second = [{"key": _val_to_spec(op["col"], key), "tab": project(mol)} for key, mol in grp]
        elif name == "cutby":
            bins = [b + 0.5 if op["col"] == "v" else float(b) for b in op["bins"]]
            real = []
            cut = A.cutby(op["col"], bins)

            def binof(edges):
                return next((i + 1 for i in range(len(bins) - 1) if abs(bins[i] - edges.gt) < 1e-6 and abs(bins[i + 1] - edges.le) < 1e-6), -1)

            for edges, mol in cut:
                groups.append({"bin": binof(edges), "tab": project(mol)})
                real.append(mol)
            res = Molecules.concat(real) if real else A.subset(slice(0, 0))
            for mol in real:
                mol.translate([500.0, 0.0, 0.0], copy=False)
            groups.second = [{"bin": binof(edges), "tab": project(mol)} for edges, mol in cut]
        elif name == "reject":
            _reject_probe(op["kind"], A, B)
        else:
            raise ValueError(name)
    except Exception as e:  # observation, not a crash
        err = type(e).__name__
        res = None
        groups = GroupList()
    return res, err, groups


def _reject_probe(kind: str, A, B):
    """Feed an inconsistent input; a consistent library raises somewhere in here."""
    from acryo import Molecules

    n = max(len(A), 1)
    pos = np.arange(3 * n, dtype=np.float32).reshape(n, 3)
    rot = Rotation.concatenate([rots()[i % 24] for i in range(n)])
    if kind == "len_mismatch_features":
        Molecules(pos, rot, features={"k": list(range(n + 1))})
    elif kind == "len_mismatch_rot":
        Molecules(pos, Rotation.concatenate([rots()[i % 24] for i in range(n + 1)]))
    elif kind == "feature_named_z":
        m = Molecules(pos, rot, features={"z": list(range(n)), "k": list(range(n))})
        m.filter(pl.col("k") >= 0)  # first operation that needs the merged frame
    elif kind == "append_extra_column":
        a = Molecules(pos, rot, features={"k": list(range(n))})
        b = Molecules(pos, rot, features={"k": list(range(n)), "extra": list(range(n))})
        a.append(b)
    elif kind == "pos_not_3":
        Molecules(np.zeros((n, 2), dtype=np.float32), None)
    else:
        raise ValueError(kind)
