"""Engine shared by all property checks.

 * run TLC (exhaustive / emit / simulate / trace modes) and parse its output
 * fan emitted cases out to worker processes that drive the real acryo code
 * match violations against known_findings.json
 * write evidence/<ID>.json and produce the exit code / VIOLATION lines

Nothing in here knows anything about acryo: expectations always come from TLC.
"""
from __future__ import annotations

import hashlib
import json
import multiprocessing as mp
import os
import random
import re
import shutil
import subprocess
import sys
import time
import traceback
from dataclasses import dataclass, field
from pathlib import Path
from typing import Any, Callable, Iterable, Sequence

VERIF = Path(__file__).resolve().parent.parent
SPEC = VERIF / "spec"
WORK = VERIF / ".work"
REPLAYS = VERIF / "replays"
EVIDENCE = VERIF / "evidence"
FINDINGS_FILE = VERIF / "known_findings.json"
NCPU = min(16, os.cpu_count() or 1)


class MachineryError(RuntimeError):
    """Raised when the checking machinery itself fails (exit code 2)."""


class ApiRaised(Exception):
    """The code under test raised on an input the property says is valid."""

    def __init__(self, exc: BaseException):
        self.kind = type(exc).__name__
        self.msg = str(exc)
        tb = traceback.extract_tb(exc.__traceback__)
        self.where = next((f"{Path(f.filename).name}:{f.lineno}" for f in reversed(tb) if "/acryo/" in f.filename), "")
        super().__init__(f"{self.kind}: {self.msg} @ {self.where}")


def api(fn, *args, **kwargs):
    """Call into the code under test; an exception there is an observation, not a crash."""
    try:
        return fn(*args, **kwargs)
    except Exception as e:  # noqa: BLE001
        raise ApiRaised(e) from e


def api_try(fn, *args, **kwargs):
    """Like api() but returns (value, None) or (None, ApiRaised)."""
    try:
        return fn(*args, **kwargs), None
    except Exception as e:  # noqa: BLE001
        return None, ApiRaised(e)


# --------------------------------------------------------------------------- TLC


@dataclass
class TLCResult:
    module: str
    cfg: str
    generated: int = 0
    distinct: int = 0
    depth: int = 0
    wall_s: float = 0.0
    ok: bool = False
    violated: str | None = None
    emitted: list[Any] = field(default_factory=list)
    coverage: dict[str, tuple[int, int]] = field(default_factory=dict)
    stdout: str = ""
    cmd: str = ""

    def summary(self) -> dict:
        return dict(
            module=self.module,
            cfg=self.cfg,
            states=self.distinct,
            transitions=self.generated,
            depth=self.depth,
            emitted=len(self.emitted),
            wall_s=round(self.wall_s, 2),
            coverage={k: list(v) for k, v in self.coverage.items()},
        )


_RE_STATES = re.compile(r"(\d+) states generated, (\d+) distinct states found")
_RE_DEPTH = re.compile(r"depth of the complete state graph search is (\d+)")
_RE_INV = re.compile(r"Invariant (\S+) is violated")
_RE_APROP = re.compile(r"Action property (\S+) is violated")
_RE_COV = re.compile(r"^<(\w+) line \d+, col \d+ to line \d+, col \d+ of module (\w+)(?: \([\d ]+\))?>: (\d+):(\d+)")


def _parse_emitted(stdout: str) -> list[Any]:
    """Lines printed by PrintT(ToJson(x)) are TLA+ strings: a JSON document quoted once more."""
    out = []
    for line in stdout.splitlines():
        line = line.strip()
        if len(line) > 2 and line[0] == '"' and line[1] in "{[":
            try:
                out.append(json.loads(json.loads(line)))
            except Exception:  # not ours
                pass
    return out


def tlc(
    module: str,
    cfg: str | None = None,
    *,
    workers: int | None = None,
    timeout: int = 1500,
    env: dict[str, str] | None = None,
    coverage: bool = False,
    extra: Sequence[str] = (),
    expect_ok: bool = True,
    tag: str = "",
) -> TLCResult:
    """Run TLC on spec/<module>.tla with spec/<cfg>.cfg (default: same name)."""
    cfg = cfg or module
    run_id = f"{module}-{cfg}-{tag}-{os.getpid()}-{time.time_ns()}"
    meta = WORK / "tlc" / run_id
    meta.mkdir(parents=True, exist_ok=True)
    nworkers = workers if workers is not None else NCPU
    cmd = [
        "tlc",
        "-workers",
        str(nworkers),
        "-metadir",
        str(meta),
        "-noGenerateSpecTE",
        "-config",
        f"{cfg}.cfg",
    ]
    if coverage:
        cmd += ["-coverage", "1"]
    cmd += list(extra) + [f"{module}.tla"]
    e = dict(os.environ)
    if env:
        e.update(env)
    t0 = time.time()
    try:
        p = subprocess.run(
            cmd, cwd=SPEC, env=e, capture_output=True, text=True, timeout=timeout
        )
    except subprocess.TimeoutExpired as exc:
        shutil.rmtree(meta, ignore_errors=True)
        raise MachineryError(f"TLC timed out after {timeout}s: {' '.join(cmd)}") from exc
    finally:
        pass
    shutil.rmtree(meta, ignore_errors=True)
    res = TLCResult(module=module, cfg=cfg, stdout=p.stdout, cmd=" ".join(cmd))
    res.wall_s = time.time() - t0
    for m in _RE_STATES.finditer(p.stdout):
        res.generated, res.distinct = int(m.group(1)), int(m.group(2))
    m = _RE_DEPTH.search(p.stdout)
    if m:
        res.depth = int(m.group(1))
    m = _RE_INV.search(p.stdout) or _RE_APROP.search(p.stdout)
    if m:
        res.violated = m.group(1)
    for line in p.stdout.splitlines():
        mc = _RE_COV.match(line.strip())
        if mc:
            res.coverage[mc.group(1)] = (int(mc.group(3)), int(mc.group(4)))
    res.emitted = _parse_emitted(p.stdout)
    if any(x.startswith("-simulate") for x in extra):
        finished = "Error:" not in p.stdout and "traces generated" in p.stdout
        m = re.search(r"The number of states generated: (\d+)", p.stdout)
        if m:
            res.generated = res.distinct = int(m.group(1))
    else:
        finished = "Model checking completed. No error has been found." in p.stdout
    res.ok = finished and p.returncode == 0
    if expect_ok and not res.ok:
        if res.violated:
            # an invariant of the specification itself failed: the model is wrong or the
            # design is wrong -- either way the machinery cannot decide anything.
            raise MachineryError(
                f"TLC: {res.violated} violated in {module}/{cfg}\n" + _tail(p.stdout)
            )
        raise MachineryError(
            f"TLC failed ({p.returncode}) for {module}/{cfg}\n" + _tail(p.stdout + p.stderr)
        )
    return res


def _tail(s: str, n: int = 40) -> str:
    lines = [l for l in s.splitlines() if not l.startswith('"')]
    return "\n".join(l[:400] for l in lines[-n:])


def apalache(module: str, inv: str, *, init: str = "Init", length: int = 0, timeout: int = 600) -> tuple[str, float]:
    """Run apalache-mc on spec/<module>.tla; returns ('NoError' | 'Error' | 'unavailable', seconds)."""
    out = WORK / "apalache" / f"{module}-{inv}-{os.getpid()}"
    out.mkdir(parents=True, exist_ok=True)
    t0 = time.time()
    try:
        p = subprocess.run(["apalache-mc", "check", f"--init={init}", f"--inv={inv}", f"--length={length}", f"--out-dir={out}",
                            str(SPEC / f"{module}.tla")], cwd=out, capture_output=True, text=True, timeout=timeout)
    except (FileNotFoundError, subprocess.TimeoutExpired):
        shutil.rmtree(out, ignore_errors=True)
        return "unavailable", time.time() - t0
    shutil.rmtree(out, ignore_errors=True)
    txt = p.stdout + p.stderr
    if "The outcome is: NoError" in txt:
        return "NoError", time.time() - t0
    if "invariant 0 violated" in txt or "Found 1 error" in txt:
        return "Error", time.time() - t0
    return "unavailable", time.time() - t0


def check_not_vacuous(res: TLCResult, actions: Iterable[str]) -> None:
    for a in actions:
        if a in res.coverage and res.coverage[a][0] == 0:
            raise MachineryError(f"vacuous: action {a} of {res.module} never taken")
        if a not in res.coverage:
            raise MachineryError(f"coverage: action {a} of {res.module} not reported")


# ------------------------------------------------------------- trace validation


def validate_trace(module: str, events: Sequence[dict], *, cfg: str | None = None, timeout: int = 900,
                   tag: str = "") -> tuple[TLCResult, dict]:
    """Write events as ndjson, let TLC judge them with spec/<module>.tla, return its verdict record
    ({'verdict': 'done', 'n': ..., 'bad': [...]})."""
    d = WORK / "traces"
    d.mkdir(parents=True, exist_ok=True)
    path = d / f"{module}-{tag}-{os.getpid()}-{time.time_ns()}.ndjson"
    with open(path, "w") as fh:
        for e in events:
            fh.write(json.dumps(e, default=_jd) + "\n")
    res = tlc(module, cfg, workers=1, timeout=timeout, env={"TRACE_FILE": str(path)}, tag=tag)
    verdicts = [x for x in res.emitted if isinstance(x, dict) and x.get("verdict") == "done"]
    if not verdicts:
        raise MachineryError(f"trace spec {module} produced no verdict\n" + _tail(res.stdout))
    v = verdicts[-1]
    if v.get("n") != len(events):
        raise MachineryError(f"trace spec {module} judged {v.get('n')} of {len(events)} events")
    try:
        path.unlink()
    except OSError:
        pass
    return res, v


# --------------------------------------------------------------------- sampling


def seed_from_env() -> int:
    try:
        return int(os.environ.get("VERIF_SEED", "0"))
    except ValueError:
        return 0


def stratified_sample(
    cases: Sequence[Any], key: Callable[[Any], Any], budget: int, seed: int
) -> list[Any]:
    """Keep at least one case per stratum, then fill up to budget round-robin."""
    if len(cases) <= budget:
        return list(cases)
    rng = random.Random(seed)
    strata: dict[Any, list[Any]] = {}
    for c in cases:
        strata.setdefault(json.dumps(key(c), sort_keys=True, default=str), []).append(c)
    for v in strata.values():
        rng.shuffle(v)
    keys = sorted(strata)
    rng.shuffle(keys)
    out: list[Any] = []
    i = 0
    while len(out) < budget and keys:
        nk = []
        for k in keys:
            if strata[k]:
                out.append(strata[k].pop())
                if len(out) >= budget:
                    break
            if strata[k]:
                nk.append(k)
        keys = nk
        i += 1
    return out


# ------------------------------------------------------------- parallel replay

_REPLAY_FN: Callable[[Any], Any] | None = None


def _worker_init(fn_module: str, fn_name: str, sync: bool):
    global _REPLAY_FN
    os.environ.setdefault("OMP_NUM_THREADS", "1")
    os.environ.setdefault("OPENBLAS_NUM_THREADS", "1")
    os.environ.setdefault("POLARS_MAX_THREADS", "1")
    import importlib

    mod = importlib.import_module(fn_module)
    _REPLAY_FN = getattr(mod, fn_name)
    if sync:
        import dask

        dask.config.set(scheduler="synchronous")


def _worker_call(case):
    assert _REPLAY_FN is not None
    try:
        return _REPLAY_FN(case)
    except ApiRaised as e:  # the code under test raised on an input the property says is valid: an observation, a violation
        return {"failures": [dict(clause="Raised", error=f"{e.kind}: {e.msg[:160]}", where=e.where)], "events": [], "api_raised": True}
    except Exception as e:  # noqa: BLE001
        # an exception that was raised INSIDE the code under test (the deepest harness frame lies above the deepest acryo
        # frame) is an observation about that code; anything else is a crash of the driver: machinery failure
        tb = traceback.extract_tb(e.__traceback__)
        last_h = max((i for i, f in enumerate(tb) if "/harness/" in f.filename), default=-1)
        last_a = max((i for i, f in enumerate(tb) if "/acryo/" in f.filename), default=-1)
        if last_a > last_h and not isinstance(e, (MemoryError, MachineryError)):
            where = f"{Path(tb[last_a].filename).name}:{tb[last_a].lineno}"
            return {"failures": [dict(clause="Raised", error=f"{type(e).__name__}: {str(e)[:160]}", where=where)], "events": [], "api_raised": True}
        return {"machinery_error": traceback.format_exc(), "case": case}


def parallel_replay(
    fn_module: str,
    fn_name: str,
    cases: Sequence[Any],
    *,
    procs: int | None = None,
    sync_dask: bool = True,
    chunksize: int | None = None,
) -> list[Any]:
    """Run fn(case) for every case in worker processes; results in case order."""
    if not cases:
        return []
    procs = min(procs or NCPU, len(cases))
    # the cases of one worker share a process and hence every module-level cache of the code under test: they are handed out in
    # a seeded SHUFFLED order, so that neighbouring calls differ in many parameters at once (incidental history coverage);
    # results are returned in the original order
    import random

    order = list(range(len(cases)))
    random.Random(seed_from_env() * 7919 + len(cases)).shuffle(order)
    shuffled = [cases[i] for i in order]
    if procs <= 1:
        _worker_init(fn_module, fn_name, sync_dask)
        res = [_worker_call(c) for c in shuffled]
    else:
        ctx = mp.get_context("spawn")
        cs = chunksize or max(1, len(cases) // (procs * 8))
        with ctx.Pool(procs, initializer=_worker_init, initargs=(fn_module, fn_name, sync_dask)) as pool:
            res = pool.map(_worker_call, shuffled, chunksize=cs)
    out: list[Any] = [None] * len(cases)
    for i, r in zip(order, res):
        out[i] = r
    return out


# --------------------------------------------------------------------- findings


def load_findings(prop: str) -> list[dict]:
    if not FINDINGS_FILE.exists():
        return []
    data = json.loads(FINDINGS_FILE.read_text())
    return [f for f in data.get("findings", []) if f.get("property") == prop]


def _match_value(pat: Any, val: Any) -> bool:
    if isinstance(pat, dict):
        for op, ref in pat.items():
            if op == "lt" and not (val is not None and val < ref):
                return False
            if op == "le" and not (val is not None and val <= ref):
                return False
            if op == "gt" and not (val is not None and val > ref):
                return False
            if op == "ge" and not (val is not None and val >= ref):
                return False
            if op == "in" and val not in ref:
                return False
            if op == "ne" and val == ref:
                return False
            if op == "contains" and not (val is not None and ref in val):
                return False
        return True
    return pat == val


def finding_for(violation: dict, findings: list[dict]) -> dict | None:
    """A violation descriptor (flat dict) is excused only by a 'known' finding whose matcher
    agrees on every key.  'fixed' entries never match."""
    for f in findings:
        if f.get("status") != "known":
            continue
        m = f.get("matcher", {})
        if all(_match_value(p, violation.get(k)) for k, p in m.items()):
            return f
    return None


# --------------------------------------------------------------------- reporting


@dataclass
class Report:
    prop: str
    tier: str
    seed: int
    level: str = "model_checking"
    t0: float = field(default_factory=time.time)
    tlc_runs: list[TLCResult] = field(default_factory=list)
    evaluations: int = 0
    nontrivial: set = field(default_factory=set)
    rule: str = ""
    samples: list[Any] = field(default_factory=list)
    traces_validated: int = 0
    violations: list[dict] = field(default_factory=list)
    known_hits: dict[str, int] = field(default_factory=dict)
    known_what: dict[str, str] = field(default_factory=dict)
    notes: list[str] = field(default_factory=list)
    assumptions: list[str] = field(default_factory=list)
    extra: dict[str, Any] = field(default_factory=dict)
    exhaustive: bool = False
    machinery: list[str] = field(default_factory=list)
    classes: dict[str, int] = field(default_factory=dict)

    def add_tlc(self, r: TLCResult) -> TLCResult:
        self.tlc_runs.append(r)
        return r

    def count(self, cls: str, n: int = 1):
        self.classes[cls] = self.classes.get(cls, 0) + n

    def record(self, case: Any, failures: list[dict], *, nontrivial_key: Any = None):
        """Register the outcome of one replayed case. failures: list of violation descriptors."""
        self.evaluations += 1
        if nontrivial_key is not None:
            self.nontrivial.add(json.dumps(nontrivial_key, sort_keys=True, default=str))
        if len(self.samples) < 5:
            self.samples.append(case)
        findings = load_findings(self.prop)
        for v in failures:
            v = dict(v)
            v.setdefault("property", self.prop)
            f = finding_for(v, findings)
            if f is not None:
                self.known_hits[f["id"]] = self.known_hits.get(f["id"], 0) + 1
                self.known_what[f["id"]] = f.get("what", "")
            else:
                v["case"] = case
                self.violations.append(v)

    def machinery_error(self, msg: str):
        self.machinery.append(msg)

    # -- output
    def finish(self) -> int:
        wall = time.time() - self.t0
        states = sum(r.distinct for r in self.tlc_runs)
        transitions = sum(r.generated for r in self.tlc_runs)
        cov: dict[str, Any] = dict(
            states=states,
            transitions=transitions,
            traces_validated_against_impl=self.traces_validated,
            evaluations=self.evaluations,
            distinct_nontrivial=len(self.nontrivial),
            rule=self.rule,
            samples=self.samples[:5] or ["<none>"],
            exhaustive=self.exhaustive,
            tlc_runs=[r.summary() for r in self.tlc_runs],
            exactness_classes=self.classes,
            known_findings_reobserved=self.known_hits,
            notes=self.notes,
        )
        cov.update(self.extra)
        ev = dict(
            property_id=self.prop,
            tier=self.tier,
            seed=self.seed,
            level=self.level,
            coverage=cov,
            assumptions=self.assumptions,
            wall_s=round(wall, 2),
            violations=len(self.violations),
        )
        # X-checks are extended coverage outside the listed properties: their reports live in extras/, not evidence/
        edir = (VERIF / "extras") if self.prop.startswith("X") else EVIDENCE
        edir.mkdir(exist_ok=True)
        (edir / f"{self.prop}.json").write_text(json.dumps(ev, indent=1, default=_jd))
        for fid, n in sorted(self.known_hits.items()):
            print(f"KNOWN-FINDING: property={self.prop} {fid}: {self.known_what.get(fid, '')} (re-observed {n}x)")
        if self.machinery:
            for m in self.machinery[:5]:
                print(f"MACHINERY-ERROR property={self.prop}: {m}", file=sys.stderr)
            return 2
        if self.violations:
            REPLAYS.mkdir(exist_ok=True)
            seen = set()
            for v in self.violations:
                blob = json.dumps(v, sort_keys=True, default=_jd)
                h = hashlib.sha1(blob.encode()).hexdigest()[:12]
                path = REPLAYS / f"{self.prop}-{h}.json"
                path.write_text(json.dumps(v, indent=1, default=_jd))
                key = (v.get("clause"), v.get("kind"))
                if key in seen and len(seen) >= 1 and len(self.violations) > 20:
                    continue
                seen.add(key)
                print(
                    f"VIOLATION property={self.prop} replay={path} clause={v.get('clause')} "
                    f"detail={_short(v)}"
                )
            print(f"{self.prop}: {len(self.violations)} violation(s) in {self.evaluations} cases")
            return 1
        print(
            f"{self.prop}: held on {self.evaluations} replayed cases "
            f"({states} states / {transitions} transitions checked by TLC, "
            f"{self.traces_validated} traces validated) in {wall:.1f}s"
        )
        return 0


def _jd(o):
    try:
        import numpy as np

        if isinstance(o, np.ndarray):
            return o.tolist()
        if isinstance(o, (np.floating, np.integer, np.bool_)):
            return o.item()
    except Exception:
        pass
    if isinstance(o, (set, frozenset)):
        return sorted(o)
    return str(o)


def _short(v: dict, n: int = 300) -> str:
    d = {k: x for k, x in v.items() if k not in ("case", "property")}
    s = json.dumps(d, default=_jd)
    return s if len(s) <= n else s[: n - 3] + "..."


def collect(report: Report, cases: Sequence[Any], results: Sequence[Any], key: Callable[[Any], Any] | None = None):
    """Fold worker results ({'failures': [...], 'classes': {...}, 'skip': bool}) into the report."""
    for c, r in zip(cases, results):
        if isinstance(r, dict) and "machinery_error" in r:
            report.machinery_error(r["machinery_error"])
            continue
        for k, n in (r.get("classes") or {}).items():
            report.count(k, n)
        report.record(c, r.get("failures", []), nontrivial_key=(key(c) if key else c))


def repo_root() -> str:
    """The source tree acryo is imported from (normally /repo; a snapshot when PYTHONPATH points elsewhere)."""
    import acryo

    return str(Path(acryo.__file__).resolve().parent.parent)


def clean_work():
    shutil.rmtree(WORK, ignore_errors=True)
