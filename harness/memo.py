"""History independence of the memoised helpers behind public entry points (spec/Memo.tla).

TLC checks the LRU design (sound key, no in-place use) and REJECTS the two hazard designs; it emits every call
programme of <= 3 calls over the one-factor-at-a-time argument bindings and the eviction programmes.  Each
programme is run on real entry points with the abstract fields (a, b, c) bound to real arguments; every
returned array is compared with the array the same call returns when all of acryo's lru caches are empty
and the objects are new.  Used by the checks whose anchors contain such helpers (C04/C05: sub-pixel mesh,
C07: ZNCC landscape padding, C08: wedge normals/indices, C16: Butterworth weights, C17: FSC labels/phases).
"""
from __future__ import annotations

import importlib
import pkgutil
from typing import Any

import numpy as np

from harness import engine

SHAPES = {0: (6, 7, 8), 1: (7, 7, 8)}


def purge_acryo() -> None:
    """Forget every imported acryo module, so that the next import starts from pristine module-level state (lru caches, but also
    plain module-level dictionaries, which cache_clear() cannot reach).  Used for the reference values only."""
    import sys

    for k in [m for m in sys.modules if m == "acryo" or m.startswith("acryo.")]:
        del sys.modules[k]


_FRESH: dict = {}


def clear_all_caches() -> int:
    import acryo

    n = 0
    for m in pkgutil.walk_packages(acryo.__path__, "acryo."):
        try:
            mod = importlib.import_module(m.name)
        except Exception:  # noqa: BLE001  optional backends
            continue
        for v in vars(mod).values():
            if callable(getattr(v, "cache_clear", None)):
                v.cache_clear()
                n += 1
    return n


def _img(shape, seed=0):
    return np.random.default_rng(seed + sum(shape)).normal(size=shape).astype(np.float32)


def _blob(shape, d=(0.0, 0.0, 0.0)):
    zz, yy, xx = np.indices(shape).astype(np.float64)
    c = (np.array(shape) - 1) / 2 + np.array(d)
    out = np.exp(-((zz - c[0]) ** 2 + (yy - c[1]) ** 2 + (xx - c[2]) ** 2) / 4.0) + 0.6 * np.exp(-((zz - c[0] - 1.5) ** 2 + (yy - c[1] + 1) ** 2 + (xx - c[2] - 0.5) ** 2) / 2.0)
    return out.astype(np.float32)


class _Ctx:
    """Objects that live as long as one programme (alignment models are reused across its calls)."""

    def __init__(self):
        self.models: dict[Any, Any] = {}

    def model(self, name, shape, tilt=False):
        from acryo.alignment import FSCAlignment, NCCAlignment, PCCAlignment, ZNCCAlignment

        k = (name, shape, tilt)
        if k not in self.models:
            cls = dict(ZNCC=ZNCCAlignment, PCC=PCCAlignment, FSC=FSCAlignment, NCC=NCCAlignment)[name]
            self.models[k] = cls(_blob(shape), tilt=(-60.0, 50.0)) if tilt else cls(_blob(shape))
        return self.models[k]

    # ---- objects that are mutated IN PLACE between calls (the abstract argument `a` names the state they must be in)
    def loader_at(self, a: int, shape):
        """One SubtomogramLoader whose molecules are moved in place between pose set 0 and pose set 1."""
        from scipy.spatial.transform import Rotation
        from acryo import Molecules, SubtomogramLoader

        if "loader" not in self.models:
            tomo = np.random.default_rng(5).normal(size=(30, 32, 34)).astype(np.float32)
            self.models["loader"] = SubtomogramLoader(tomo, Molecules(_POSES[a][0].copy(), Rotation.from_quat(_POSES[a][1])), order=1, scale=0.8)
            self.models["pose"] = a
        ldr = self.models["loader"]
        if self.models["pose"] != a:
            cur, new = _POSES[self.models["pose"]], _POSES[a]
            ldr.molecules.translate(new[0] - cur[0], copy=False)
            ldr.molecules.rotate_by(Rotation.from_quat(new[1]) * Rotation.from_quat(cur[1]).inv(), copy=False)
            self.models["pose"] = a
        return ldr

    def batch_with(self, a: int):
        """One BatchLoader that is grown in place: a = 1 means the second tomogram has been registered."""
        from acryo import BatchLoader, Molecules

        if "batch" not in self.models:
            b = BatchLoader(order=1, scale=1.0)
            b.add_tomogram(_TOMOS[0], Molecules(_BPOS[0]))
            self.models["batch"] = b
            self.models["grown"] = False
        b = self.models["batch"]
        if a == 1 and not self.models["grown"]:
            b.add_tomogram(_TOMOS[1], Molecules(_BPOS[1]))
            self.models["grown"] = True
        if a == 0 and self.models["grown"]:
            import polars as pl

            return b.filter(pl.col("image-id") == 0)      # a derived object: the first tomogram only
        return b


_Q = np.array([[0.0, 0.0, 0.0, 1.0], [0.5, 0.5, 0.5, 0.5], [0.0, 0.70710678, 0.0, 0.70710678]])
_Q1 = np.array([[0.70710678, 0.0, 0.0, 0.70710678], [0.0, 0.0, 1.0, 0.0], [0.5, -0.5, 0.5, 0.5]])
_P0 = np.array([[9.6, 10.4, 11.2], [12.0, 12.8, 13.6], [8.8, 14.4, 9.6]])
_POSES = {0: (_P0, _Q), 1: (_P0 + np.array([[0.8, 0.0, -0.8], [-1.6, 0.8, 0.0], [0.0, -0.8, 1.6]]), _Q1)}
_TOMOS = [np.random.default_rng(21).normal(size=(20, 20, 20)).astype(np.float32), np.random.default_rng(22).normal(size=(20, 20, 20)).astype(np.float32) + 3.0]
_BPOS = [np.array([[8.0, 9.0, 10.0], [11.0, 10.0, 9.0]]), np.array([[9.0, 9.0, 9.0], [10.0, 11.0, 8.0], [8.0, 12.0, 11.0]])]


def _call(entry: str, x: dict, ctx: _Ctx):
    """One public call with the abstract arguments (a, b, c) bound to real ones."""
    from scipy.spatial.transform import Rotation
    from acryo import _utils as au
    from acryo.backend import Backend
    from acryo.tilt import dual_axis, single_axis

    shape = SHAPES[x["a"]]
    if entry in ("lowpass_utils", "lowpass_backend", "lowpass_backend_ft", "highpass_utils"):
        cutoff = (0.2, 0.35)[x["b"]]
        order = (2, 4)[x["c"]]
        img = _img(shape)
        if entry == "lowpass_utils":
            return au.lowpass_filter(img, cutoff, order)
        if entry == "highpass_utils":
            return au.highpass_filter(img, cutoff, order)
        if entry == "lowpass_backend":
            return Backend().lowpass_filter(img, cutoff, order)
        return Backend().lowpass_filter_ft(img, cutoff, order)
    if entry == "low_high_utils":
        # the low-pass and the high-pass filter of the same (shape, cutoff, order) are built from the same cached weights
        cutoff = (0.2, 0.35)[x["b"]]
        img = _img(shape)
        return au.highpass_filter(img, cutoff, 2) if x["c"] else au.lowpass_filter(img, cutoff, 2)
    if entry.startswith("wedge"):
        rng = ((-60.0, -40.0)[x["b"]], (60.0, 50.0)[x["c"]])
        R = Rotation.from_quat([1, 2, 0, 3])
        if entry == "wedge_single_y":
            return single_axis(rng, axis="y").create_mask(R, shape)
        if entry == "wedge_single_x":
            return single_axis(rng, axis="x").create_mask(R, shape)
        if entry == "wedge_dual":
            return dual_axis(rng, (-45.0, 45.0)).create_mask(R, shape)
        if entry == "wedge_backend":
            return Backend().missing_wedge_mask(R, rng, shape)
        if entry == "wedge_utils":
            return au.missing_wedge_mask(R, rng, shape)
    if entry in ("zncc_landscape", "fsc_landscape", "pcc_landscape"):
        ms = ((1.0, 2.0)[x["b"]], 1.0, (1.0, 2.0)[x["c"]])
        m = ctx.model(entry.split("_")[0].upper(), shape)
        return np.asarray(m.landscape(_blob(shape, (0.6, -0.4, 0.3)), ms))
    if entry in ("zncc_align", "pcc_align", "fsc_align"):
        ms = ((1.0, 2.0)[x["b"]], 1.5, (1.0, 2.5)[x["c"]])
        m = ctx.model(entry.split("_")[0].upper(), shape)
        r = m.align(_blob(shape, (0.6, -0.4, 0.3)), ms)
        return np.concatenate([np.asarray(r.shift, dtype=np.float64), [float(r.score)]])
    if entry.endswith("_tilt"):
        # one model instance with a missing wedge, molecules of different orientation (b) and content (c)
        name, what, _ = entry.split("_")
        m = ctx.model(name.upper(), shape, tilt=True)
        # two orientations that are inverse to each other (q and its conjugate differ only in signs): per-orientation state
        # keyed too coarsely (|q|, rounded angles) confuses exactly such pairs
        qa = np.array([0.18257419, 0.36514837, 0.54772256, 0.73029674])
        quat = qa * np.array([-1.0, -1.0, -1.0, 1.0]) if x["b"] else qa
        sub = _blob(shape, ((0.6, -0.4, 0.3), (-0.5, 0.2, 0.7))[x["c"]])
        if what == "score":
            return np.array([float(m.score(sub, quat, np.zeros(3)))])
        if what == "landscape":
            return np.asarray(m.landscape(sub, (1.0, 1.0, 1.0), quat, np.zeros(3)))
        r = m.align(sub, (1.5, 1.5, 1.5), quat, np.zeros(3))
        return np.concatenate([np.asarray(r.shift, dtype=np.float64), [float(r.score)]])
    if entry == "matcher_provider_scales":
        # ONE template matcher built from an ImageProvider (its pixel size depends on the scale), used at different scales
        from acryo import pick, pipe

        if "matcher" not in ctx.models:
            ctx.models["matcher"] = pick.ZNCCTemplateMatcher(pipe.from_array(_blob((7, 7, 7)), original_scale=1.0))
        scale = (1.0, 0.5)[x["a"]]
        tmpl = np.asarray(pipe.from_array(_blob((7, 7, 7)), original_scale=1.0)(scale))
        n = tmpl.shape[0]
        img = np.zeros((3 * n + 8,) * 3, np.float32)
        for k, p in enumerate(((n, n, n), (2 * n + 2, n + 1 + x["b"], 2 * n), (n + 2, 2 * n + 3, n + 1 + x["c"]))):
            sl = tuple(slice(q - n // 2, q - n // 2 + n) for q in p)
            img[sl] += tmpl
        mol = ctx.models["matcher"].pick_molecules(img, scale, min_distance=2.0, min_score=0.7)
        pos = np.asarray(mol.pos, dtype=np.float64)
        order = np.lexsort(pos.T[::-1]) if len(pos) else []
        out = np.full((6, 3), -1.0)
        out[: min(6, len(pos))] = pos[order][:6]
        return out
    if entry == "log_sigma_pairs":
        # pickers with different exclusion radii that round up to the same integer window (2.6 and 3.0 pixels), on an image
        # with many local maxima
        from scipy import ndimage as ndi
        from acryo import pick

        rng = np.random.default_rng(17 + x["a"])
        img = ndi.gaussian_filter(rng.normal(size=(24, 26, 28)), 1.5).astype(np.float32)
        scale = (1.0, 0.5)[x["c"]]
        mol = pick.LoGPicker(sigma=(2.6, 3.0)[x["b"]] * scale).pick_molecules(img, scale)
        pos = np.asarray(mol.pos, dtype=np.float64) / scale
        order = np.lexsort(pos.T[::-1]) if len(pos) else []
        out = np.full((60, 3), -1.0)
        out[: min(60, len(pos))] = pos[order][:60]
        return np.concatenate([out.ravel(), [float(len(pos))]])
    if entry == "loader_load_inplace":
        ldr = ctx.loader_at(x["a"], None)
        box = ((5, 5, 5), (4, 5, 6))[x["b"]]
        if x["c"]:
            return np.stack([np.asarray(v) for v in ldr.load_iter(output_shape=box)])
        return np.asarray(ldr.asnumpy(output_shape=box))
    if entry == "batch_average_grow":
        b = ctx.batch_with(x["a"])
        box = ((5, 5, 5), (4, 5, 6))[x["b"]]
        if x["c"]:
            h = np.asarray(b.average_split(n_set=1, seed=3, squeeze=True, output_shape=box))
            return h
        return np.asarray(b.average(output_shape=box))
    raise ValueError(entry)


def replay(case) -> dict:
    entry, prog = case["entry"], case["prog"]
    desc = dict(part="memo", entry=entry, kind=case["kind"], calls=["".join(str(x[f]) for f in "abc") for x in prog])
    fresh: dict[str, np.ndarray] = {}
    try:
        for x in prog:
            k = "".join(str(x[f]) for f in "abc")
            if (entry, k) not in _FRESH:
                purge_acryo()                       # reference: a pristine import, new objects
                _FRESH[(entry, k)] = np.array(_call(entry, x, _Ctx()), copy=True)
            fresh[k] = _FRESH[(entry, k)]
        purge_acryo()
        ctx = _Ctx()
        for i, x in enumerate(prog):
            k = "".join(str(x[f]) for f in "abc")
            got = np.asarray(_call(entry, x, ctx))
            want = fresh[k]
            # poses reached by in-place arithmetic differ from directly constructed ones by float32 rounding
            atol = 2e-4 if entry in ("loader_load_inplace",) else 1e-6
            if got.shape != want.shape or not np.allclose(got, want, rtol=0, atol=atol, equal_nan=True):
                return dict(failures=[dict(desc, clause="HistoryIndependent", call=i, args=k,
                                           maxdiff=(float(np.nanmax(np.abs(got.astype(np.float64) - want))) if got.shape == want.shape else -1.0))])
    except engine.ApiRaised:
        raise
    except Exception as e:  # noqa: BLE001
        return dict(failures=[dict(desc, clause="Raised", error=type(e).__name__ + ": " + str(e)[:100])])
    return dict(failures=[], classes={"memo_programmes": 1, "memo_calls": len(prog)})


def programmes(rep: engine.Report | None = None, hazards: bool = False) -> list[dict]:
    """Model-check the memo design and return the programmes to replay."""
    mc = engine.tlc("Memo", "MC_Memo", timeout=900, tag="memo")
    if rep is not None:
        rep.add_tlc(mc)
    if hazards:
        for cfg in ("MC_Memo_hazard_key", "MC_Memo_hazard_inplace"):
            hz = engine.tlc("Memo", cfg, timeout=900, expect_ok=False, tag="memo")
            if hz.violated != "HistoryIndependent":
                raise engine.MachineryError(f"Memo.tla: hazard design {cfg} was not rejected by TLC (vacuous invariant?)")
            if rep is not None:
                rep.notes.append(f"Memo.tla hazard design {cfg} rejected by TLC (HistoryIndependent violated), as it must be")
    em = engine.tlc("Memo", "EMIT_Memo", workers=1, timeout=900, tag="memo")
    if rep is not None:
        rep.add_tlc(em)
    progs = []
    seen = set()
    for e in em.emitted:
        if e.get("kind") == "ofat":
            k = str(e["prog"])
            if k not in seen:
                seen.add(k)
                progs.append(dict(kind="ofat", prog=e["prog"]))
        elif e.get("kind") == "evict":
            for p in e["progs"]:
                progs.append(dict(kind="evict", prog=p))
    if not progs:
        raise engine.MachineryError("EMIT_Memo emitted nothing")
    return progs


def run_family(rep: engine.Report, entries: list[str], hazards: bool = False) -> int:
    progs = programmes(rep, hazards)
    cases = [dict(part="memo", entry=e, kind=p["kind"], prog=p["prog"]) for e in entries for p in progs]
    results = engine.parallel_replay("harness.memo", "replay", cases, chunksize=8)
    engine.collect(rep, cases, results, key=lambda c: ("memo", c["entry"], str(c["prog"])))
    rep.traces_validated += len(cases)
    rep.notes.append(
        f"memoised helpers (spec/Memo.tla): {len(progs)} call programmes (all sequences of <= 3 calls over one-factor-at-a-time arguments, "
        f"eviction programmes) x entry points {entries}: every returned array equals the one returned with empty caches and new objects")
    return len(cases)
